"""
In-process driver of the real client library (ProxyKmipClient / KMIPProxy /
KMIPProtocol) over a scripted transport.  Nothing in /repo is edited and no
socket is opened: `client.proxy.protocol = KMIPProtocol(ScriptedSocket(...))`
puts the real length-prefixed receive loop (`read` / `_recv_all`) on top of a
fake socket object whose `sendall` runs the SERVER side of the conversation
(the real request decoder, optionally a real KmipEngine, a scripted responder)
and whose `recv` hands the response bytes out under a scripted chunking.

A *case* is a JSON object (everything needed to re-run it):

  {"op": <client method>, "version": 10|11|12|13|14|20,
   "args": {...},                      argument values (plain JSON, see `pyval`)
   "resp": {"echo": "same"|"absent"|"other", "status": n, "reason": n|null,
            "message": s|null, "payload": {...}|null,
            "corrupt": null|"tag"|"inner-length"|"type"|"garbage", "items": 1|2},
   "chunk": {"sizes": [n,...], "truncate": n|null, "empty_after": k|null}}

or, engine-backed: {"engine": true, "version": v, "script": [[op, args], ...], "chunk": {...}}.
"""
import copy
import logging
import os
import shutil
import tempfile
import traceback
import warnings

warnings.filterwarnings("ignore")

from kmip.core import enums, exceptions as cexc, primitives, utils  # noqa: E402
from kmip.core import attributes as cattr, misc as cmisc, objects as cobjects, secrets  # noqa: E402
from kmip.core.factories.attributes import AttributeFactory  # noqa: E402
from kmip.core import policy as core_policy  # noqa: E402
from kmip.core.messages import contents, messages, payloads  # noqa: E402
from kmip.services.server import engine as engine_mod  # noqa: E402  (module level: vcheck re-imports kmip later)
from kmip.pie import exceptions as pexc  # noqa: E402
from kmip.pie import objects as pobjects  # noqa: E402
from kmip.pie.client import ProxyKmipClient  # noqa: E402
from kmip.pie.factory import ObjectFactory  # noqa: E402
from kmip.services import results as kresults  # noqa: E402
from kmip.services.kmip_protocol import KMIPProtocol, RequestLengthMismatch  # noqa: E402

AF = AttributeFactory()
VF = AF.value_factory
OF = ObjectFactory()

VERSIONS = {10: enums.KMIPVersion.KMIP_1_0, 11: enums.KMIPVersion.KMIP_1_1, 12: enums.KMIPVersion.KMIP_1_2,
            13: enums.KMIPVersion.KMIP_1_3, 14: enums.KMIPVersion.KMIP_1_4, 20: enums.KMIPVersion.KMIP_2_0}
O = enums.Operation
OPCODE = {
    "create": O.CREATE, "create_key_pair": O.CREATE_KEY_PAIR, "register": O.REGISTER, "rekey": O.REKEY,
    "derive_key": O.DERIVE_KEY, "locate": O.LOCATE, "check": O.CHECK, "get": O.GET,
    "get_attributes": O.GET_ATTRIBUTES, "get_attribute_list": O.GET_ATTRIBUTE_LIST, "activate": O.ACTIVATE,
    "revoke": O.REVOKE, "destroy": O.DESTROY, "encrypt": O.ENCRYPT, "decrypt": O.DECRYPT,
    "signature_verify": O.SIGNATURE_VERIFY, "sign": O.SIGN, "mac": O.MAC, "delete_attribute": O.DELETE_ATTRIBUTE,
    "set_attribute": O.SET_ATTRIBUTE, "modify_attribute": O.MODIFY_ATTRIBUTE, "query": O.QUERY,
    "discover_versions": O.DISCOVER_VERSIONS, "rekey_key_pair": O.REKEY_KEY_PAIR,
}
OPS = list(OPCODE)
PROXY_ONLY = ("query", "discover_versions", "rekey_key_pair")
UNIT_OPS = ("activate", "revoke", "destroy")
GENERIC_OPS = ("delete_attribute", "set_attribute", "modify_attribute")
# first KMIP version that defines the operation (KMIP specification, independent of the code)
SPEC_MIN_VERSION = {"discover_versions": 11, "encrypt": 12, "decrypt": 12, "sign": 12, "signature_verify": 12,
                    "mac": 12, "set_attribute": 20}
# CryptographicParameters fields and the version that introduced them (KMIP 1.0 §2.1.5, 1.2, 1.4)
CP_FIELDS = [("block_cipher_mode", 10, "BlockCipherMode"), ("padding_method", 10, "PaddingMethod"),
             ("hashing_algorithm", 10, "HashingAlgorithm"), ("key_role_type", 10, "KeyRoleType"),
             ("digital_signature_algorithm", 12, "DigitalSignatureAlgorithm"),
             ("cryptographic_algorithm", 12, "CryptographicAlgorithm"),
             ("random_iv", 14, None), ("iv_length", 14, None), ("tag_length", 14, None),
             ("fixed_field_length", 14, None), ("invocation_field_length", 14, None),
             ("counter_length", 14, None), ("initial_counter_value", 14, None)]


KEEP_LOGGING = [False]       # set by a caller that runs cases under a logging configuration of its own


def quiet():
    if KEEP_LOGGING[0]:
        return
    logging.disable(logging.CRITICAL)


# ---------------------------------------------------------------------------
# JSON <-> python values
# ---------------------------------------------------------------------------
def pyval(j):
    """JSON value spec -> python value.  {"E": [cls, name]} enum member, {"hex": s} bytes,
    {"Es": [cls, [names]]} list of enum members; lists / dicts recurse."""
    if isinstance(j, dict):
        if set(j) == {"E"}:
            return getattr(enums, j["E"][0])[j["E"][1]]
        if set(j) == {"Es"}:
            return [getattr(enums, j["Es"][0])[n] for n in j["Es"][1]]
        if set(j) == {"hex"}:
            return bytes.fromhex(j["hex"])
        return {k: pyval(v) for k, v in j.items()}
    if isinstance(j, list):
        return [pyval(x) for x in j]
    return j


def en(member):
    return {"E": [type(member).__name__, member.name]}


def ename(j):
    """enum spec -> canonical name (or None)"""
    return None if j is None else j["E"][1]


def mask_int(names):
    m = 0
    for n in names or []:
        m |= enums.CryptographicUsageMask[n].value
    return m


# attribute specs: {"name": <attribute name>, "index": n|null, "value": <JSON value spec>}
def attr_pyvalue(ta):
    n, v = ta["name"], pyval(ta["value"])
    if n == "Name":
        return cattr.Name.create(v[0], enums.NameType[v[1]])
    if n == "Application Specific Information":
        return {"application_namespace": v[0], "application_data": v[1]}
    return v


def build_attribute(ta):
    """KMIP 1.x Attribute structure"""
    return AF.create_attribute(enums.AttributeType(ta["name"]), attr_pyvalue(ta), ta.get("index"))


def build_primitive(ta):
    """KMIP 2.0 attribute: the bare value carrying its own tag"""
    tag = enums.Tags[enums.AttributeType(ta["name"]).name]
    return VF.create_attribute_value_by_enum(tag, attr_pyvalue(ta))


def canon_value(v):
    """canonical JSON-able form of an attribute value / primitive (what the property compares)"""
    if v is None:
        return None
    if isinstance(v, cattr.Name):
        return ["name", v.name_value.value, v.name_type.value.name]
    if isinstance(v, cattr.ApplicationSpecificInformation):
        return ["asi", v.application_namespace, v.application_data]
    if isinstance(v, cattr.CryptographicParameters):
        return ["cp", cp_view(v, 20)]
    if isinstance(v, primitives.Enumeration):
        return ["enum", v.value.name]
    if isinstance(v, primitives.Boolean):
        return ["bool", bool(v.value)]
    if isinstance(v, primitives.DateTime):
        return ["date", v.value]
    if isinstance(v, (primitives.Integer, primitives.LongInteger, primitives.Interval, primitives.BigInteger)):
        return ["int", v.value]
    if isinstance(v, primitives.TextString):
        return ["text", v.value]
    if isinstance(v, primitives.ByteString):
        return ["bytes", bytes(v.value).hex()]
    return ["other", type(v).__name__]


def canon_spec_value(ta):
    """the same canonical form computed from the attribute SPEC alone (no kmip objects involved)"""
    n, v = ta["name"], ta["value"]
    if n == "Name":
        return ["name", v[0], v[1]]
    if n == "Application Specific Information":
        return ["asi", v[0], v[1]]
    if n == "Cryptographic Usage Mask":
        return ["int", mask_int(v["Es"][1])]
    if isinstance(v, dict) and "E" in v:
        return ["enum", v["E"][1]]
    if isinstance(v, bool):
        return ["bool", v]
    if n.endswith("Date"):
        return ["date", v]
    if isinstance(v, int):
        return ["int", v]
    return ["text", v]


def attr_view(a):
    """decoded 1.x Attribute -> [name, index, value]"""
    return [a.attribute_name.value, None if a.attribute_index is None else a.attribute_index.value,
            canon_value(a.attribute_value)]


def attrs_view(template, with_index=False):
    if template is None:
        return []
    out = []
    for a in template.attributes:
        n, i, v = attr_view(a)
        out.append([n, i, v] if with_index else [n, v])
    return out


def prim_view(p):
    return None if p is None else [p.tag.name, canon_value(p)]


def cp_view(cp, version):
    """decoded CryptographicParameters -> dict (all 13 fields)"""
    if cp is None:
        return None
    out = {}
    for f, _, cls in CP_FIELDS:
        v = getattr(cp, f)
        out[f] = v.name if cls and v is not None else v
    return out


def cp_expected(spec, version):
    """the dict the server must see for the cryptographic-parameters ARGUMENT (the codec writes every
    field under every version, so every field travels)"""
    if spec is None:
        return None
    out = {}
    for f, since, cls in CP_FIELDS:
        v = spec.get(f)
        out[f] = (v["E"][1] if cls and v is not None else v)
    return out


def uid_text(u):
    if u is None:
        return None
    return u.value if hasattr(u, "value") else u


def hexo(b):
    if b is None:
        return None
    if hasattr(b, "value"):
        b = b.value
    return bytes(b).hex()


# ---------------------------------------------------------------------------
# pie managed objects (register argument / get response)
# ---------------------------------------------------------------------------
def pie_wrapping_dict(w):
    """the dictionary form kmip.pie key classes take for key wrapping data"""
    if w is None:
        return None

    def ki(k):
        if k is None:
            return None
        return {"unique_identifier": k["uid"],
                "cryptographic_parameters": {f: (getattr(enums, cls)[k["cp"][f]] if cls else k["cp"][f])
                                             for f, _, cls in CP_FIELDS if f in k["cp"]}}
    d = {"wrapping_method": enums.WrappingMethod[w["method"]]}
    if w["enc"] is not None:
        d["encryption_key_information"] = ki(w["enc"])
    if w["mac"] is not None:
        d["mac_signature_key_information"] = ki(w["mac"])
    if w["mac_signature"] is not None:
        d["mac_signature"] = bytes.fromhex(w["mac_signature"])
    if w["iv"] is not None:
        d["iv_counter_nonce"] = bytes.fromhex(w["iv"])
    if w["encoding"] is not None:
        d["encoding_option"] = enums.EncodingOption[w["encoding"]]
    return d


def wrapping_core_view(kwd):
    """canonical form of a decoded core KeyWrappingData (read field by field, not through the pie factory)"""
    if kwd is None:
        return None

    def ki(k):
        if k is None:
            return None
        cp = k.cryptographic_parameters
        return {"uid": k.unique_identifier,
                "cp": {f: (None if cp is None else getattr(getattr(cp, f), "name", getattr(cp, f))) for f, _, _ in CP_FIELDS}}
    return {"method": kwd.wrapping_method.name, "enc": ki(kwd.encryption_key_information),
            "mac": ki(kwd.mac_signature_key_information),
            "mac_signature": None if not kwd.mac_signature else bytes(kwd.mac_signature).hex(),
            "iv": None if not kwd.iv_counter_nonce else bytes(kwd.iv_counter_nonce).hex(),
            "encoding": None if kwd.encoding_option is None else kwd.encoding_option.name}


def build_pie_object(o):
    k = o["kind"]
    val = bytes.fromhex(o["value"])
    masks = [enums.CryptographicUsageMask[n] for n in o.get("masks") or []]
    kw = {}
    if o.get("wrapping") is not None:
        kw["key_wrapping_data"] = pie_wrapping_dict(o["wrapping"])
    if k == "SymmetricKey":
        obj = pobjects.SymmetricKey(enums.CryptographicAlgorithm[o["alg"]], o["len"], val, masks=masks,
                                    name=o.get("name") or "Symmetric Key", **kw)
    elif k == "PublicKey":
        obj = pobjects.PublicKey(enums.CryptographicAlgorithm[o["alg"]], o["len"], val,
                                 enums.KeyFormatType[o["format"]], masks=masks, name=o.get("name") or "Public Key", **kw)
    elif k == "PrivateKey":
        obj = pobjects.PrivateKey(enums.CryptographicAlgorithm[o["alg"]], o["len"], val,
                                  enums.KeyFormatType[o["format"]], masks=masks, name=o.get("name") or "Private Key", **kw)
    elif k == "X509Certificate":
        obj = pobjects.X509Certificate(val, masks=masks, name=o.get("name") or "X.509 Certificate")
    elif k == "SecretData":
        obj = pobjects.SecretData(val, enums.SecretDataType[o["dtype"]], masks=masks,
                                  name=o.get("name") or "Secret Data")
    elif k == "OpaqueObject":
        obj = pobjects.OpaqueObject(val, enums.OpaqueDataType[o["dtype"]], name=o.get("name") or "Opaque Object")
    else:
        raise ValueError(k)
    if o.get("policy") is not None:
        obj.operation_policy_name = o["policy"]
    for extra in o.get("more_names") or []:
        obj.names.append(extra)
    return obj


def build_core_wrapping(w):
    """core KeyWrappingData built by hand from the spec (NOT through kmip.pie.factory, which is under test)"""
    def cp(d):
        kw = {}
        for f, _, cls in CP_FIELDS:
            if f in d:
                kw[f] = getattr(enums, cls)[d[f]] if cls else d[f]
        return cattr.CryptographicParameters(**kw)
    enc = None if w["enc"] is None else cobjects.EncryptionKeyInformation(
        unique_identifier=w["enc"]["uid"], cryptographic_parameters=cp(w["enc"]["cp"]))
    mac = None if w["mac"] is None else cobjects.MACSignatureKeyInformation(
        unique_identifier=w["mac"]["uid"], cryptographic_parameters=cp(w["mac"]["cp"]))
    return cobjects.KeyWrappingData(
        wrapping_method=enums.WrappingMethod[w["method"]], encryption_key_information=enc,
        mac_signature_key_information=mac,
        mac_signature=None if w["mac_signature"] is None else bytes.fromhex(w["mac_signature"]),
        iv_counter_nonce=None if w["iv"] is None else bytes.fromhex(w["iv"]),
        encoding_option=None if w["encoding"] is None else enums.EncodingOption[w["encoding"]])


def wrapping_spec_view(w):
    """the key wrapping data dictionary the client must report for the spec `w`"""
    if w is None:
        return None

    def ki(k):
        if k is None:
            return None
        return {"uid": k["uid"], "cp": {f: k["cp"].get(f) for f, _, _ in CP_FIELDS}}
    return {"method": w["method"], "enc": ki(w["enc"]), "mac": ki(w["mac"]), "mac_signature": w["mac_signature"],
            "iv": w["iv"], "encoding": w["encoding"]}


def wrapping_pie_view(d):
    """canonical form of a pie object's key_wrapping_data dictionary"""
    if not d:
        return None

    def name(v):
        return getattr(v, "name", v)

    def ki(k):
        if not k:
            return None
        cp = k.get("cryptographic_parameters") or {}
        return {"uid": k.get("unique_identifier"), "cp": {f: name(cp.get(f)) for f, _, _ in CP_FIELDS}}
    ms, iv = d.get("mac_signature"), d.get("iv_counter_nonce")
    return {"method": name(d.get("wrapping_method")), "enc": ki(d.get("encryption_key_information")),
            "mac": ki(d.get("mac_signature_key_information")),
            "mac_signature": None if not ms else bytes(ms).hex(), "iv": None if not iv else bytes(iv).hex(),
            "encoding": name(d.get("encoding_option"))}


def pie_view(obj):
    """what identifies a pie managed object for the property: class, value bytes and the cryptographic descriptors"""
    if obj is None:
        return None
    out = {"kind": type(obj).__name__, "value": bytes(obj.value).hex()}
    if getattr(obj, "key_wrapping_data", None):
        out["wrapping"] = wrapping_pie_view(obj.key_wrapping_data)
    for f, g in (("cryptographic_algorithm", lambda x: x.name), ("cryptographic_length", lambda x: x),
                 ("key_format_type", lambda x: x.name), ("data_type", lambda x: x.name),
                 ("opaque_type", lambda x: x.name)):
        v = getattr(obj, f, None)
        if v is not None:
            out[f] = g(v)
    return out


def pie_spec_view(o):
    out = {"kind": o["kind"], "value": o["value"]}
    if o["kind"] in ("SymmetricKey", "PublicKey", "PrivateKey"):
        out["cryptographic_algorithm"] = o["alg"]
        out["cryptographic_length"] = o["len"]
        out["key_format_type"] = "RAW" if o["kind"] == "SymmetricKey" else o["format"]
        if o.get("wrapping") is not None:
            out["wrapping"] = wrapping_spec_view(o["wrapping"])
    if o["kind"] == "X509Certificate":
        pass
    if o["kind"] == "SecretData":
        out["data_type"] = o["dtype"]
    if o["kind"] == "OpaqueObject":
        out["opaque_type"] = o["dtype"]
    return out


def core_secret_view(s):
    """decoded core secret (register request) -> the same view as pie_spec_view"""
    if s is None:
        return None
    if isinstance(s, (secrets.SymmetricKey, secrets.PublicKey, secrets.PrivateKey)):
        kb = s.key_block
        out = {"kind": type(s).__name__, "value": bytes(kb.key_value.key_material.value).hex(),
               "cryptographic_algorithm": kb.cryptographic_algorithm.value.name,
               "cryptographic_length": kb.cryptographic_length.value,
               "key_format_type": kb.key_format_type.value.name}
        if kb.key_wrapping_data is not None:
            out["wrapping"] = wrapping_core_view(kb.key_wrapping_data)
        return out
    if isinstance(s, secrets.Certificate):
        return {"kind": "X509Certificate" if s.certificate_type.value == enums.CertificateType.X_509 else "Certificate",
                "value": bytes(s.certificate_value.value).hex()}
    if isinstance(s, secrets.SecretData):
        kb = s.key_block
        return {"kind": "SecretData", "value": bytes(kb.key_value.key_material.value).hex(),
                "data_type": s.secret_data_type.value.name}
    if isinstance(s, secrets.OpaqueObject):
        return {"kind": "OpaqueObject", "value": bytes(s.opaque_data_value.value).hex(),
                "opaque_type": s.opaque_data_type.value.name}
    return {"kind": type(s).__name__}


# ---------------------------------------------------------------------------
# per-operation: call, request view (decoded request -> dict), expected request view (from the args)
# ---------------------------------------------------------------------------
def _kw(a, *names):
    return {n: pyval(a[n]) for n in names if n in a}


def call_op(c, op, a):
    """invoke the real client method with the argument spec `a`"""
    if op == "create":
        return c.create(pyval(a["algorithm"]), a["length"], **_kw(a, "operation_policy_name", "name",
                                                                   "cryptographic_usage_mask"))
    if op == "create_key_pair":
        return c.create_key_pair(pyval(a["algorithm"]), a["length"],
                                 **_kw(a, "operation_policy_name", "public_name", "public_usage_mask",
                                       "private_name", "private_usage_mask"))
    if op == "register":
        return c.register(build_pie_object(a["object"]))
    if op == "rekey":
        return c.rekey(**_kw(a, "uid", "offset", "activation_date", "process_start_date", "protect_stop_date",
                             "deactivation_date"))
    if op == "derive_key":
        return c.derive_key(pyval(a["object_type"]), a["unique_identifiers"], pyval(a["derivation_method"]),
                            pyval(a["derivation_parameters"]),
                            **_kw(a, "cryptographic_length", "cryptographic_algorithm", "cryptographic_usage_mask"))
    if op == "locate":
        kw = _kw(a, "maximum_items", "storage_status_mask", "object_group_member", "offset_items")
        if a.get("attributes") is not None:
            kw["attributes"] = [build_attribute(t) for t in a["attributes"]]
        return c.locate(**kw)
    if op == "check":
        return c.check(**_kw(a, "uid", "usage_limits_count", "cryptographic_usage_mask", "lease_time"))
    if op == "get":
        return c.get(**_kw(a, "uid", "key_wrapping_specification"))
    if op == "get_attributes":
        return c.get_attributes(**_kw(a, "uid", "attribute_names"))
    if op == "get_attribute_list":
        return c.get_attribute_list(**_kw(a, "uid"))
    if op == "activate":
        return c.activate(**_kw(a, "uid"))
    if op == "revoke":
        return c.revoke(pyval(a["revocation_reason"]), **_kw(a, "uid", "revocation_message",
                                                              "compromise_occurrence_date"))
    if op == "destroy":
        return c.destroy(**_kw(a, "uid"))
    if op in ("encrypt", "decrypt"):
        return getattr(c, op)(pyval(a["data"]), **_kw(a, "uid", "cryptographic_parameters", "iv_counter_nonce"))
    if op == "signature_verify":
        return c.signature_verify(pyval(a["message"]), pyval(a["signature"]),
                                  **_kw(a, "uid", "cryptographic_parameters"))
    if op == "sign":
        return c.sign(pyval(a["data"]), **_kw(a, "uid", "cryptographic_parameters"))
    if op == "mac":
        return c.mac(pyval(a["data"]), **_kw(a, "uid", "algorithm"))
    if op == "delete_attribute":
        kw = _kw(a, "attribute_name", "attribute_index")
        if a.get("current_attribute") is not None:
            kw["current_attribute"] = cobjects.CurrentAttribute(attribute=build_primitive(a["current_attribute"]))
        if a.get("attribute_reference") is not None:
            kw["attribute_reference"] = cobjects.AttributeReference(
                vendor_identification=a["attribute_reference"][0], attribute_name=a["attribute_reference"][1])
        return c.delete_attribute(a.get("uid"), **kw)
    if op == "set_attribute":
        return c.set_attribute(a.get("uid"), attribute_name=a["attribute"]["name"],
                               attribute_value=attr_pyvalue(a["attribute"]))
    if op == "modify_attribute":
        kw = {}
        if a.get("attribute") is not None:
            kw["attribute"] = build_attribute(a["attribute"])
        if a.get("current_attribute") is not None:
            kw["current_attribute"] = cobjects.CurrentAttribute(attribute=build_primitive(a["current_attribute"]))
        if a.get("new_attribute") is not None:
            kw["new_attribute"] = cobjects.NewAttribute(attribute=build_primitive(a["new_attribute"]))
        return c.modify_attribute(a.get("uid"), **kw)
    if op == "query":
        return c.proxy.query(query_functions=pyval(a["query_functions"]))
    if op == "discover_versions":
        pv = a.get("protocol_versions")
        return c.proxy.discover_versions(
            protocol_versions=None if pv is None else [contents.ProtocolVersion(x // 10, x % 10) for x in pv])
    if op == "rekey_key_pair":
        u = a.get("uid")
        return c.proxy.rekey_key_pair(
            private_key_uuid=None if u is None else cattr.PrivateKeyUniqueIdentifier(u),
            offset=None if a.get("offset") is None else cmisc.Offset(a["offset"]))
    raise ValueError(op)


def truthy_attr(name, v):
    return [] if not v else [[name, v]]


def expected_request(op, a, version):
    """what the server must find in the decoded request payload, computed from the arguments alone"""
    g = a.get
    if op == "create":
        masks = ["ENCRYPT", "DECRYPT"] + ((g("cryptographic_usage_mask") or {"Es": [0, []]})["Es"][1])
        at = [["Cryptographic Algorithm", ["enum", ename(a["algorithm"])]],
              ["Cryptographic Length", ["int", a["length"]]],
              ["Cryptographic Usage Mask", ["int", mask_int(masks)]]]
        if g("operation_policy_name"):
            at.append(["Operation Policy Name", ["text", g("operation_policy_name")]])
        if g("name"):
            at.append(["Name", ["name", g("name"), "UNINTERPRETED_TEXT_STRING"]])
        return {"object_type": "SYMMETRIC_KEY", "attributes": at}
    if op == "create_key_pair":
        common = []
        if g("operation_policy_name"):
            common.append(["Operation Policy Name", ["text", g("operation_policy_name")]])
        common += [["Cryptographic Algorithm", ["enum", ename(a["algorithm"])]],
                   ["Cryptographic Length", ["int", a["length"]]]]
        out = {"common": common}
        for side in ("public", "private"):
            at = []
            if g(side + "_name"):
                at.append(["Name", ["name", g(side + "_name"), "UNINTERPRETED_TEXT_STRING"]])
            if g(side + "_usage_mask") and g(side + "_usage_mask")["Es"][1]:
                at.append(["Cryptographic Usage Mask", ["int", mask_int(g(side + "_usage_mask")["Es"][1])]])
            out[side] = at
        return out
    if op == "register":
        o = a["object"]
        at = []
        if o["kind"] != "OpaqueObject":
            at.append(["Cryptographic Usage Mask", ["int", mask_int(o.get("masks"))]])
        if o.get("policy") is not None:
            at.append(["Operation Policy Name", ["text", o["policy"]]])
        default_name = {"SymmetricKey": "Symmetric Key", "PublicKey": "Public Key", "PrivateKey": "Private Key",
                        "X509Certificate": "X.509 Certificate", "SecretData": "Secret Data",
                        "OpaqueObject": "Opaque Object"}[o["kind"]]
        for n in [o.get("name") or default_name] + list(o.get("more_names") or []):
            at.append(["Name", ["name", n, "UNINTERPRETED_TEXT_STRING"]])
        ot = {"SymmetricKey": "SYMMETRIC_KEY", "PublicKey": "PUBLIC_KEY", "PrivateKey": "PRIVATE_KEY",
              "X509Certificate": "CERTIFICATE", "SecretData": "SECRET_DATA", "OpaqueObject": "OPAQUE_DATA"}[o["kind"]]
        return {"object_type": ot, "attributes": at, "object": pie_spec_view(o)}
    if op == "rekey":
        at = []
        for k, n in (("activation_date", "Activation Date"), ("process_start_date", "Process Start Date"),
                     ("protect_stop_date", "Protect Stop Date"), ("deactivation_date", "Deactivation Date")):
            if g(k):
                at.append([n, ["date", g(k)]])
        return {"uid": g("uid"), "offset": g("offset"), "attributes": at}
    if op == "derive_key":
        dp = a["derivation_parameters"]
        at = []
        if g("cryptographic_length"):
            at.append(["Cryptographic Length", ["int", g("cryptographic_length")]])
        if g("cryptographic_algorithm"):
            at.append(["Cryptographic Algorithm", ["enum", ename(g("cryptographic_algorithm"))]])
        if g("cryptographic_usage_mask") and g("cryptographic_usage_mask")["Es"][1]:
            at.append(["Cryptographic Usage Mask", ["int", mask_int(g("cryptographic_usage_mask")["Es"][1])]])
        return {"object_type": ename(a["object_type"]), "uids": a["unique_identifiers"],
                "method": ename(a["derivation_method"]),
                "cp": cp_expected(dp.get("cryptographic_parameters"), version),
                "iv": (dp.get("initialization_vector") or {}).get("hex"),
                "data": (dp.get("derivation_data") or {}).get("hex"),
                "salt": (dp.get("salt") or {}).get("hex"), "iterations": dp.get("iteration_count"),
                "attributes": at}
    if op == "locate":
        return {"max": g("maximum_items"), "offset": g("offset_items"), "mask": g("storage_status_mask"),
                "member": ename(g("object_group_member")),
                "attributes": [[t["name"], canon_spec_value(t)] for t in g("attributes") or []]}
    if op == "check":
        return {"uid": g("uid"), "count": g("usage_limits_count"),
                "mask": mask_int(g("cryptographic_usage_mask")["Es"][1]) if g("cryptographic_usage_mask") else None,
                "lease": g("lease_time")}
    if op == "get":
        w = g("key_wrapping_specification")
        wv = None
        if w is not None:
            def ki(d):
                if d is None:
                    return None
                cp = d.get("cryptographic_parameters")
                return {"uid": d.get("unique_identifier"), "cp": cp_expected(cp, version) if cp else None}
            wv = {"method": ename(w.get("wrapping_method")), "enc": ki(w.get("encryption_key_information")),
                  "mac": ki(w.get("mac_signature_key_information")), "names": w.get("attribute_names") or [],
                  "encoding": ename(w.get("encoding_option"))}
        return {"uid": g("uid"), "wrap": wv}
    if op == "get_attributes":
        names = []
        for n in g("attribute_names") or []:      # the payload keeps the first occurrence of each name
            if n not in names:
                names.append(n)
        return {"uid": g("uid"), "names": names}
    if op in ("get_attribute_list", "activate", "destroy"):
        return {"uid": g("uid")}
    if op == "revoke":
        return {"uid": g("uid"), "code": ename(a["revocation_reason"]), "message": g("revocation_message"),
                "date": g("compromise_occurrence_date")}
    if op in ("encrypt", "decrypt"):
        return {"uid": g("uid"), "data": a["data"]["hex"], "cp": cp_expected(g("cryptographic_parameters"), version),
                "iv": (g("iv_counter_nonce") or {}).get("hex")}
    if op == "signature_verify":
        return {"uid": g("uid"), "data": a["message"]["hex"], "signature": a["signature"]["hex"],
                "cp": cp_expected(g("cryptographic_parameters"), version)}
    if op == "sign":
        return {"uid": g("uid"), "data": a["data"]["hex"], "cp": cp_expected(g("cryptographic_parameters"), version)}
    if op == "mac":
        return {"uid": g("uid"), "data": a["data"]["hex"],
                "cp": cp_expected({"cryptographic_algorithm": g("algorithm")}, version)}
    if op == "delete_attribute":
        if version < 20:
            return {"uid": g("uid"), "name": g("attribute_name"), "index": g("attribute_index")}
        cur = g("current_attribute")
        ref = g("attribute_reference")
        return {"uid": g("uid"),
                "current": None if cur is None else [enums.AttributeType(cur["name"]).name, canon_spec_value(cur)],
                "reference": ref}
    if op == "set_attribute":
        t = a["attribute"]
        return {"uid": g("uid"), "new": [enums.AttributeType(t["name"]).name, canon_spec_value(t)]}
    if op == "modify_attribute":
        if version < 20:
            t = a["attribute"]
            return {"uid": g("uid"), "attribute": [t["name"], t.get("index"), canon_spec_value(t)]}
        cur, new = g("current_attribute"), g("new_attribute")
        return {"uid": g("uid"),
                "current": None if cur is None else [enums.AttributeType(cur["name"]).name, canon_spec_value(cur)],
                "new": None if new is None else [enums.AttributeType(new["name"]).name, canon_spec_value(new)]}
    if op == "query":
        return {"functions": [x for x in a["query_functions"]["Es"][1]]}
    if op == "discover_versions":
        return {"versions": g("protocol_versions") or []}
    if op == "rekey_key_pair":
        return {"uid": g("uid"), "offset": g("offset")}
    raise ValueError(op)


def request_view(op, p, version):
    """the same view, read off the request payload the SERVER decoded"""
    if op == "create":
        return {"object_type": p.object_type.name, "attributes": attrs_view(p.template_attribute)}
    if op == "create_key_pair":
        return {"common": attrs_view(p.common_template_attribute),
                "public": attrs_view(p.public_key_template_attribute),
                "private": attrs_view(p.private_key_template_attribute)}
    if op == "register":
        return {"object_type": p.object_type.name, "attributes": attrs_view(p.template_attribute),
                "object": core_secret_view(p.managed_object)}
    if op == "rekey":
        return {"uid": p.unique_identifier, "offset": p.offset, "attributes": attrs_view(p.template_attribute)}
    if op == "derive_key":
        dp = p.derivation_parameters
        return {"object_type": p.object_type.name, "uids": list(p.unique_identifiers),
                "method": p.derivation_method.name, "cp": cp_view(dp.cryptographic_parameters, version),
                "iv": hexo(dp.initialization_vector), "data": hexo(dp.derivation_data), "salt": hexo(dp.salt),
                "iterations": dp.iteration_count, "attributes": attrs_view(p.template_attribute)}
    if op == "locate":
        return {"max": p.maximum_items, "offset": p.offset_items, "mask": p.storage_status_mask,
                "member": None if p.object_group_member is None else p.object_group_member.name,
                "attributes": [attr_view(x)[::2] for x in p.attributes]}
    if op == "check":
        return {"uid": p.unique_identifier, "count": p.usage_limits_count, "mask": p.cryptographic_usage_mask,
                "lease": p.lease_time}
    if op == "get":
        w = p.key_wrapping_specification
        wv = None
        if w is not None:
            def ki(k):
                return None if k is None else {"uid": k.unique_identifier,
                                               "cp": cp_view(k.cryptographic_parameters, version)}
            wv = {"method": None if w.wrapping_method is None else w.wrapping_method.name,
                  "enc": ki(w.encryption_key_information), "mac": ki(w.mac_signature_key_information),
                  "names": list(w.attribute_names or []),
                  "encoding": None if w.encoding_option is None else w.encoding_option.name}
        return {"uid": p.unique_identifier, "wrap": wv}
    if op == "get_attributes":
        return {"uid": p.unique_identifier, "names": list(p.attribute_names or [])}
    if op == "get_attribute_list":
        return {"uid": p.unique_identifier}
    if op in ("activate", "destroy"):
        return {"uid": uid_text(p.unique_identifier)}
    if op == "revoke":
        rr = p.revocation_reason
        return {"uid": uid_text(p.unique_identifier), "code": rr.revocation_code.value.name,
                "message": None if rr.revocation_message is None else rr.revocation_message.value,
                "date": None if p.compromise_occurrence_date is None else p.compromise_occurrence_date.value}
    if op in ("encrypt", "decrypt"):
        return {"uid": p.unique_identifier, "data": hexo(p.data), "cp": cp_view(p.cryptographic_parameters, version),
                "iv": hexo(p.iv_counter_nonce)}
    if op == "signature_verify":
        return {"uid": p.unique_identifier, "data": hexo(p.data), "signature": hexo(p.signature_data),
                "cp": cp_view(p.cryptographic_parameters, version)}
    if op == "sign":
        return {"uid": p.unique_identifier, "data": hexo(p.data), "cp": cp_view(p.cryptographic_parameters, version)}
    if op == "mac":
        return {"uid": uid_text(p.unique_identifier), "data": hexo(p.data),
                "cp": cp_view(p.cryptographic_parameters, version)}
    if op == "delete_attribute":
        if version < 20:
            return {"uid": p.unique_identifier, "name": p.attribute_name, "index": p.attribute_index}
        ref = p.attribute_reference
        return {"uid": p.unique_identifier,
                "current": None if p.current_attribute is None else prim_view(p.current_attribute.attribute),
                "reference": None if ref is None else [ref.vendor_identification, ref.attribute_name]}
    if op == "set_attribute":
        return {"uid": p.unique_identifier, "new": prim_view(p.new_attribute.attribute)}
    if op == "modify_attribute":
        if version < 20:
            return {"uid": p.unique_identifier, "attribute": attr_view(p.attribute)}
        return {"uid": p.unique_identifier,
                "current": None if p.current_attribute is None else prim_view(p.current_attribute.attribute),
                "new": None if p.new_attribute is None else prim_view(p.new_attribute.attribute)}
    if op == "query":
        return {"functions": [x.name for x in p.query_functions]}
    if op == "discover_versions":
        return {"versions": [x.major * 10 + x.minor for x in p.protocol_versions]}
    if op == "rekey_key_pair":
        return {"uid": uid_text(p.private_key_uuid),
                "offset": None if p.offset is None else p.offset.value}
    raise ValueError(op)


# ---------------------------------------------------------------------------
# per-operation: response payload (from a spec) and the value the client must hand back
# ---------------------------------------------------------------------------
class MixedReferencesPayload(payloads.GetAttributeListResponsePayload):
    """A KMIP 2.0 GetAttributeList answer as another server may legally send it: standard attributes as Attribute
    Reference ENUMERATIONS (their tags), vendor attributes (x-...) as Attribute Reference STRUCTURES (Vendor
    Identification + Attribute Name) - both forms in one payload, in the order of the names.  (The library's own
    writer emits enumerations only and cannot express a vendor attribute.)"""

    def write(self, output_buffer, kmip_version=enums.KMIPVersion.KMIP_1_0):
        from kmip.core import objects as cobj
        from kmip.core import primitives as prim
        local = utils.BytearrayStream()
        prim.TextString(value=self.unique_identifier, tag=enums.Tags.UNIQUE_IDENTIFIER).write(local, kmip_version=kmip_version)
        for n in self.attribute_names:
            if n.startswith("x-"):
                cobj.AttributeReference(vendor_identification="Acme", attribute_name=n).write(local, kmip_version=kmip_version)
            else:
                prim.Enumeration(enums.Tags, value=enums.convert_attribute_name_to_tag(n),
                                 tag=enums.Tags.ATTRIBUTE_REFERENCE).write(local, kmip_version=kmip_version)
        self.length = local.length()
        super(payloads.GetAttributeListResponsePayload, self).write(output_buffer, kmip_version=kmip_version)
        output_buffer.write(local.buffer)


def build_response_payload(op, s, version):
    """payload spec -> ResponsePayload object of the real codec"""
    UI = cattr.UniqueIdentifier
    if op == "create":
        return payloads.CreateResponsePayload(object_type=enums.ObjectType.SYMMETRIC_KEY, unique_identifier=s["uid"])
    if op == "create_key_pair":
        return payloads.CreateKeyPairResponsePayload(private_key_unique_identifier=s["private"],
                                                     public_key_unique_identifier=s["public"])
    if op == "register":
        return payloads.RegisterResponsePayload(unique_identifier=s["uid"])
    if op == "rekey":
        return payloads.RekeyResponsePayload(unique_identifier=s["uid"])
    if op == "derive_key":
        return payloads.DeriveKeyResponsePayload(unique_identifier=s["uid"])
    if op == "locate":
        return payloads.LocateResponsePayload(located_items=s.get("located") if version >= 13 else None,
                                              unique_identifiers=s["uids"])
    if op == "check":
        return payloads.CheckResponsePayload(unique_identifier=s["uid"], usage_limits_count=s.get("count"),
                                             cryptographic_usage_mask=s.get("mask"), lease_time=s.get("lease"))
    if op == "get":
        pie = build_pie_object(s["object"])
        secret = OF.convert(pie)
        if s["object"].get("wrapping") is not None:
            secret.key_block.key_wrapping_data = build_core_wrapping(s["object"]["wrapping"])
        return payloads.GetResponsePayload(object_type=pie.object_type, unique_identifier=s["uid"], secret=secret)
    if op == "get_attributes":
        return payloads.GetAttributesResponsePayload(unique_identifier=s["uid"],
                                                     attributes=[build_attribute(t) for t in s["attributes"]])
    if op == "get_attribute_list":
        if version >= 20 and any(n.startswith("x-") for n in s["names"]):
            return MixedReferencesPayload(unique_identifier=s["uid"], attribute_names=s["names"])
        return payloads.GetAttributeListResponsePayload(unique_identifier=s["uid"], attribute_names=s["names"])
    if op == "activate":
        return payloads.ActivateResponsePayload(unique_identifier=UI(s["uid"]))
    if op == "revoke":
        return payloads.RevokeResponsePayload(unique_identifier=UI(s["uid"]))
    if op == "destroy":
        return payloads.DestroyResponsePayload(unique_identifier=UI(s["uid"]))
    if op == "encrypt":
        return payloads.EncryptResponsePayload(unique_identifier=s["uid"], data=bytes.fromhex(s["data"]),
                                               iv_counter_nonce=None if s.get("iv") is None else bytes.fromhex(s["iv"]))
    if op == "decrypt":
        return payloads.DecryptResponsePayload(unique_identifier=s["uid"], data=bytes.fromhex(s["data"]))
    if op == "signature_verify":
        return payloads.SignatureVerifyResponsePayload(unique_identifier=s["uid"],
                                                       validity_indicator=enums.ValidityIndicator[s["validity"]])
    if op == "sign":
        return payloads.SignResponsePayload(unique_identifier=s["uid"], signature_data=bytes.fromhex(s["signature"]))
    if op == "mac":
        return payloads.MACResponsePayload(unique_identifier=UI(s["uid"]),
                                           mac_data=cobjects.MACData(bytes.fromhex(s["mac"])))
    if op == "delete_attribute":
        return payloads.DeleteAttributeResponsePayload(
            unique_identifier=s["uid"],
            attribute=build_attribute(s["attribute"]) if version < 20 and s.get("attribute") else None)
    if op == "set_attribute":
        return payloads.SetAttributeResponsePayload(unique_identifier=s["uid"])
    if op == "modify_attribute":
        return payloads.ModifyAttributeResponsePayload(
            unique_identifier=s["uid"],
            attribute=build_attribute(s["attribute"]) if version < 20 and s.get("attribute") else None)
    if op == "query":
        return payloads.QueryResponsePayload(
            operations=[enums.Operation[n] for n in s["operations"]],
            object_types=[enums.ObjectType[n] for n in s["object_types"]],
            vendor_identification=s.get("vendor"),
            application_namespaces=s.get("namespaces") or None)
    if op == "discover_versions":
        return payloads.DiscoverVersionsResponsePayload(
            protocol_versions=[contents.ProtocolVersion(x // 10, x % 10) for x in s["versions"]])
    if op == "rekey_key_pair":
        return payloads.RekeyKeyPairResponsePayload(private_key_uuid=s["private"], public_key_uuid=s["public"])
    raise ValueError(op)


def expected_data(op, s, version):
    """canonical form of the data the client method must hand back for payload spec `s`"""
    if op in ("create", "register", "rekey", "derive_key", "check", "set_attribute"):
        return s["uid"]
    if op == "create_key_pair":
        return [s["public"], s["private"]]
    if op == "locate":
        return list(s["uids"])
    if op == "get":
        return pie_spec_view(s["object"])
    if op == "get_attributes":
        # KMIP 2.0 responses carry bare attribute values: no index travels
        return [s["uid"], [[t["name"], t.get("index") if version < 20 else None, canon_spec_value(t)]
                           for t in s["attributes"]]]
    if op == "get_attribute_list":
        return sorted(s["names"])
    if op in UNIT_OPS:
        return None
    if op == "encrypt":
        return [s["data"], s.get("iv")]
    if op == "decrypt":
        return s["data"]
    if op == "signature_verify":
        return s["validity"]
    if op == "sign":
        return s["signature"]
    if op == "mac":
        return [s["uid"], s["mac"]]
    if op in ("delete_attribute", "modify_attribute"):
        t = s.get("attribute") if version < 20 else None
        return [s["uid"], None if not t else [t["name"], t.get("index"), canon_spec_value(t)]]
    if op == "query":
        return {"operations": s["operations"], "object_types": s["object_types"], "vendor": s.get("vendor"),
                "namespaces": s.get("namespaces") or []}
    if op == "discover_versions":
        return list(s["versions"])
    if op == "rekey_key_pair":
        return [s["public"], s["private"]]
    raise ValueError(op)


def _attr_list_view(attrs):
    return None if attrs is None else [attr_view(a) for a in attrs]


def returned_view(op, r, version):
    """canonical form of what the client method actually returned (same shape as expected_data)"""
    if op in ("create", "register", "rekey", "derive_key", "check", "set_attribute", "decrypt", "sign"):
        return hexo(r) if isinstance(r, (bytes, bytearray)) else r
    if op == "create_key_pair":
        return list(r)
    if op == "locate":
        return None if r is None else list(r)
    if op == "get":
        return pie_view(r)
    if op == "get_attributes":
        return [r[0], _attr_list_view(r[1])]
    if op == "get_attribute_list":
        return r
    if op in UNIT_OPS:
        return r
    if op == "encrypt":
        return [hexo(r[0]), hexo(r[1])]
    if op == "signature_verify":
        return None if r is None else r.name
    if op == "mac":
        return [r[0], hexo(r[1])]
    if op in ("delete_attribute", "modify_attribute"):
        return [r[0], None if r[1] is None else attr_view(r[1])]
    raise ValueError(op)


def result_object_view(op, r):
    """KMIPProxy result object -> {"cls", "status", "reason", "message", "data"}"""
    def val(x):
        return None if x is None else x.value
    out = {"cls": type(r).__name__,
           "status": None if r.result_status is None else r.result_status.value.value,
           "reason": None if r.result_reason is None else r.result_reason.value.value,
           "message": val(r.result_message)}
    data = None
    if isinstance(r, kresults.QueryResult):
        data = {"operations": [x.name for x in r.operations or []],
                "object_types": [x.name for x in r.object_types or []],
                "vendor": r.vendor_identification, "namespaces": list(r.application_namespaces or [])}
    elif isinstance(r, kresults.DiscoverVersionsResult):
        data = [x.major * 10 + x.minor for x in r.protocol_versions or []]
    elif isinstance(r, kresults.RekeyKeyPairResult):
        data = [uid_text(r.public_key_uuid), uid_text(r.private_key_uuid)]
    out["data"] = data
    return out


# ---------------------------------------------------------------------------
# the scripted transport
# ---------------------------------------------------------------------------
class ScriptedSocket(object):
    """the object KMIPProtocol reads from / writes to.  `responder(request_bytes) -> list of chunks`"""

    def __init__(self, responder):
        self.responder = responder
        self.sent = []
        self.chunks = []
        self.recv_calls = 0

    def sendall(self, data):
        data = bytes(data)
        self.sent.append(data)
        self.chunks = list(self.responder(data))

    def recv(self, n):
        self.recv_calls += 1
        if not self.chunks:
            return b""
        c = self.chunks[0]
        if isinstance(c, BaseException):
            self.chunks.pop(0)
            raise c
        if len(c) <= n:
            self.chunks.pop(0)
            return c
        self.chunks[0] = c[n:]
        return c[:n]


def chunked(data, chunk):
    """apply a chunk plan: truncation, cut sizes (cycled), one optional early empty recv()"""
    chunk = chunk or {}
    if chunk.get("truncate_frac") is not None:
        data = data[:min(int(chunk["truncate_frac"] * len(data)), len(data) - 1)]
    if chunk.get("truncate") is not None:
        data = data[:min(chunk["truncate"], len(data) - 1)]
    sizes = [s for s in chunk.get("sizes") or [] if s > 0]
    out = []
    if not sizes:
        out = [data] if data else []
    else:
        i = k = 0
        while i < len(data):
            s = sizes[k % len(sizes)]
            out.append(data[i:i + s])
            i += s
            k += 1
    if chunk.get("empty_after") is not None:
        out.insert(min(chunk["empty_after"], len(out)), b"")
    if chunk.get("raise_after") is not None:
        import socket as _socket
        exc = _socket.timeout("timed out") if chunk.get("raise") == "timeout" else ConnectionResetError(104, "Connection reset by peer")
        out = out[:min(chunk["raise_after"], len(out))] + [exc]
    return out


def encode_response(version, items, header_version=None):
    hv = header_version or version
    msg = messages.ResponseMessage(
        response_header=messages.ResponseHeader(
            protocol_version=contents.ProtocolVersion(hv // 10, hv % 10),
            time_stamp=contents.TimeStamp(1000), batch_count=contents.BatchCount(len(items))),
        batch_items=items)
    s = utils.BytearrayStream()
    msg.write(s, kmip_version=VERSIONS[version])
    return bytes(s.buffer)


def build_response_item(op, resp, version):
    echo = resp.get("echo", "same")
    operation = None
    if echo == "same":
        operation = contents.Operation(OPCODE[op])
    elif echo == "other":
        operation = contents.Operation(O.GET if op != "get" else O.ACTIVATE)
    payload = None
    if resp.get("payload") is not None and echo == "same":
        payload = build_response_payload(op, resp["payload"], version)
    return messages.ResponseBatchItem(
        operation=operation,
        result_status=contents.ResultStatus(enums.ResultStatus(resp["status"])),
        result_reason=None if resp.get("reason") is None else contents.ResultReason(enums.ResultReason(resp["reason"])),
        result_message=None if resp.get("message") is None else contents.ResultMessage(resp["message"]),
        response_payload=payload)


def corrupt(data, how):
    """structural corruptions that keep the 8-byte framing header consistent (so the frame arrives whole)"""
    b = bytearray(data)
    if how == "tag":               # outermost tag: Request Message instead of Response Message
        b[0:3] = bytes.fromhex("420078")
    elif how == "type":            # outermost item type: not a structure
        b[3] = 0x07
    elif how == "inner-length":    # the response header claims to be longer than the whole message
        b[12:16] = (len(b) + 64).to_bytes(4, "big")
    elif how == "garbage":         # a well-framed body of 0xFF bytes
        b[8:] = b"\xff" * (len(b) - 8)
    else:
        raise ValueError(how)
    return bytes(b)


def decode_request(data, version):
    """the SERVER side: kmip.core.messages.RequestMessage().read under the request's version"""
    req = messages.RequestMessage()
    req.read(utils.BytearrayStream(data), kmip_version=VERSIONS[version])
    return req


def make_client(version, responder):
    c = ProxyKmipClient(kmip_version=VERSIONS[version])
    c._is_open = True
    sock = ScriptedSocket(responder)
    c.proxy.protocol = KMIPProtocol(sock)
    return c, sock


def describe_exception(ex):
    tb = traceback.extract_tb(ex.__traceback__)
    fr = [f for f in tb if "/kmip/" in f.filename]
    site = "%s:%s:%s" % (os.path.basename(fr[-1].filename), fr[-1].name, fr[-1].lineno) if fr else "?"
    d = {"kind": "raised", "exc": type(ex).__name__, "module": type(ex).__module__, "text": str(ex)[:200],
         "site": site}
    if isinstance(ex, pexc.KmipOperationFailure):
        d.update(failure="KmipOperationFailure", status=ex.status.value, reason=ex.reason.value, message=ex.message)
    elif isinstance(ex, cexc.OperationFailure):
        d.update(failure="OperationFailure", status=ex.status.value, reason=ex.reason.value,
                 message=ex.args[0] if ex.args else None)
    elif isinstance(ex, RequestLengthMismatch):
        d.update(expected=ex.expected, received=ex.received)
    return d


def run_case(case):
    """run one scripted case on the real client; returns the observation dict"""
    quiet()
    op, version = case["op"], case["version"]
    resp = case.get("resp") or {}
    obs = {"emitted": [], "request": None, "response_hex": None}

    def responder(data):
        obs["emitted"].append(data.hex())
        # (1) the server-side decoder
        try:
            req = decode_request(data, version)
            hv = req.request_header.protocol_version
            bi = req.batch_items
            obs["request"] = {"decoded": True, "version": hv.major * 10 + hv.minor,
                              "batch_count": req.request_header.batch_count.value, "items": len(bi),
                              "operation": bi[0].operation.value.name if bi else None}
            try:
                obs["request"]["view"] = request_view(op, bi[0].request_payload, version)
            except Exception as ex:  # the decoded payload lacks what the view needs
                obs["request"]["view_error"] = "%s: %s" % (type(ex).__name__, ex)
        except Exception as ex:
            obs["request"] = {"decoded": False, "error": "%s: %s" % (type(ex).__name__, str(ex)[:200])}
        # (2) the scripted response
        try:
            items = [build_response_item(op, resp, version) for _ in range(resp.get("items", 1))]
            data = encode_response(version, items)
            if resp.get("corrupt"):
                data = corrupt(data, resp["corrupt"])
        except Exception as ex:     # the harness could not build this response: not the client's business
            obs["harness_error"] = "%s: %s" % (type(ex).__name__, str(ex)[:200])
            return []
        obs["response_hex"] = data.hex()
        # (3) chunking / truncation
        return chunked(data, case.get("chunk"))

    c, sock = make_client(version, responder)
    try:
        r = call_op(c, op, case["args"])
        if op in PROXY_ONLY:
            obs["outcome"] = {"kind": "result", "result": result_object_view(op, r)}
        else:
            obs["outcome"] = {"kind": "returned", "value": returned_view(op, r, version)}
    except Exception as ex:
        obs["outcome"] = describe_exception(ex)
    obs["recv_calls"] = sock.recv_calls
    # (a transport failure is, for everything that looks at the chunk list, the point where the stream stops)
    obs["chunks"] = ["" if isinstance(x, BaseException) else x.hex()
                     for x in (chunked(bytes.fromhex(obs["response_hex"]), case.get("chunk"))
                                       if obs["response_hex"] is not None else [])]
    return obs


# ---------------------------------------------------------------------------
# engine-backed conversations: the real client against a real in-process KmipEngine
# ---------------------------------------------------------------------------
class EngineServer(object):
    """decode with the server decoder, process with a real KmipEngine, encode under the version the engine names"""

    def __init__(self, version, chunk=None, user="alice"):
        quiet()
        self.dir = tempfile.mkdtemp(prefix="c19-")
        self.engine = engine_mod.KmipEngine(policies=copy.deepcopy(core_policy.policies),
                                            database_path=os.path.join(self.dir, "pykmip.db"))
        self.version = version
        self.chunk = chunk
        self.user = user
        self.log = []          # per request: {"decoded":…, "item": response item facts}

    def close(self):
        shutil.rmtree(self.dir, ignore_errors=True)

    def __call__(self, data):
        entry = {"request_hex": data.hex()}
        self.log.append(entry)
        try:
            req = decode_request(data, self.version)
            entry["decoded"] = True
            entry["operation"] = req.batch_items[0].operation.value.name
            hv = req.request_header.protocol_version
            entry["header_version"] = "%d.%d" % (hv.major, hv.minor)
        except Exception as ex:
            entry["decoded"] = False
            entry["error"] = "%s: %s" % (type(ex).__name__, str(ex)[:200])
            return []
        try:
            response, _, pv = self.engine.process_request(req, (self.user, None))
        except Exception as ex:     # the session layer would answer with an error response; not modelled here
            entry["engine_error"] = "%s: %s @ %s" % (type(ex).__name__, str(ex)[:200],
                                                     traceback.extract_tb(ex.__traceback__)[-1][:3])
            return []
        kv = contents.protocol_version_to_kmip_version(pv)
        s = utils.BytearrayStream()
        response.write(s, kmip_version=kv)
        out = bytes(s.buffer)
        # what the server answered, read back with an independent decode of the bytes on the wire
        back = messages.ResponseMessage()
        back.read(utils.BytearrayStream(out), kmip_version=kv)
        it = back.batch_items[0]
        entry["item"] = {"echo": it.operation is not None,
                         "status": it.result_status.value.value,
                         "reason": None if it.result_reason is None else it.result_reason.value.value,
                         "message": None if it.result_message is None else it.result_message.value,
                         "payload": it.response_payload}
        return chunked(out, self.chunk)


def engine_payload_data(op, p, version):
    """the data an engine response payload carries, in the shape of expected_data"""
    if p is None:
        return None
    if op in ("create", "register", "derive_key", "set_attribute", "rekey", "check"):
        return p.unique_identifier
    if op == "create_key_pair":
        return [p.public_key_unique_identifier, p.private_key_unique_identifier]
    if op == "locate":
        return list(p.unique_identifiers)
    if op == "get":
        return pie_view(OF.convert(p.secret))
    if op == "get_attributes":
        return [p.unique_identifier, _attr_list_view(p.attributes)]
    if op == "get_attribute_list":
        return sorted(p.attribute_names)
    if op in UNIT_OPS:
        return None
    if op == "encrypt":
        return [hexo(p.data), hexo(p.iv_counter_nonce)]
    if op == "decrypt":
        return hexo(p.data)
    if op == "signature_verify":
        return p.validity_indicator.name
    if op == "sign":
        return hexo(p.signature_data)
    if op == "mac":
        return [uid_text(p.unique_identifier), hexo(p.mac_data)]
    if op in ("delete_attribute", "modify_attribute"):
        return [p.unique_identifier, None if p.attribute is None else attr_view(p.attribute)]
    if op == "query":
        return {"operations": [x.name for x in p.operations or []],
                "object_types": [x.name for x in p.object_types or []],
                "vendor": p.vendor_identification, "namespaces": list(p.application_namespaces or [])}
    if op == "discover_versions":
        return [x.major * 10 + x.minor for x in p.protocol_versions]
    raise ValueError(op)


def run_engine_script(case):
    """a conversation: every step is [op, args]; "$k" in a uid position refers to the uid returned by step k"""
    quiet()
    version = case["version"]
    srv = EngineServer(version, case.get("chunk"))
    steps = []
    try:
        c, sock = make_client(version, srv)
        returned = []
        for op, args in case["script"]:
            if op == "set_version":
                # the documented way to change the version of a live client: the kmip_version setter
                version = args["version"]
                c.kmip_version = VERSIONS[version]
                srv.version = version
                returned.append(None)
                continue
            args = _subst(args, returned)
            n0 = len(srv.log)
            st = {"op": op, "args": args, "client_version": version}
            try:
                r = call_op(c, op, args)
                if op in PROXY_ONLY:
                    st["outcome"] = {"kind": "result", "result": result_object_view(op, r)}
                else:
                    st["outcome"] = {"kind": "returned", "value": returned_view(op, r, version)}
                returned.append(r if isinstance(r, str) else (r[0] if isinstance(r, tuple) and r and isinstance(r[0], str) else None))
            except Exception as ex:
                st["outcome"] = describe_exception(ex)
                returned.append(None)
            ent = srv.log[n0] if len(srv.log) > n0 else None
            if ent is not None:
                st["server"] = {k: v for k, v in ent.items() if k != "item"}
                if "item" in ent:
                    it = dict(ent["item"])
                    p = it.pop("payload")
                    it["has_payload"] = p is not None
                    try:
                        it["data"] = engine_payload_data(op, p, version)
                    except Exception as ex:
                        it["data_error"] = "%s: %s" % (type(ex).__name__, ex)
                    st["server"]["item"] = it
            steps.append(st)
    finally:
        srv.close()
    return steps


def _subst(a, returned):
    if isinstance(a, str) and a.startswith("$") and a[1:].isdigit():
        k = int(a[1:])
        return returned[k] if k < len(returned) and returned[k] is not None else "no-such-object"
    if isinstance(a, list):
        return [_subst(x, returned) for x in a]
    if isinstance(a, dict):
        return {k: _subst(v, returned) for k, v in a.items()}
    return a
