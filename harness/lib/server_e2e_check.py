"""
M17 - END-TO-END BYTE-LEVEL correspondence of the COMPOSED server model (lean/Drivers/Server.lean: `Server.serve` over
`ServerBytes.world` = M7 session x M14 decoder x M5 engine x M15 encoder) with the real server
(`KmipSession.run()` in front of a real `KmipEngine` on a temporary SQLite file) - part of C12 / C02 / C11 (C16, C08).

  run(ctx, rng) -> coverage dict (it calls ctx.report itself)          replay_case(ctx, rep) -> bool

Every component model has its own differential check, but each of those hands its component the OTHER components'
real outputs.  Here nothing is handed over but the PARAMETERS of the composed model:

  * the bytes a client sends (any chunking, `recv` returning None / b'' now and then), its certificate, the clock,
    the operation policies in force;
  * the cryptography backend's answers (`World.oracle`): the backend of the real engine is a deterministic stand-in
    (`DetCrypto`: a function of connection, frame, item and call arguments; keys of the requested length, now and then
    a KMIP error, another exception, a key of the wrong length) and what it answered is recorded per engine call;
  * the oracle subtrees of `ByteWorld.extrasOf`, taken from the REAL response objects (written by the real code):
    Key Wrapping Data of a wrapped Get, the split-key fields of a Split Key, IV / authentication tag of Encrypt -
    what the engine model's `Data` does not carry.  (What else travels with a line is listed below.)

Histories: a fresh store; a set-up connection; then 1-3 connections one after the other on the same store (different
client certificates = different owners, so permission denials occur; certificates that fail the certificate stage
or authentication), a server restart between connections now and then, generated operation policies for most
histories.  A connection = 3-12 frames of `SessGen` (valid requests of all 21 operations and 6 versions, multi-item
batches with both continuation options, header time stamps, maximum response sizes around the actual sizes; ~25 %
mutated / undecodable frames of every mutation class, raw frames, unsupported versions) under a random chunking.
Generation is adaptive on the REAL store (identifiers, owners and states are learned from the dump after every
connection).

Compared per connection: the number of events, every framed request, the BYTES of every response byte for byte (the
clock is deterministic: nothing is masked), the identity that reached the engine, and the store dump after the
connection (`impl_engine.dump` vs `Wire.jObj`, the ID placeholder included; observation function `store_obs`).

What is handed to the driver besides the parameters, and why (each is counted in the coverage):
  * WORDING of failed items.  The engine model M5 abstracts the wording of most Result Messages of failed batch items
    and of the unsupported-version rejection (its own correspondence compares status, reason, data and - only for the
    "Could not locate object" family - the text).  The real texts travel with the answer rows; the driver uses the
    model's own text wherever it is the real one (`failed_item_texts_verbatim`), replaces it otherwise
    (`failed_item_texts_substituted`) - never a text of the "Could not locate object" family - and flags the rare
    response whose size check would have gone the other way on the real wording (`excluded_size_check_decided_by_
    wording`, not compared).  Status, reason, payloads, lengths, padding, header and every session-built error
    response (texts from the driver's own table of session.py) are the models' own.
  * the protocol version numbers of a request whose version is no member of KMIPVersion: M14 keeps 0, the session
    echoes the client's numbers; the driver reads them off the frame with M14's own readers (glue, see the driver).
Known deviations of COMPONENT models that only the wire can reach (a connection that meets one is not compared, nor
is the rest of its history; counted as `excluded_known_model_gap:*`, described in `known_model_gaps`):
  identifier spellings ("2.0", " 2": lib/uidcanon.py;
  not generated here).  (An empty Operation Policy Name and an empty Unique Identifier in Activate / Revoke /
  Destroy / MAC were gaps until round 11: `Obj.policyGiven` / `uidOrObj` model them now and they are compared.)
`excluded_oracle_not_a_function`: two different frames of one connection decode to the same model `Request` but the
backend answered them differently - no `World` (oracle : Request -> answers) expresses that; not compared.

A difference is examined first: the implementation-only monitors below are evaluated on the real behaviour of the
connection; if one fails it is a finding (with the whole history as replay), otherwise the difference is reported as
`correspondence:server-e2e:<what>` (no_input=True).

MONITORS (real behaviour alone):
  c12:e2e-responses-per-frame        a framed request got other than exactly one response / an exception left the loop
  c12:e2e-undecodable-reached-engine a frame `RequestMessage.read` refuses reached the engine
  c12:e2e-noop-connection-changed-store   no engine call in the whole connection, yet the store dump changed
  c02:e2e-response-not-wellformed    a response is not one well-formed TTLV item (independent walker)
  c16:e2e-version-not-echoed         the response header does not carry the request's protocol version
  c08:e2e-results-incomplete         an engine answer with fewer / more items than the continuation option implies
  c16:e2e-later-field-sent           a response whose header states version v carries a tag a later version introduced
  c08:e2e-too-large-without-limit    executed items answered only "Response Too Large" though the request states no limit
  c17:e2e-unauthenticated-reached-engine  the engine was called for a client whose identity cannot be established
  c11:e2e-connection-depends-on-predecessor   (sampled) the same connection served by a RESTARTED server on the store
                                     its predecessors left answers other bytes / leaves another store
"""
import collections
import hashlib
import json
import logging
import multiprocessing
import os
import random
import sys
import time
import warnings

warnings.filterwarnings("ignore")
HERE = os.path.dirname(os.path.abspath(__file__))
sys.path.insert(0, HERE)
if "kmip" not in sys.modules:
    # stand-alone use: the implementation under check is VERIF_REPO's working tree (harness/vcheck.py does the same)
    sys.path.insert(0, os.environ.get("VERIF_REPO", "/repo"))

import gen_engine  # noqa: E402
import gen_session as G  # noqa: E402
import impl_engine  # noqa: E402
import impl_session as S  # noqa: E402
import encode_check  # noqa: E402
import uidcanon  # noqa: E402
from kmip.core import enums, exceptions  # noqa: E402
from kmip.core.messages import contents  # noqa: E402
from kmip.services.server import session as session_mod  # noqa: E402

RULE = ("histories of connections against one real server (KmipSession.run + KmipEngine on SQLite, deterministic "
        "clock, deterministic recording stand-in for the cryptography backend): set-up connection + 1-3 connections "
        "of 3-12 frames (SessGen valid requests over 21 operations x 6 versions, multi-item batches with both "
        "continuation options, time stamps, maximum response sizes; ~25 % mutated / raw / unsupported-version frames), "
        "random chunkings incl. recv -> None / b'', different client certificates (owners alice / bob / carol, failing "
        "certificates), restarts between connections, generated policies; the same bytes, certificates, clock, "
        "policies, backend answers and oracle subtrees through Drivers/Server.lean; compared: every response BYTE FOR "
        "BYTE, number of responses, identity at the engine, store dump after every connection; distinct_nontrivial = "
        "distinct (frame, response) pairs that are not a plain success of a one-item request")

OWNERS = ["alice", "bob", "carol"]
MUT_KINDS = ["truncate", "truncate", "inflate", "deflate", "type", "tag", "count", "version", "version", "version0",
             "version0", "flip", "flip", "trailing", "textlen", "cutvalue", "emptystring", "itemcut", "transparent"]


# ------------------------------------------------------------------ the backend stand-in
class DetCrypto(object):
    """Deterministic stand-in for CryptographyEngine.  Every answer is a function of (connection salt, frame bytes,
    item index, method, call arguments); the first answer given for a batch item is recorded as the model's oracle
    value for that item (`impl_engine.RecordingCrypto` does the same with the real backend)."""

    def __init__(self, owner):
        self.owner = owner

    def _rng(self, method):
        o = self.owner
        h = hashlib.sha256(b"|".join([o.conn_salt, str(o._item).encode(), method.encode(), o.cur_frame])).digest()
        return random.Random(h)

    def _fail(self, r, method):
        """now and then the backend refuses (a KMIP error) or breaks (anything else)"""
        x = r.random()
        if x < 0.05:
            reason = r.choice([7, 10])
            self.owner.record({"k": "kmip", "reason": reason})
            cls = {7: exceptions.InvalidField, 10: exceptions.CryptographicFailure}[reason]
            raise cls("cryptography engine error")
        if x < 0.075:
            self.owner.record({"k": "internal"})
            raise RuntimeError("backend failure (%s)" % method)

    @staticmethod
    def _bytes(r, n):
        return bytes(r.randrange(256) for _ in range(max(0, n)))

    def create_symmetric_key(self, algorithm, length):
        r = self._rng("create_symmetric_key")
        self._fail(r, "create_symmetric_key")
        if not isinstance(length, int) or length <= 0 or length % 8 or length > 8192:
            self.owner.record({"k": "kmip", "reason": 7})
            raise exceptions.InvalidField("cryptography engine error")
        n = length // 8
        if r.random() < 0.03:
            n += r.choice([1, 8, -1])              # a backend returning a key of another length than asked for
        v = self._bytes(r, n)
        self.owner.record({"k": "ok", "t": v.hex()})
        return {"value": v, "format": enums.KeyFormatType.RAW}

    def create_asymmetric_key_pair(self, algorithm, length):
        r = self._rng("create_asymmetric_key_pair")
        self._fail(r, "create_asymmetric_key_pair")
        if not isinstance(length, int) or length <= 0:
            # no backend produces a key pair of non-positive length (the real one refuses; gen_engine scripts the same)
            self.owner.record({"k": "kmip", "reason": 7})
            raise exceptions.InvalidField("cryptography engine error")
        pub, priv = self._bytes(r, r.choice([10, 24])), self._bytes(r, r.choice([14, 40]))
        pf, sf = enums.KeyFormatType.PKCS_1, enums.KeyFormatType.PKCS_8
        self.owner.record({"k": "ok2", "pub": pub.hex(), "priv": priv.hex(), "pubfmt": pf.value, "privfmt": sf.value})
        return {"value": pub, "format": pf}, {"value": priv, "format": sf}

    def derive_key(self, **kw):
        r = self._rng("derive_key")
        self._fail(r, "derive_key")
        n = kw.get("derivation_length")
        n = n if isinstance(n, int) and 0 <= n <= 4096 else 16
        if r.random() < 0.1:
            n = max(0, n + r.choice([8, 16, -1, -8]))
        v = self._bytes(r, n)
        self.owner.record({"k": "ok", "t": v.hex()})
        return v

    def _plain(self, method, sizes):
        r = self._rng(method)
        self._fail(r, method)
        v = self._bytes(r, r.choice(sizes))
        self.owner.record({"k": "ok", "t": v.hex()})
        return r, v

    def wrap_key(self, **kw):
        return self._plain("wrap_key", [24, 40, 8])[1]

    def encrypt(self, *a, **kw):
        r, v = self._plain("encrypt", [16, 32, 1, 31])
        return {"cipher_text": v, "iv_nonce": self._bytes(r, r.choice([12, 16])) if r.random() < 0.4 else None,
                "auth_tag": self._bytes(r, 16) if r.random() < 0.4 else None}

    def decrypt(self, *a, **kw):
        return self._plain("decrypt", [16, 5, 48])[1]

    def sign(self, **kw):
        return self._plain("sign", [64, 5])[1]

    def mac(self, *a, **kw):
        return self._plain("mac", [20, 32])[1]

    def verify_signature(self, **kw):
        r = self._rng("verify_signature")
        self._fail(r, "verify_signature")
        v = r.random() < 0.5
        self.owner.record({"k": "verdict", "v": v})
        return v


# ------------------------------------------------------------------ the real server
class Server(impl_engine.ImplEngine):
    """A real KmipEngine on a temporary database (deterministic clock `impl_engine.CLOCK`, `DetCrypto` backend) and
    real KmipSessions in front of it on fake connections."""

    def __init__(self, workdir=None):
        self.conn_salt = b""
        self.cur_frame = b""
        self.calls = []
        self._answers = []
        super(Server, self).__init__(scripted_crypto=True, workdir=workdir)

    def _open(self):
        super(Server, self)._open()
        self.engine._cryptography_engine = DetCrypto(self)
        orig = self.engine.process_request
        me = self

        def process_request(request, credential=None):
            me._item = -1
            me._answers = [None] * len(request.batch_items)
            rec = {"frame": me.cur_frame, "identity": credential, "n_items": len(request.batch_items),
                   "bopt": None, "out": None, "extras": [], "answers": me._answers, "msgs": [], "rejected": None,
                   "gaps": known_model_gaps(request)}
            try:
                o = request.request_header.batch_error_cont_option
                rec["bopt"] = None if o is None else o.value.value
            except Exception:
                pass
            me.calls.append(rec)
            try:
                res = orig(request, credential)
            except exceptions.KmipError as e:
                rec["out"] = {"k": "kmip", "reason": e.reason.value}
                rec["rejected"] = str(e)
                raise
            except Exception as e:
                rec["out"] = {"k": "other", "exc": type(e).__name__, "msg": str(e)[:200]}
                raise
            finally:
                for k, bi in enumerate(request.batch_items):
                    # Derivation Parameters without Cryptographic Parameters are refused by the engine where it would
                    # ask the backend (engine.py _process_derive_key, fix 0982c9e); the engine model's payload has no
                    # such field: the refusal is handed to it as the backend's answer (as impl_engine does)
                    try:
                        if bi.operation.value == enums.Operation.DERIVE_KEY and me._answers[k] is None and \
                                bi.request_payload.derivation_parameters.cryptographic_parameters is None:
                            me._answers[k] = {"k": "kmip", "reason": 7}
                    except Exception:
                        pass
            response, max_size, version = res
            rec["msgs"] = [None if bi.result_message is None else bi.result_message.value for bi in response.batch_items]
            rec["out"] = {"k": "ok", "max": max_size, "ver": [version.major, version.minor]}
            try:
                rec["extras"] = extras_rows(response, contents.protocol_version_to_kmip_version(version))
            except Exception as e:
                rec["extras_error"] = "%s: %s" % (type(e).__name__, str(e)[:120])
            return res
        self.engine.process_request = process_request

    def record(self, answer):
        if 0 <= self._item < len(self._answers) and self._answers[self._item] is None:
            self._answers[self._item] = answer

    def serve(self, events, der, tls=True):
        """KmipSession.run() to completion on a fake connection -> {"iterations": [...], "out": [bytes], ...}"""
        conn = S.FakeConn(events, der)
        sess = session_mod.KmipSession(self.engine, conn, ("192.0.2.7", 40000), name="verif",
                                       enable_tls_client_auth=tls, auth_settings=None)
        its = []
        orig_loop = sess._handle_message_loop
        orig_recv = sess._receive_request
        cur = {}
        me = self
        self.calls = []

        def recv_req():
            try:
                data = orig_recv()
            except BaseException as e:
                cur["recv_exc"] = type(e).__name__
                raise
            cur["frame"] = bytes(data.buffer)
            me.cur_frame = cur["frame"]
            return data

        def loop():
            cur.clear()
            cur.update({"frame": None, "recv_exc": None, "escaped": None})
            n_out, n_calls = len(conn.out), len(me.calls)
            try:
                orig_loop()
            except exceptions.ConnectionClosed:
                cur["escaped"] = "ConnectionClosed"
                raise
            except BaseException as e:
                cur["escaped"] = "%s: %s" % (type(e).__name__, str(e)[:160])
                raise
            finally:
                rec = dict(cur)
                rec["sent"] = conn.out[n_out:]
                rec["calls"] = me.calls[n_calls:]
                its.append(rec)
        sess._receive_request = recv_req
        sess._handle_message_loop = loop
        escaped = None
        try:
            sess.run()
        except BaseException as e:
            escaped = "%s: %s" % (type(e).__name__, str(e)[:200])
        return {"iterations": its, "out": list(conn.out), "run_escaped": escaped, "closed": conn.closed,
                "max_response_size": sess._max_response_size}

    def default_version(self):
        v = self.engine.default_protocol_version
        return [v.major, v.minor]


def known_model_gaps(request):
    """inputs on which a COMPONENT model is known to deviate from the code (reported, not compared): identifier
    spellings only (the empty identifier of Activate / Revoke / Destroy / MAC is modelled since `uidOrObj`)"""
    gaps = []
    for bi in request.batch_items:
        try:
            op = bi.operation.value
            p = bi.request_payload
            # identifier spellings SQLite reads as an integer (lib/uidcanon.py): the engine model knows canonical ones only
            uids = []
            u = getattr(p, "unique_identifier", None)
            uids.append(getattr(u, "value", u))
            uids += list(getattr(p, "unique_identifiers", None) or [])
            spec = getattr(p, "key_wrapping_specification", None)
            eki = getattr(spec, "encryption_key_information", None) if spec is not None else None
            if eki is not None:
                uids.append(eki.unique_identifier)
            if any(uidcanon.exotic(x) for x in uids):
                gaps.append("identifier-spelling")
        except Exception:
            pass
    return gaps


def extras_rows(resp, kv):
    """oracle subtrees of a real response, keyed by what the model's result of the same item carries:
    Get -> (identifier, key value), Encrypt -> (identifier, cipher text)"""
    rows = []
    sub = encode_check.oracle_subtrees(resp, kv)
    for k, hx in sub.items():
        bi = resp.batch_items[int(k)]
        op = bi.operation.value
        d = impl_engine.data_of(op, bi.response_payload)
        if op == enums.Operation.GET:
            rows.append({"op": op.value, "uid": d["uid"], "value": d["value"], "items": hx})
        elif op == enums.Operation.ENCRYPT:
            rows.append({"op": op.value, "uid": d["uid"], "value": d["c"], "items": hx})
    return rows


# ------------------------------------------------------------------ generation (adaptive on the real store)
def cert_of(shape):
    if shape is None:
        return None
    return S.make_cert(tuple(shape["cns"]), shape["eku"])


def cert_model(shape):
    if shape is None:
        return None
    eku = {"absent": None, "server": ["other"], "client": ["client"], "both": ["other", "client"]}[shape["eku"]]
    return {"eku": eku, "cns": list(shape["cns"])}


def established(shape, tls):
    """the owner a connection acts as, or None (reading of the property text, not of the code)"""
    if shape is None or len(shape["cns"]) != 1:
        return None
    if tls and shape["eku"] not in ("client", "both"):
        return None
    return shape["cns"][0]


def pick_cert(r, k):
    x = r.random()
    if x < 0.80:
        return {"cns": [r.choice(OWNERS if k else ["alice", "alice", "bob"])], "eku": r.choice(["client", "client", "both"])}, True
    if x < 0.84:
        return None, True
    if x < 0.89:
        return {"cns": [r.choice(OWNERS)], "eku": r.choice(["absent", "server"])}, True
    if x < 0.93:
        return {"cns": [r.choice(OWNERS)], "eku": r.choice(["absent", "server"])}, False       # no EKU check: served
    if x < 0.97:
        return {"cns": ["alice", "bob"], "eku": "client"}, True
    return {"cns": [], "eku": "client"}, True


def learn(sg, dump, seen):
    """identifiers, owners and states from the real store"""
    live = {}
    for o in dump["objs"]:
        live[str(o["uid"])] = {"otype": o["otype"], "owner": o["owner"], "state": o["state"] or 1}
        seen.add(str(o["uid"]))
    sg.g.live = live
    sg.g.dead = sorted(u for u in seen if u not in live)
    sg.g.created = max([int(u) for u in seen] + [0])


def gen_frames(sg, r, pool, n):
    out = []
    for _ in range(n):
        if out and r.random() < 0.08:
            # the same bytes again (whatever they were): anything a request leaves behind meets its own twin
            out.append((out[-1][0], "repeat:" + out[-1][1].split(":")[-1]))
            continue
        x = r.random()
        if x < 0.25:
            if r.random() < 0.12 or not pool:
                out.append((sg.raw(), "raw"))
                continue
            base = sg.valid() if r.random() < 0.5 else None
            fr = base[0] if base else r.choice(pool)
            if len(fr) > 4000:
                fr = r.choice(pool)
            kind = "nest" if r.random() < 0.01 else r.choice(MUT_KINDS)
            m, kind = sg.mutate(fr, kind)
            if kind == "nest" and len(m) > 12000:
                m, kind = sg.mutate(fr, "flip")
            out.append((m, "mut:" + kind))
            continue
        maxsize = None
        if r.random() < 0.14:
            maxsize = r.choice([0, 1, 120, 168, 200, 208, 216, 256, 300, 400, 472, 600, 1000, 2 ** 31 - 1, 1048576])
        if r.random() < 0.015:
            v = sg.valid_big()
            out.append((v[0], "valid-big"))
            continue
        if r.random() < 0.07:
            # operations the weights of SessGen make rare
            v = sg.valid(maxsize=maxsize, sure=False, v=r.choice([12, 13, 14, 20]),
                         op=r.choice(["createKeyPair", "deriveKey", "sign", "signatureVerify", "decrypt", "encrypt", "mac",
                                      "setAttribute", "get", "get"]))
        else:
            v = sg.valid(maxsize=maxsize)
        if v is None:
            v = (r.choice(pool), None) if pool else None
        if v is None:
            continue
        if len(pool) < 40 and len(v[0]) < 3000:
            pool.append(v[0])
        out.append((v[0], "valid+max" if maxsize is not None else "valid"))
    return out


def chunk(sg, r, stream):
    evs, kind = sg.chunking(stream, r.choice(["whole", "whole", "bytes", "header", "random", "big", "random"])
                            if len(stream) < 3000 else r.choice(["whole", "header", "random", "big", "big"]))
    if r.random() < 0.06 and evs:
        for _ in range(r.choice([1, 1, 2])):
            evs.insert(r.randrange(len(evs) + 1), None)
        if r.random() < 0.3:
            evs.insert(r.randrange(len(evs) + 1), b"")
        kind += "+gaps"
    return evs, kind


def setup_frames():
    """three AES keys (every usage bit; the first is activated: a wrapping / encryption / MAC key exists), an opaque
    object - owner alice"""
    def tmpl(i):
        t = G.aes_template(256, "k%d" % i)
        t["attrs"][2]["value"]["v"] = encode_check.MASK_ALL
        return t
    items = [{"op": "create", "bid": None, "crypto": None, "otype": 2, "tmpl": tmpl(i)} for i in range(3)]
    items.append({"op": "register", "bid": None, "crypto": None, "otype": 8, "tmpl": {"tnames": 0, "attrs": []},
                  "obj": {"otype": 8, "value": "0102030405060708", "alg": None, "len": None, "format": None,
                          "subtype": 0x80000000}})
    items.append({"op": "activate", "bid": None, "crypto": None, "uid": "1"})
    return [(G.encode_request(G.mkreq(14, [it])), "setup") for it in items]


# ------------------------------------------------------------------ one history on the real server
def serve_step(srv, step):
    """run one recorded step on the real server -> observation"""
    if step["k"] == "restart":
        srv.restart()
        return {"k": "restart"}
    if step["k"] == "policies":
        srv.set_policies(step["policies"])
        return {"k": "policies"}
    srv.clock.now = step["now"]
    srv.conn_salt = step["salt"].encode()
    events = [None if e is None else bytes.fromhex(e) for e in step["events"]]
    before = srv.dump()
    res = srv.serve(events, cert_of(step["cert"]), step["tls"])
    after = srv.dump()
    its = []
    for it in res["iterations"]:
        if it["frame"] is None:
            its.append({"k": "recv", "exc": it["recv_exc"]})
            continue
        its.append({"k": "handled", "frame": it["frame"].hex(), "sent": [b.hex() for b in it["sent"]],
                    "escaped": it["escaped"],
                    "calls": [{"identity": S.identity_json(c["identity"]), "out": c["out"], "n_items": c["n_items"],
                               "bopt": c["bopt"], "answers": list(c["answers"]), "extras": c["extras"],
                               "msgs": c["msgs"], "rejected": c["rejected"], "gaps": c["gaps"],
                               "extras_error": c.get("extras_error")} for c in it["calls"]]})
    return {"k": "conn", "iterations": its, "run_escaped": res["run_escaped"], "closed": res["closed"],
            "before": before, "after": after, "max_response_size": res["max_response_size"],
            "default_version": srv.default_version()}


def history(args):
    """Worker: generate one history adaptively against the real server.  -> {"steps": [...], "obs": [...]}"""
    seed, nconn = args
    logging.disable(logging.CRITICAL)
    r = random.Random(seed)
    sg = G.SessGen(random.Random(r.randrange(1 << 30)))
    # identifier SPELLINGS ("2.0", " 2", "2e0": SQLite's numeric affinity reads them as 2) are outside the engine model,
    # which takes canonical decimal identifiers only (the engine-family checks bridge them with lib/uidcanon.py):
    # not generated here; a frame that carries one all the same is a known model gap (below)
    sg.g.profile["exotic_uid"] = 0.0
    srv = Server()
    steps, obs = [], []
    seen = set()
    pool = []

    def do(step):
        steps.append(step)
        o = serve_step(srv, step)
        obs.append(o)
        return o
    try:
        if r.random() < 0.7:
            g = gen_engine.Gen(r.randrange(1 << 30))
            do({"k": "policies", "policies": impl_engine.policies_to_json(impl_engine.core_policy.policies)
                + gen_engine.random_policies(g)})
        for k in range(nconn + 1):
            now = r.choice([1000, 1000, 1001, 1030, 1059, 1060, 1061, 5000])
            if k == 0:
                cert, tls = {"cns": ["alice"], "eku": "client"}, True
                frames = setup_frames() + gen_frames(sg, r, pool, r.choice([0, 1, 2]))
            else:
                cert, tls = pick_cert(r, k - 1)
                frames = gen_frames(sg, r, pool, r.choice([3, 4, 5, 6, 7, 8, 10, 12]))
            stream = b"".join(f for f, _ in frames)
            evs, ckind = chunk(sg, r, stream)
            o = do({"k": "conn", "now": now, "salt": "%d-%d" % (seed, k), "cert": cert, "tls": tls,
                    "events": S.hexs(evs), "labels": [l for _, l in frames], "chunking": ckind,
                    "frames": [f.hex() for f, _ in frames]})
            learn(sg, o["after"], seen)
            if k < nconn and r.random() < 0.2:
                do({"k": "restart"})
    finally:
        srv.close()
    return {"seed": seed, "steps": steps, "obs": obs}


def replay_history(steps):
    """the recorded steps on a fresh real server (no generation)"""
    logging.disable(logging.CRITICAL)
    srv = Server()
    try:
        return [serve_step(srv, s) for s in steps]
    finally:
        srv.close()


# ------------------------------------------------------------------ the model
def model_lines(steps, obs, verbose=False):
    lines = [json.dumps({"cmd": "reset"})]
    for s, o in zip(steps, obs):
        if s["k"] == "restart":
            lines.append(json.dumps({"cmd": "restart"}))
        elif s["k"] == "policies":
            lines.append(json.dumps({"cmd": "policies", "policies": s["policies"]}))
        else:
            answers, extras = [], []
            for it in o["iterations"]:
                if it["k"] != "handled":
                    continue
                for c in it["calls"]:
                    answers.append({"frame": it["frame"], "answers": c["answers"], "msgs": c["msgs"],
                                    "rejected": c["rejected"]})
                    extras += c["extras"]
            lines.append(json.dumps({"cmd": "serve", "now": s["now"], "tls": s["tls"], "cert": cert_model(s["cert"]),
                                     "chunks": s["events"], "default_version": o["default_version"],
                                     "max_response_size": o["max_response_size"], "answers": answers,
                                     "extras": extras, "verbose": verbose}))
    return lines


def run_models(ctx, hists, verbose=False, max_procs=8):
    """all histories through Drivers/Server.lean (each preceded by a reset), split over several driver processes"""
    per = [model_lines(h["steps"], h["obs"], verbose) for h in hists]
    nproc = max(1, min(max_procs, len(hists)))
    chunks = [[] for _ in range(nproc)]
    loads = [0] * nproc
    where = {}
    for k in sorted(range(len(hists)), key=lambda k: -sum(len(x) for x in per[k])):
        c = loads.index(min(loads))
        where[k] = (c, len(chunks[c]))
        chunks[c].append(per[k])
        loads[c] += sum(len(x) for x in per[k])

    def one(ch):
        flat = [l for h in ch for l in h]
        if not flat:
            return []
        raw = ctx.run_model("Server", flat)
        out, i = [], 0
        for h in ch:
            out.append(raw[i:i + len(h)])
            i += len(h)
        return out
    import concurrent.futures
    with concurrent.futures.ThreadPoolExecutor(nproc) as ex:
        res = list(ex.map(one, chunks))
    return [res[where[k][0]][where[k][1]] for k in range(len(hists))]


# ------------------------------------------------------------------ monitors (the real behaviour alone)
def response_version(raw):
    """(major, minor) of the response header, read with the independent walker"""
    top = S.ttlv_walk(raw)
    if len(top) != 1 or top[0][0] != 0x42007B or top[0][1] != 1:
        raise ValueError("not exactly one Response Message structure")
    hdr = [x for x in top[0][2] if x[0] == 0x42007A][0]
    pv = [x for x in hdr[2] if x[0] == 0x420069][0]
    maj = [x for x in pv[2] if x[0] == 0x42006A][0]
    mnr = [x for x in pv[2] if x[0] == 0x42006B][0]
    items = [x for x in top[0][2] if x[0] == 0x42000F]
    count = [x for x in hdr[2] if x[0] == 0x42000D][0]
    statuses = []
    for it in items:
        st = [x for x in it[2] if x[0] == 0x42007F]
        statuses.append(int.from_bytes(st[0][2], "big") if st else None)
    return (int.from_bytes(maj[2], "big"), int.from_bytes(mnr[2], "big")), int.from_bytes(count[2], "big"), statuses


TAG_BLOCKS = [(0x420125, 20), (0x4200F8, 14), (0x4200D4, 13), (0x4200B8, 12), (0x4200A2, 11)]


def tag_version(tag):
    for first, v in TAG_BLOCKS:
        if first <= tag < 0x430000:
            return v
    return 10


def all_tags(raw):
    out = []

    def walk(items):
        for it in items:
            out.append(it[0])
            if it[1] == 1 and isinstance(it[2], list):
                walk(it[2])
    try:
        walk(S.ttlv_walk(raw))
    except Exception:
        pass
    return out


def monitor_conn(step, o):
    """-> [(signature, what)]"""
    fails = []
    if o["run_escaped"]:
        fails.append(("c12:e2e-responses-per-frame", "run() raised %s" % o["run_escaped"]))
    any_call = False
    for i, it in enumerate(o["iterations"]):
        if it["k"] != "handled":
            continue
        fr = bytes.fromhex(it["frame"])
        verdict = S.parse_verdict(fr, o["default_version"])
        if it["escaped"] is not None or len(it["sent"]) != 1:
            fails.append(("c12:e2e-responses-per-frame", "frame %d: %d responses, left the loop with %s"
                          % (i, len(it["sent"]), it["escaped"])))
            continue
        any_call = any_call or bool(it["calls"])
        if verdict is None and it["calls"]:
            fails.append(("c12:e2e-undecodable-reached-engine", "frame %d cannot be decoded but the engine was called" % i))
        raw = bytes.fromhex(it["sent"][0])
        try:
            ver, count, statuses = response_version(raw)
        except Exception as e:
            fails.append(("c02:e2e-response-not-wellformed", "frame %d: %s" % (i, str(e)[:160])))
            continue
        if count != len(statuses):
            fails.append(("c02:e2e-response-not-wellformed", "frame %d: batch count %d, %d items" % (i, count, len(statuses))))
        # "a message field introduced in a later KMIP version is never sent to a client speaking an earlier one": every tag
        # of the response belongs to the tag table of the version its header states (the table grows by version:
        # first tags of the blocks of 1.1 / 1.2 / 1.3 / 1.4 / 2.0 from the specification)
        if ver in ((1, 0), (1, 1), (1, 2), (1, 3), (1, 4), (2, 0)):
            hv = ver[0] * 10 + ver[1]
            late = sorted(set(t for t in all_tags(raw) if tag_version(t) > hv))
            if late:
                fails.append(("c16:e2e-later-field-sent:tag-%06X:under-%d" % (late[0], hv),
                              "frame %d: the response states version %d.%d and carries the field(s) %s, "
                              "introduced in %s" % (i, ver[0], ver[1], ["0x%06X" % t for t in late[:4]],
                                                    sorted(set(tag_version(t) for t in late)))))
        who = established(step["cert"], step["tls"])
        cert_stage_ok = step["cert"] is not None and (not step["tls"] or step["cert"]["eku"] in ("client", "both"))
        want = tuple(verdict) if (verdict is not None and cert_stage_ok) else (1, 0)
        if ver != want:
            fails.append(("c16:e2e-version-not-echoed", "frame %d: request version %s, response header %s"
                          % (i, verdict, ver)))
        if it["calls"] and who is None:
            fails.append(("c17:e2e-unauthenticated-reached-engine", "frame %d: engine called for a client without identity" % i))
        if it["calls"] and it["calls"][0]["out"] and it["calls"][0]["out"]["k"] == "ok" and statuses == [1] \
                and raw.find(b"\x42\x00\x5c\x05") < 0:
            # the engine's answer was REPLACED by the one-item "Response Too Large" refusal: only THIS request's own
            # Maximum Response Size can ask for that (the stores of these histories are far too small for the server's
            # own megabyte to matter) - a limit an earlier request of the connection stated does not outlive it
            try:
                rtop = S.ttlv_walk(fr)
                rhdr = [x for x in rtop[0][2] if x[0] == 0x420077][0]
                own_limit = any(x[0] == 0x420050 for x in rhdr[2])
                item = [x for x in S.ttlv_walk(raw)[0][2] if x[0] == 0x42000F][0]
                rsn = [x for x in item[2] if x[0] == 0x42007E]
                too_large = bool(rsn) and int.from_bytes(rsn[0][2], "big") == 2
            except Exception:
                own_limit, too_large = True, False
            if too_large and not own_limit:
                fails.append(("c08:e2e-too-large-without-limit", "frame %d: the request states no Maximum Response Size, the engine "
                              "executed its %d item(s), the client is told only 'Response Too Large'" % (i, it["calls"][0]["n_items"])))
        if it["calls"] and it["calls"][0]["out"] and it["calls"][0]["out"]["k"] == "ok" and len(statuses) >= 1:
            c = it["calls"][0]
            engine_answer = not (len(statuses) == 1 and statuses[0] == 1 and raw.find(b"\x42\x00\x5c\x05") < 0)
            if engine_answer:
                n = c["n_items"]
                if c["bopt"] == 1:
                    ok = len(statuses) == n
                else:
                    bad = [k for k, s in enumerate(statuses) if s != 0]
                    ok = (len(statuses) == n and not bad) or (bad and bad[0] == len(statuses) - 1 and len(statuses) <= n)
                if not ok:
                    fails.append(("c08:e2e-results-incomplete", "frame %d: %d items requested (option %s), statuses %s"
                                  % (i, n, c["bopt"], statuses)))
    if not any_call and o["before"] != o["after"]:
        fails.append(("c12:e2e-noop-connection-changed-store", "no engine call in the connection, yet the store changed"))
    return fails


def isolation_probe(steps, k, obs):
    """C11 at the connection level, implementation only: the connection `steps[k]` served by a fresh server on the
    store its predecessors left (rebuilt by replaying them, then restarting) answers the same bytes"""
    pre = [s for s in steps[:k]]
    srv = Server()
    try:
        for s in pre:
            serve_step(srv, s)
        srv.restart()
        o2 = serve_step(srv, steps[k])
    finally:
        srv.close()
    a = [it.get("sent") for it in obs[k]["iterations"] if it["k"] == "handled"]
    b = [it.get("sent") for it in o2["iterations"] if it["k"] == "handled"]
    return a == b and obs[k]["after"]["objs"] == o2["after"]["objs"]


# ------------------------------------------------------------------ comparison
def first_diff(a, b):
    n = min(len(a), len(b))
    for i in range(0, n, 2):
        if a[i:i + 2] != b[i:i + 2]:
            return i // 2
    return n // 2


def answer_key(raw):
    """status / reason class of a real response, for the distribution"""
    try:
        ob = S.decode_response(raw, (1, 2))
    except Exception:
        return "undecodable-response"
    its = ob["items"]
    if not its:
        return "empty-batch"
    if its[0]["op"] is None:
        return "ERR:" + (its[0]["reason"] or "?")
    return ",".join(sorted(set((x["reason"] or x["status"]) for x in its)))


def ops_of(raw):
    try:
        ob = S.decode_response(raw, (1, 2))
    except Exception:
        return []
    return [x["op"] for x in ob["items"] if x["op"]]


def store_obs(objs):
    """observation function of the store dump: a Secret Data object has no Key Format Type column in the database
    (`impl_engine.dump` prints None), the model's store keeps the one of the registered Key Block - unobservable
    through the protocol (Get answers OPAQUE for every Secret Data in both)"""
    return [dict(o, format=None) if o.get("otype") == 7 else o for o in objs]


def compare_conn(step, o, m):
    """real observation vs the driver's answer for one connection -> (list of differences, counters)"""
    cnt = collections.Counter()
    diffs = []
    impl = []
    for it in o["iterations"]:
        if it["k"] == "recv":
            if it["exc"] == "ConnectionClosed":
                continue
            impl.append({"k": "badframe"})
        else:
            impl.append(it)
    mev = m["events"]
    if len(mev) != len(impl):
        diffs.append(("events", "real session: %d iterations, model: %d events" % (len(impl), len(mev)), None))
    for i, (a, b) in enumerate(zip(impl, mev)):
        if a["k"] != b["k"]:
            diffs.append(("event-kind", "event %d: real %s, model %s" % (i, a["k"], b["k"]), i))
            break
        if a["k"] != "handled":
            continue
        cnt["frames"] += 1
        if a["frame"] != b["frame"]:
            diffs.append(("framing", "event %d: the framed requests differ" % i, i))
            break
        real = a["sent"][0] if len(a["sent"]) == 1 else None
        cnt["failed_item_texts_verbatim"] += b.get("verbatim", 0)
        cnt["failed_item_texts_substituted"] += b.get("subst", 0)
        if b.get("size_by_wording"):
            cnt["excluded_size_check_decided_by_wording"] += 1
            continue
        cnt["responses_compared"] += 1
        if real is not None and real == b["sent"]:
            cnt["byte_equal"] += 1
            cnt["bytes_compared"] += len(real) // 2
        else:
            at = first_diff(real or "", b["sent"] or "")
            diffs.append(("bytes", "event %d (%s): response bytes differ at offset %d: real %s… model %s… [real answer %s, "
                          "model %s]" % (i, (step.get("labels") or ["?"] * (i + 1))[i] if i < len(step.get("labels") or []) else "?",
                                         at, (real or "<none>")[max(0, 2 * at - 16):2 * at + 48],
                                         (b["sent"] or "<none>")[max(0, 2 * at - 16):2 * at + 48],
                                         answer_key(bytes.fromhex(real)) if real else None, b.get("resp")), i))
        ia = a["calls"][0]["identity"] if a["calls"] else None
        if ia != b["call"]:
            diffs.append(("identity", "event %d: identity at the engine: real %s, model %s" % (i, ia, b["call"]), i))
    cnt["stores_compared"] += 1
    if store_obs(o["after"]["objs"]) == store_obs(m["dump"]["objs"]) and \
            o["after"]["placeholder"] == m["dump"]["placeholder"]:
        cnt["stores_equal"] += 1
    else:
        ro, mo = store_obs(o["after"]["objs"]), store_obs(m["dump"]["objs"])
        what = "placeholder: real %r, model %r" % (o["after"]["placeholder"], m["dump"]["placeholder"])
        if len(ro) != len(mo):
            what = "real store: %d objects, model: %d" % (len(ro), len(mo))
        else:
            for x, y in zip(ro, mo):
                if x != y:
                    what = "object %s: %s" % (x.get("uid"), {k: (x.get(k), y.get(k)) for k in x if x.get(k) != y.get(k)})
                    break
        diffs.append(("store", "store after the connection differs: " + what[:400], None))
    return diffs, cnt


def evaluate(ctx, hists, outs, cov, report=True):
    """compare every connection of every history; -> number of divergences"""
    ndiv = 0
    by_class = collections.Counter()
    by_answer = collections.Counter()
    by_op = collections.Counter()
    by_cert = collections.Counter()
    by_chunk = collections.Counter()
    by_backend = collections.Counter()
    distinct = set()
    tot = collections.Counter()
    for h, mo in zip(hists, outs):
        replay = {"kind": "server-e2e", "steps": h["steps"]}
        bad_history = False
        for k, (s, o, line) in enumerate(zip(h["steps"], h["obs"], mo[1:])):
            if s["k"] != "conn":
                if line != '"ok"':
                    raise RuntimeError("server driver: %s on step %s" % (line[:300], s["k"]))
                continue
            if bad_history:
                break
            tot["connections"] += 1
            by_chunk[s["chunking"]] += 1
            by_cert["none" if s["cert"] is None else "%dcn/%s/%s" % (len(s["cert"]["cns"]), s["cert"]["eku"],
                                                                     "tls" if s["tls"] else "notls")] += 1
            if not line.startswith("{"):
                raise RuntimeError("server driver: %s" % line[:400])
            m = json.loads(line)
            fails = monitor_conn(s, o)
            for sig, what in fails:
                tot["monitor_failures"] += 1
                if report:
                    ctx.report(sig, "%s (history seed %s, connection %d)" % (what, h["seed"], k), dict(replay, upto=k))
            if "conflict" in m:
                # the backend answered two frames that decode to the same Request differently: no World expresses it
                tot["excluded_oracle_not_a_function"] += 1
                bad_history = True
                continue
            gaps = sorted(set(g for it in o["iterations"] if it["k"] == "handled" for c in it["calls"] for g in c["gaps"]))
            if gaps:
                for g in gaps:
                    tot["excluded_known_model_gap:" + g] += 1
                bad_history = True
                continue
            if m.get("unused_rows"):
                tot["answer_rows_for_frames_the_model_does_not_decode"] += m["unused_rows"]
            diffs, cnt = compare_conn(s, o, m)
            tot.update(cnt)
            for it in o["iterations"]:
                if it["k"] != "handled":
                    continue
                for c in it["calls"]:
                    tot["engine_calls"] += 1
                    tot["oracle_subtrees_from_the_real_response"] += len(c["extras"])
                    for a in c["answers"]:
                        if a is not None:
                            by_backend[a["k"]] += 1
            labels = s.get("labels") or []
            pos = 0
            for it in o["iterations"]:
                if it["k"] != "handled":
                    continue
                lab = labels[pos] if pos < len(labels) and s["frames"][pos] == it["frame"] else "?"
                pos += 1
                by_class[lab] += 1
                if len(it["sent"]) == 1:
                    raw = bytes.fromhex(it["sent"][0])
                    key = answer_key(raw)
                    by_answer[key] += 1
                    for op in ops_of(raw):
                        by_op[op] += 1
                    if not (lab == "valid" and key == "SUCCESS"):
                        distinct.add(hashlib.sha1((it["frame"] + it["sent"][0]).encode()).hexdigest())
            if diffs:
                ndiv += 1
                tot["connections_with_divergence"] += 1
                bad_history = True          # later connections of this history run on stores that already differ
                if report and not fails:
                    kind, what, at = diffs[0]
                    ctx.report("correspondence:server-e2e:%s" % kind,
                               "composed model and real server disagree (history seed %s, connection %d): %s"
                               % (h["seed"], k, what),
                               dict(replay, upto=k, broken="Drivers/Server.lean (Server.serve over ServerBytes.world) vs "
                                    "KmipSession + KmipEngine", differences=[d[1] for d in diffs[:6]]), no_input=True)
    cov.update(tot)
    cov["frames_by_class"] = dict(by_class)
    cov["answers"] = dict(by_answer)
    cov["operations_answered"] = dict(by_op)
    cov["certificates"] = dict(by_cert)
    cov["chunkings"] = dict(by_chunk)
    cov["backend_answers"] = dict(by_backend)
    cov["distinct_nontrivial"] = len(distinct)
    return ndiv


def run(ctx, rng, n_hist=None):
    logging.disable(logging.CRITICAL)
    t0 = time.time()
    quick = ctx.tier == "quick"
    n_hist = n_hist or (170 if quick else 2500)
    args = [(rng.randrange(1 << 30), rng.choice([1, 2, 2, 3])) for _ in range(n_hist)]
    procs = min(16, max(1, os.cpu_count() or 1))
    if procs == 1:
        hists = [history(a) for a in args]
    else:
        with multiprocessing.get_context("fork").Pool(procs) as pool:
            hists = pool.map(history, args, chunksize=1)
    t_impl = time.time() - t0
    t1 = time.time()
    outs = run_models(ctx, hists)
    t_model = time.time() - t1
    cov = {"histories": len(hists), "rule": RULE,
           "restarts": sum(1 for h in hists for s in h["steps"] if s["k"] == "restart"),
           "histories_with_generated_policies": sum(1 for h in hists if h["steps"] and h["steps"][0]["k"] == "policies")}
    evaluate(ctx, hists, outs, cov)
    # C11 at the connection level on a sample (implementation only)
    probes = failed = 0
    t2 = time.time()
    budget = 6 if quick else 120
    for h in hists:
        if time.time() - t2 > budget:
            break
        ks = [k for k, s in enumerate(h["steps"]) if s["k"] == "conn"]
        if len(ks) < 2:
            continue
        k = ks[-1]
        probes += 1
        if not isolation_probe(h["steps"], k, h["obs"]):
            failed += 1
            ctx.report("c11:e2e-connection-depends-on-predecessor",
                       "connection %d of history seed %s is answered differently by a fresh server on the same store"
                       % (k, h["seed"]), {"kind": "server-e2e", "steps": h["steps"], "upto": k, "probe": "isolation"})
    cov["isolation_probes"] = probes
    cov["isolation_probe_failures"] = failed
    cov["evaluations"] = cov.get("responses_compared", 0) + cov.get("stores_compared", 0)
    cov["byte_equality_rate"] = (cov.get("byte_equal", 0) / float(cov["responses_compared"])
                                 if cov.get("responses_compared") else None)
    cov["samples"] = [{"seed": h["seed"], "steps": [s["k"] for s in h["steps"]],
                       "first_frames": [f[:96] + "…" for s in h["steps"] if s["k"] == "conn" for f in s["frames"][:1]]}
                      for h in hists[:3]]
    cov["seconds"] = {"implementation": round(t_impl, 1), "model": round(t_model, 1), "total": round(time.time() - t0, 1)}
    return cov


def replay_case(ctx, rep):
    """re-run a reported history: the real server under the monitors, and - for a correspondence report - against
    the model again.  True iff the monitors hold (and the bytes agree)."""
    logging.disable(logging.CRITICAL)
    steps = rep["steps"]
    upto = rep.get("upto", len(steps) - 1)
    steps = steps[:upto + 1]
    obs = replay_history(steps)
    ok = True
    for k, (s, o) in enumerate(zip(steps, obs)):
        if s["k"] != "conn":
            continue
        for sig, what in monitor_conn(s, o):
            print("  %s: %s" % (sig, what))
            ok = False
    if rep.get("probe") == "isolation":
        if not isolation_probe(steps, upto, obs):
            print("  c11:e2e-connection-depends-on-predecessor")
            ok = False
        return ok
    outs = run_models(ctx, [{"steps": steps, "obs": obs}])[0]
    for s, o, line in zip(steps, obs, outs[1:]):
        if s["k"] != "conn" or not line.startswith("{"):
            continue
        m = json.loads(line)
        if "conflict" in m:
            break
        diffs, _ = compare_conn(s, o, m)
        for d in diffs:
            print("  divergence: %s" % d[1][:600])
        if diffs:
            break
    return ok


if __name__ == "__main__":
    sys.path.insert(0, os.path.join(HERE, ".."))
    import vcheck

    class _Ctx(vcheck.Ctx):
        def report(self, sig, what, rep, no_input=False):
            self.reports = getattr(self, "reports", [])
            self.reports.append((sig, what, rep))
            if len(self.reports) <= int(os.environ.get("E2E_SHOW", "12")):
                print("REPORT", sig, what[:1500])
            return True
    tier = sys.argv[1] if len(sys.argv) > 1 else "quick"
    seed = int(os.environ.get("VERIF_SEED", "0") or 0)
    c = _Ctx("C12", tier, seed, None)
    n = int(os.environ["E2E_HIST"]) if os.environ.get("E2E_HIST") else None
    cov = run(c, random.Random("server-e2e-%s" % seed), n_hist=n)
    for k in sorted(cov):
        if isinstance(cov[k], dict):
            print("%s: %s" % (k, json.dumps(cov[k], sort_keys=True)))
    print(json.dumps({k: v for k, v in cov.items() if k not in ("rule", "samples") and not isinstance(v, dict)},
                     sort_keys=True))
    reps = getattr(c, "reports", [])
    print("reports: %d  signatures: %s" % (len(reps), dict(collections.Counter(r[0] for r in reps))))
    if os.environ.get("E2E_SAVE") and reps:
        with open(os.environ["E2E_SAVE"], "w") as f:
            json.dump([{"sig": r[0], "what": r[1], "replay": r[2]} for r in reps], f)
