"""
In-process driver of the real KmipEngine, speaking the same JSON line protocol
as lean/Drivers/Engine.lean.  Instrumentation is applied from here by
monkeypatching (clock, cryptography backend when scripted, item index); nothing
in /repo is edited.
"""
import copy
import json
import logging
import os
import shutil
import tempfile
import types
import warnings
import zlib

warnings.filterwarnings("ignore")

from kmip.core import enums, exceptions, primitives, attributes as cattr, objects as cobjects, secrets  # noqa: E402
from kmip.core import policy as core_policy  # noqa: E402
from kmip.core import misc as cmisc  # noqa: E402
from kmip.core import utils  # noqa: E402
from kmip.core.factories import attributes as attr_factory  # noqa: E402
from kmip.core.factories.attribute_values import AttributeValueFactory  # noqa: E402
from kmip.core.messages import contents, messages, payloads  # noqa: E402
from kmip.pie import objects as pobjects  # noqa: E402
from kmip.services.server import engine as engine_mod  # noqa: E402

AF = attr_factory.AttributeFactory()
VF = AttributeValueFactory()

ENUM_ATTRS = {
    "Object Type": enums.ObjectType,
    "Cryptographic Algorithm": enums.CryptographicAlgorithm,
    "Certificate Type": enums.CertificateType,
    "State": enums.State,
}
INT_ATTRS = {"Cryptographic Length", "Cryptographic Usage Mask", "Certificate Length", "Lease Time"}
TEXT_ATTRS = {"Unique Identifier", "Operation Policy Name", "Object Group", "Contact Information"}
BOOL_ATTRS = {"Sensitive", "Fresh"}
DATE_ATTRS = {"Initial Date", "Activation Date", "Process Start Date", "Protect Stop Date", "Deactivation Date",
              "Destroy Date", "Compromise Occurrence Date", "Compromise Date", "Archive Date", "Last Change Date"}

TAGS = {t.value: t for t in enums.AttributeType}


def sample_value(name):
    """a kind-correct sample AVal for an attribute name, or None when the attribute factory cannot build it"""
    if name in ENUM_ATTRS:
        return {"k": "enum", "v": list(ENUM_ATTRS[name])[0].value}
    if name in INT_ATTRS:
        return {"k": "int", "v": 12}
    if name in TEXT_ATTRS:
        return {"k": "text", "v": "1"}
    if name in BOOL_ATTRS:
        return {"k": "bool", "v": True}
    if name in DATE_ATTRS:
        return {"k": "date", "v": 1000}
    if name == "Name":
        return {"k": "name", "v": "n0", "t": 1}
    if name == "Application Specific Information":
        return {"k": "appinfo", "ns": "ssl", "d": "www"}
    if name == "Cryptographic Parameters":
        return {"k": "other"}
    return None


def quiet():
    logging.disable(logging.CRITICAL)


def version_obj(v):
    """10*major + minor; numbers from 1000 on are 1000*major + minor (protocol versions whose minor number has two or
    more digits, e.g. 1010 = 1.10, 1100 = 1.100 - never supported, but a client may send them)"""
    if v >= 1000:
        return contents.ProtocolVersion(v // 1000, v % 1000)
    return contents.ProtocolVersion(v // 10, v % 10)


def mask_list(n):
    return [m for m in enums.CryptographicUsageMask if m.value & n]


def attr_value_py(name, av):
    """JSON AVal -> the python value the AttributeFactory wants."""
    k = av["k"]
    if k == "enum":
        return ENUM_ATTRS[name](av["v"])
    if k == "int":
        if name == "Cryptographic Usage Mask":
            return mask_list(av["v"])
        return av["v"]
    if k in ("text", "bool", "date"):
        return av["v"]
    if k == "name":
        return cattr.Name.create(av["v"], enums.NameType(av["t"]))
    if k == "appinfo":
        return {"application_namespace": av["ns"], "application_data": av["d"]}
    if k == "other":
        if name == "Cryptographic Parameters":
            return {"block_cipher_mode": enums.BlockCipherMode.CBC}
        return None
    raise ValueError(k)


def build_attribute(ta):
    """1.x Attribute structure (name, index, value)."""
    name = ta["name"]
    if name.startswith("x-") or name not in TAGS:
        return cobjects.Attribute(
            attribute_name=cobjects.Attribute.AttributeName(name),
            attribute_index=None if ta["index"] is None else cobjects.Attribute.AttributeIndex(ta["index"]),
            attribute_value=cattr.CustomAttribute(ta["value"].get("v", "")))
    return AF.create_attribute(TAGS[name], attr_value_py(name, ta["value"]), ta["index"])


def build_primitive(ta):
    """2.0 form: the bare attribute primitive carrying its own tag."""
    name = ta["name"]
    tag = enums.Tags[enums.AttributeType(name).name]
    try:
        return VF.create_attribute_value_by_enum(tag, attr_value_py(name, ta["value"]))
    except NotImplementedError:
        av = ta["value"]
        k = av["k"]
        if k == "enum":
            return primitives.Enumeration(ENUM_ATTRS[name], value=ENUM_ATTRS[name](av["v"]), tag=tag)
        if k == "int":
            return primitives.Integer(av["v"], tag=tag)
        if k == "text":
            return primitives.TextString(av["v"], tag=tag)
        if k == "bool":
            return primitives.Boolean(av["v"], tag=tag)
        if k == "date":
            return primitives.DateTime(av["v"], tag=tag)
        raise


def build_template(t):
    if t is None:
        return None
    names = [cobjects.TemplateAttribute.Name.create("tmpl%d" % i, enums.NameType.UNINTERPRETED_TEXT_STRING)
             if hasattr(cobjects.TemplateAttribute, "Name") else
             cattr.Name.create("tmpl%d" % i, enums.NameType.UNINTERPRETED_TEXT_STRING)
             for i in range(t["tnames"])]
    return cobjects.TemplateAttribute(names=names, attributes=[build_attribute(a) for a in t["attrs"]])


def sub_template(cls, t):
    if t is None:
        return None
    base = build_template(t)
    return cobjects.TemplateAttribute(names=base.names, attributes=base.attributes, tag=cls)


def build_secret(o):
    ot = enums.ObjectType(o["otype"])
    val = bytes.fromhex(o["value"])
    from kmip.core.factories.secrets import SecretFactory
    sf = SecretFactory()
    if ot in (enums.ObjectType.SYMMETRIC_KEY, enums.ObjectType.PUBLIC_KEY, enums.ObjectType.PRIVATE_KEY) and \
            (o["alg"] is None or o["len"] is None):
        # a key block without algorithm / length (both optional on the wire)
        kb = cobjects.KeyBlock(
            key_format_type=cmisc.KeyFormatType(enums.KeyFormatType(o["format"])),
            key_compression_type=None,
            key_value=cobjects.KeyValue(cobjects.KeyMaterial(val)),
            cryptographic_algorithm=None if o["alg"] is None else cattr.CryptographicAlgorithm(
                enums.CryptographicAlgorithm(o["alg"])),
            cryptographic_length=None if o["len"] is None else cattr.CryptographicLength(o["len"]),
            key_wrapping_data=None)
        cls = {enums.ObjectType.SYMMETRIC_KEY: secrets.SymmetricKey, enums.ObjectType.PUBLIC_KEY: secrets.PublicKey,
               enums.ObjectType.PRIVATE_KEY: secrets.PrivateKey}[ot]
        return cls(kb)
    if ot in (enums.ObjectType.SYMMETRIC_KEY, enums.ObjectType.PUBLIC_KEY, enums.ObjectType.PRIVATE_KEY):
        return sf.create(ot, {"cryptographic_algorithm": enums.CryptographicAlgorithm(o["alg"]),
                              "cryptographic_length": o["len"],
                              "key_format_type": enums.KeyFormatType(o["format"]),
                              "key_value": val})
    if ot == enums.ObjectType.SPLIT_KEY:
        return sf.create(ot, {"cryptographic_algorithm": enums.CryptographicAlgorithm(o["alg"]),
                              "cryptographic_length": o["len"],
                              "key_format_type": enums.KeyFormatType(o["format"]),
                              "key_value": val, "split_key_parts": 3, "key_part_identifier": 1,
                              "split_key_threshold": 2, "split_key_method": enums.SplitKeyMethod.XOR,
                              "prime_field_size": None})
    if ot == enums.ObjectType.CERTIFICATE:
        return secrets.Certificate(enums.CertificateType(o["subtype"]), val)
    if ot == enums.ObjectType.SECRET_DATA:
        return sf.create(ot, {"key_format_type": enums.KeyFormatType.OPAQUE, "key_value": val,
                              "secret_data_type": enums.SecretDataType(o["subtype"])})
    if ot == enums.ObjectType.OPAQUE_DATA:
        return secrets.OpaqueObject(secrets.OpaqueObject.OpaqueDataType(enums.OpaqueDataType(o["subtype"])),
                                    secrets.OpaqueObject.OpaqueDataValue(val))
    raise ValueError(ot)


CP = cattr.CryptographicParameters


def some_params(cp=None):
    if cp is None:
        return CP(block_cipher_mode=enums.BlockCipherMode.CBC, padding_method=enums.PaddingMethod.PKCS5,
                  hashing_algorithm=enums.HashingAlgorithm.SHA_256,
                  cryptographic_algorithm=enums.CryptographicAlgorithm.AES)

    def e(E, k):
        return None if cp.get(k) is None else E(cp[k])
    return CP(block_cipher_mode=e(enums.BlockCipherMode, "mode"), padding_method=e(enums.PaddingMethod, "padding"),
              hashing_algorithm=e(enums.HashingAlgorithm, "hash"),
              cryptographic_algorithm=e(enums.CryptographicAlgorithm, "alg"),
              digital_signature_algorithm=e(enums.DigitalSignatureAlgorithm, "dsa"),
              tag_length=cp.get("taglen"), random_iv=cp.get("random_iv"),
              # the remaining optional fields of the structure (a request may carry them; the server has to treat a
              # pair Encrypt / Decrypt that states the same parameters as inverse operations whatever they are)
              iv_length=cp.get("iv_length"), fixed_field_length=cp.get("fixed_field_length"),
              invocation_field_length=cp.get("invocation_field_length"), counter_length=cp.get("counter_length"),
              initial_counter_value=cp.get("initial_counter_value"),
              key_role_type=None if cp.get("key_role") is None else enums.KeyRoleType(cp["key_role"]))


def hexb(it, key, default):
    v = it.get(key)
    return default if v is None else bytes.fromhex(v)


def build_payload(it, version):
    op = it["op"]
    uid = it.get("uid")
    if op == "create":
        return enums.Operation.CREATE, payloads.CreateRequestPayload(
            enums.ObjectType(it["otype"]), build_template(it["tmpl"]))
    if op == "createKeyPair":
        T = enums.Tags
        return enums.Operation.CREATE_KEY_PAIR, payloads.CreateKeyPairRequestPayload(
            common_template_attribute=sub_template(T.COMMON_TEMPLATE_ATTRIBUTE, it["common"]),
            private_key_template_attribute=sub_template(T.PRIVATE_KEY_TEMPLATE_ATTRIBUTE, it["priv"]),
            public_key_template_attribute=sub_template(T.PUBLIC_KEY_TEMPLATE_ATTRIBUTE, it["pub"]))
    if op == "register":
        return enums.Operation.REGISTER, payloads.RegisterRequestPayload(
            object_type=enums.ObjectType(it["otype"]), template_attribute=build_template(it["tmpl"]),
            managed_object=None if it["obj"] is None else build_secret(it["obj"]))
    if op == "deriveKey":
        return enums.Operation.DERIVE_KEY, payloads.DeriveKeyRequestPayload(
            object_type=enums.ObjectType(it["otype"]), unique_identifiers=list(it["uids"]),
            derivation_method=enums.DerivationMethod(it.get("method", 2)),
            derivation_parameters=cattr.DerivationParameters(
                cryptographic_parameters=None if it.get("cp") == "absent" else some_params(it.get("cp")),
                derivation_data=None if it.get("ddata_hex") == "" else hexb(it, "ddata_hex", b"\x01\x02"),
                initialization_vector=hexb(it, "div_hex", None),
                salt=hexb(it, "salt_hex", b"salt1234" if it.get("method") in (1, 5) else None),
                iteration_count=it.get("iters", 10 if it.get("method") == 1 else None)),
            template_attribute=build_template(it["tmpl"]))
    if op == "locate":
        return enums.Operation.LOCATE, payloads.LocateRequestPayload(
            maximum_items=it["max"], offset_items=it["offset"],
            storage_status_mask=it.get("ssm"),
            object_group_member=None if it.get("ogm") is None else enums.ObjectGroupMember(it["ogm"]),
            attributes=[build_attribute(a) for a in it["attrs"]])
    if op == "get":
        w = it["wrap"]
        spec = None
        if w is not None:
            eki = None
            if w["enckey"] is not None:
                eki = cobjects.EncryptionKeyInformation(
                    unique_identifier=w["enckey"],
                    cryptographic_parameters=CP(block_cipher_mode=enums.BlockCipherMode.NIST_KEY_WRAP)
                    if w["encparams"] else None)
            mki = None
            if w["mackey"]:
                mki = cobjects.MACSignatureKeyInformation(unique_identifier="1")
            spec = cobjects.KeyWrappingSpecification(
                wrapping_method=enums.WrappingMethod(w["method"]),
                encryption_key_information=eki, mac_signature_key_information=mki,
                attribute_names=["Name"] * w["attrnames"] or None,
                encoding_option=None if w["encoding"] is None else enums.EncodingOption(w["encoding"]))
        return enums.Operation.GET, payloads.GetRequestPayload(
            unique_identifier=uid,
            key_format_type=None if it["format"] is None else enums.KeyFormatType(it["format"]),
            key_compression_type=enums.KeyCompressionType.EC_PUBLIC_KEY_TYPE_UNCOMPRESSED if it["compression"] else None,
            key_wrapping_specification=spec)
    if op == "getAttributes":
        return enums.Operation.GET_ATTRIBUTES, payloads.GetAttributesRequestPayload(
            unique_identifier=uid, attribute_names=list(it["names"]) or None)
    if op == "getAttributeList":
        return enums.Operation.GET_ATTRIBUTE_LIST, payloads.GetAttributeListRequestPayload(unique_identifier=uid)
    if op == "activate":
        return enums.Operation.ACTIVATE, payloads.ActivateRequestPayload(
            unique_identifier=None if uid is None else cattr.UniqueIdentifier(uid))
    if op == "revoke":
        rr = None
        if it["code"] is not None:
            rr = cobjects.RevocationReason(code=enums.RevocationReasonCode(it["code"]))
        cd = None
        if it.get("cdate") is not None:
            cd = primitives.DateTime(it["cdate"], tag=enums.Tags.COMPROMISE_OCCURRENCE_DATE)
        return enums.Operation.REVOKE, payloads.RevokeRequestPayload(
            unique_identifier=None if uid is None else cattr.UniqueIdentifier(uid), revocation_reason=rr,
            compromise_occurrence_date=cd)
    if op == "destroy":
        return enums.Operation.DESTROY, payloads.DestroyRequestPayload(
            unique_identifier=None if uid is None else cattr.UniqueIdentifier(uid))
    if op == "query":
        return enums.Operation.QUERY, payloads.QueryRequestPayload(
            query_functions=[enums.QueryFunction(f) for f in it["functions"]])
    if op == "discoverVersions":
        return enums.Operation.DISCOVER_VERSIONS, payloads.DiscoverVersionsRequestPayload(
            protocol_versions=[version_obj(v) for v in it["versions"]])
    if op in ("encrypt", "decrypt"):
        cls = payloads.EncryptRequestPayload if op == "encrypt" else payloads.DecryptRequestPayload
        return (enums.Operation.ENCRYPT if op == "encrypt" else enums.Operation.DECRYPT), cls(
            unique_identifier=uid, cryptographic_parameters=some_params(it.get("cp")) if it["params"] else None,
            data=hexb(it, "data_hex", b"\x00" * 16),
            iv_counter_nonce=None if it.get("iv_hex") == "" else hexb(it, "iv_hex", b"\x00" * 16),
            **({"auth_tag": hexb(it, "tag_hex", None)} if op == "decrypt" and it.get("tag_hex") else {}),
            **({"auth_additional_data": hexb(it, "aad_hex", None)} if it.get("aad_hex") else {}))
    if op == "sign":
        return enums.Operation.SIGN, payloads.SignRequestPayload(
            unique_identifier=uid, cryptographic_parameters=some_params(it.get("cp")) if it["params"] else None,
            data=hexb(it, "data_hex", b"abc"))
    if op == "signatureVerify":
        return enums.Operation.SIGNATURE_VERIFY, payloads.SignatureVerifyRequestPayload(
            unique_identifier=uid, cryptographic_parameters=some_params(it.get("cp")) if it["params"] else None,
            data=hexb(it, "data_hex", b"abc"), signature_data=hexb(it, "sig_hex", b"sig"))
    if op == "mac":
        params = None
        if it["alg"] is not None:
            params = CP(cryptographic_algorithm=enums.CryptographicAlgorithm(it["alg"]))
        return enums.Operation.MAC, payloads.MACRequestPayload(
            unique_identifier=None if uid is None else cattr.UniqueIdentifier(uid),
            cryptographic_parameters=params, data=cobjects.Data(b"abc") if it["data"] else None)
    if op == "setAttribute":
        return enums.Operation.SET_ATTRIBUTE, payloads.SetAttributeRequestPayload(
            unique_identifier=uid, new_attribute=cobjects.NewAttribute(attribute=build_primitive(it["attr"])))
    if op == "modifyAttribute":
        if version >= 20:
            return enums.Operation.MODIFY_ATTRIBUTE, payloads.ModifyAttributeRequestPayload(
                unique_identifier=uid,
                current_attribute=None if it["current"] is None
                else cobjects.CurrentAttribute(attribute=build_primitive(it["current"])),
                new_attribute=None if it["new"] is None
                else cobjects.NewAttribute(attribute=build_primitive(it["new"])))
        return enums.Operation.MODIFY_ATTRIBUTE, payloads.ModifyAttributeRequestPayload(
            unique_identifier=uid, attribute=None if it["attr"] is None else build_attribute(it["attr"]))
    if op == "deleteAttribute":
        if version >= 20:
            return enums.Operation.DELETE_ATTRIBUTE, payloads.DeleteAttributeRequestPayload(
                unique_identifier=uid,
                current_attribute=None if it["current"] is None
                else cobjects.CurrentAttribute(attribute=build_primitive(it["current"])),
                attribute_reference=None if it["reference"] is None
                else cobjects.AttributeReference(vendor_identification="v", attribute_name=it["reference"]))
        return enums.Operation.DELETE_ATTRIBUTE, payloads.DeleteAttributeRequestPayload(
            unique_identifier=uid, attribute_name=it["name"], attribute_index=it["index"])
    if op == "unsupported":
        return enums.Operation(it["code"]), None
    raise ValueError(op)


def build_request(req):
    v = req["version"]
    auth = None
    if req.get("cred") is not None:
        # the optional Authentication of the request header: a Username and Password credential naming SOMEBODY ELSE
        # than the certificate does (the server's identity comes from the certificate and the directory alone)
        if req["cred"].get("dev"):
            cv = cobjects.DeviceCredential(device_serial_number=req["cred"].get("serial"), password=req["cred"].get("p"),
                                           device_identifier=req["cred"].get("u"), network_identifier=req["cred"].get("net"))
            ct = enums.CredentialType.DEVICE
        else:
            cv = cobjects.UsernamePasswordCredential(username=req["cred"]["u"], password=req["cred"].get("p"))
            ct = enums.CredentialType.USERNAME_AND_PASSWORD
        auth = contents.Authentication(credentials=[cobjects.Credential(credential_type=ct, credential_value=cv)])
    hdr = messages.RequestHeader(
        authentication=auth,
        batch_order_option=None if req.get("border") is None else contents.BatchOrderOption(req["border"]),
        protocol_version=version_obj(v),
        maximum_response_size=None if req.get("maxsize") is None else contents.MaximumResponseSize(req["maxsize"]),
        asynchronous_indicator=None if req.get("async") is None else contents.AsynchronousIndicator(req["async"]),
        batch_error_cont_option=None if req.get("bopt") is None
        else contents.BatchErrorContinuationOption(enums.BatchErrorContinuationOption(req["bopt"])),
        time_stamp=None if req.get("ts") is None else contents.TimeStamp(req["ts"]),
        batch_count=contents.BatchCount(len(req["items"])))
    items = []
    for it in req["items"]:
        op, pl = build_payload(it, v)
        items.append(messages.RequestBatchItem(
            operation=contents.Operation(op),
            unique_batch_item_id=None if it.get("bid") is None else contents.UniqueBatchItemID(it["bid"].encode()),
            request_payload=pl))
    return messages.RequestMessage(request_header=hdr, batch_items=items)


# ---------------------------------------------------------------- responses
def aval_of(name, v):
    """attribute value object -> JSON AVal"""
    if isinstance(v, cattr.Name):
        return {"k": "name", "v": v.name_value.value, "t": v.name_type.value.value}
    if isinstance(v, cattr.ApplicationSpecificInformation):
        return {"k": "appinfo", "ns": v.application_namespace, "d": v.application_data}
    if isinstance(v, primitives.Enumeration):
        return {"k": "enum", "v": v.value.value}
    if isinstance(v, primitives.Boolean):
        return {"k": "bool", "v": bool(v.value)}
    if isinstance(v, primitives.DateTime):
        return {"k": "date", "v": v.value}
    if isinstance(v, (primitives.Integer, primitives.LongInteger, primitives.Interval)):
        return {"k": "int", "v": v.value}
    if isinstance(v, primitives.TextString):
        return {"k": "text", "v": v.value}
    return {"k": "other"}


def tattr_of(a):
    if a is None:
        return None
    idx = a.attribute_index.value if a.attribute_index is not None else None
    name = a.attribute_name.value
    return {"name": name, "index": idx, "value": aval_of(name, a.attribute_value)}


def uid_str(u):
    if u is None:
        return "None"
    if hasattr(u, "value"):
        return str(u.value)
    return str(u)


def data_of(op, p):
    O = enums.Operation
    if op in (O.CREATE, O.REGISTER, O.DERIVE_KEY, O.ACTIVATE, O.REVOKE, O.DESTROY, O.SET_ATTRIBUTE):
        return {"k": "uid", "uid": uid_str(p.unique_identifier)}
    if op in (O.MODIFY_ATTRIBUTE, O.DELETE_ATTRIBUTE):
        return {"k": "uidattr", "uid": uid_str(p.unique_identifier), "attr": tattr_of(getattr(p, "attribute", None))}
    if op == O.CREATE_KEY_PAIR:
        return {"k": "keypair", "priv": uid_str(p.private_key_unique_identifier),
                "pub": uid_str(p.public_key_unique_identifier)}
    if op == O.LOCATE:
        return {"k": "uids", "uids": [str(u) for u in p.unique_identifiers]}
    if op == O.GET:
        s = p.secret
        d = {"k": "object", "otype": p.object_type.value, "uid": uid_str(p.unique_identifier),
             "alg": None, "len": None, "format": None, "subtype": None, "wrapped": False}
        if isinstance(s, secrets.Certificate):
            d["value"] = s.certificate_value.value.hex()
            d["subtype"] = s.certificate_type.value.value
        elif isinstance(s, secrets.OpaqueObject):
            d["value"] = s.opaque_data_value.value.hex()
            d["subtype"] = s.opaque_data_type.value.value
        else:
            kb = s.key_block
            km = kb.key_value.key_material
            d["value"] = (km.value if hasattr(km, "value") else bytes(km)).hex() if not isinstance(kb.key_value, bytes) else kb.key_value.hex()
            d["format"] = kb.key_format_type.value.value
            if kb.cryptographic_algorithm is not None:
                d["alg"] = kb.cryptographic_algorithm.value.value
            if kb.cryptographic_length is not None:
                d["len"] = kb.cryptographic_length.value
            d["wrapped"] = kb.key_wrapping_data is not None
            if isinstance(s, secrets.SecretData):
                d["subtype"] = s.secret_data_type.value.value
        return d
    if op == O.GET_ATTRIBUTES:
        return {"k": "attrs", "uid": uid_str(p.unique_identifier), "attrs": [tattr_of(a) for a in p.attributes]}
    if op == O.GET_ATTRIBUTE_LIST:
        return {"k": "names", "uid": uid_str(p.unique_identifier), "names": list(p.attribute_names)}
    if op == O.QUERY:
        return {"k": "ops", "ops": [o.value for o in (p.operations or [])],
                "vendor": p.vendor_identification is not None}
    if op == O.DISCOVER_VERSIONS:
        return {"k": "versions", "versions": [v.major * 10 + v.minor for v in p.protocol_versions]}
    if op in (O.ENCRYPT, O.DECRYPT):
        return {"k": "crypto", "uid": uid_str(p.unique_identifier), "c": p.data.hex()}
    if op == O.SIGN:
        return {"k": "crypto", "uid": uid_str(p.unique_identifier), "c": p.signature_data.hex()}
    if op == O.SIGNATURE_VERIFY:
        return {"k": "crypto", "uid": uid_str(p.unique_identifier),
                "c": p.validity_indicator == enums.ValidityIndicator.VALID}
    if op == O.MAC:
        return {"k": "crypto", "uid": uid_str(p.unique_identifier), "c": p.mac_data.value.hex()}
    return {"k": "unknown"}


_EMPTY_MARK = "\x01verif-empty\x01"


def _substitute_empty(req):
    """deep copy of the request with every empty text of an Application Specific Information value replaced by a
    placeholder; -> (copy, whether anything was replaced)"""
    used = [False]

    def walk(x):
        if isinstance(x, dict):
            y = {k: walk(v) for k, v in x.items()}
            if y.get("k") == "appinfo":
                for f in ("ns", "d"):
                    if y.get(f) == "":
                        y[f] = _EMPTY_MARK
                        used[0] = True
            return y
        if isinstance(x, list):
            return [walk(v) for v in x]
        return x
    return walk(req), used[0]


def _empty_placeholders(b):
    """every Text String whose value is the placeholder becomes an empty Text String; enclosing lengths follow"""
    mark = _EMPTY_MARK.encode()
    b = bytearray(b)
    while True:
        # index of every item: (offset, type, length, end, enclosing structure offsets)
        hit = None
        stack = [(0, len(b), [])]
        while stack and hit is None:
            lo, hi, parents = stack.pop()
            i = lo
            while i + 8 <= hi:
                typ, ln = b[i + 3], int.from_bytes(b[i + 4:i + 8], "big")
                end = i + 8 + ln + (8 - ln % 8) % 8
                if typ == 1:
                    stack.append((i + 8, i + 8 + ln, parents + [i]))
                elif typ == 7 and bytes(b[i + 8:i + 8 + ln]) == mark:
                    hit = (i, end, parents)
                    break
                i = end
        if hit is None:
            return bytes(b)
        i, end, parents = hit
        gone = end - (i + 8)
        b[i + 4:i + 8] = (0).to_bytes(4, "big")
        del b[i + 8:end]
        for p_ in parents:
            ln = int.from_bytes(b[p_ + 4:p_ + 8], "big")
            b[p_ + 4:p_ + 8] = (ln - gone).to_bytes(4, "big")


class BuildRefused(Exception):
    """build_request could not construct the request objects (a constructor or setter of /repo raised)"""


class FakeCrypto(object):
    """Scripted stand-in for CryptographyEngine: answers what the current item's script says."""

    def __init__(self, owner):
        self.owner = owner
        self.calls = []

    def _script(self, what):
        self.calls.append(what)
        sc = self.owner.current_script()
        if sc is None or sc["k"] == "internal":
            raise RuntimeError("scripted backend failure")
        if sc["k"] == "kmip":
            cls = {7: exceptions.InvalidField, 10: exceptions.CryptographicFailure}.get(sc["reason"])
            if cls is None:
                raise exceptions.KmipError(status=enums.ResultStatus.OPERATION_FAILED,
                                           reason=enums.ResultReason(sc["reason"]), message="scripted")
            raise cls("scripted")
        return sc

    def create_symmetric_key(self, algorithm, length):
        sc = self._script("create_symmetric_key")
        return {"value": bytes.fromhex(sc["t"]), "format": enums.KeyFormatType.RAW}

    def create_asymmetric_key_pair(self, algorithm, length):
        sc = self._script("create_asymmetric_key_pair")
        return ({"value": bytes.fromhex(sc["pub"]), "format": enums.KeyFormatType(sc["pubfmt"])},
                {"value": bytes.fromhex(sc["priv"]), "format": enums.KeyFormatType(sc["privfmt"])})

    def derive_key(self, **kw):
        return bytes.fromhex(self._script("derive_key")["t"])

    def wrap_key(self, **kw):
        return bytes.fromhex(self._script("wrap_key")["t"])

    def encrypt(self, *a, **kw):
        return {"cipher_text": bytes.fromhex(self._script("encrypt")["t"]), "iv_nonce": None, "auth_tag": None}

    def decrypt(self, *a, **kw):
        return bytes.fromhex(self._script("decrypt")["t"])

    def sign(self, **kw):
        return bytes.fromhex(self._script("sign")["t"])

    def verify_signature(self, **kw):
        return self._script("verify_signature")["v"]

    def mac(self, *a, **kw):
        return bytes.fromhex(self._script("mac")["t"])


class RecordingCrypto(object):
    """Wraps the real CryptographyEngine: every call is executed for real and its outcome is
    recorded as the oracle value the Lean model is given for that batch item."""

    METHODS = ["create_symmetric_key", "create_asymmetric_key_pair", "derive_key", "wrap_key", "encrypt", "decrypt",
               "sign", "verify_signature", "mac"]

    def __init__(self, owner, real):
        self.owner = owner
        self.real = real
        self.calls = []

    def __getattr__(self, name):
        real = getattr(self.real, name)
        if name not in self.METHODS:
            return real
        owner = self.owner

        def call(*a, **kw):
            try:
                r = real(*a, **kw)
            except exceptions.KmipError as e:
                owner.record_crypto({"k": "kmip", "reason": e.reason.value})
                raise
            except Exception:
                owner.record_crypto({"k": "internal"})
                raise
            if name == "create_symmetric_key":
                owner.record_crypto({"k": "ok", "t": r["value"].hex()})
            elif name == "create_asymmetric_key_pair":
                owner.record_crypto({"k": "ok2", "pub": r[0]["value"].hex(), "priv": r[1]["value"].hex(),
                                     "pubfmt": r[0]["format"].value, "privfmt": r[1]["format"].value})
            elif name == "encrypt":
                owner.record_crypto({"k": "ok", "t": r["cipher_text"].hex()})
            elif name == "verify_signature":
                owner.record_crypto({"k": "verdict", "v": bool(r)})
            else:
                owner.record_crypto({"k": "ok", "t": bytes(r).hex()})
            return r
        return call


class Clock(object):
    """Replacement for the `time` module inside engine.py (deterministic clock)."""

    def __init__(self):
        import time as _t
        self._t = _t
        self.now = 1000

    def time(self):
        return float(self.now)

    def __getattr__(self, k):
        return getattr(self._t, k)


CLOCK = Clock()


def policies_from_json(pj):
    """[[name, {preset: objtable|None, groups: [[g, objtable]]|None}], …] -> engine policy dict"""
    def objtable(t):
        return {enums.ObjectType(ot): {enums.Operation(op): (enums.Policy[p] if p in enums.Policy.__members__ else p)
                                       for op, p in ops} for ot, ops in t}
    out = {}
    for name, b in pj:
        d = {}
        if b.get("preset") is not None:
            d["preset"] = objtable(b["preset"])
        if b.get("groups") is not None:
            d["groups"] = {g: objtable(t) for g, t in b["groups"]}
        out[name] = d
    return out


def policies_to_json(pol):
    def objtable(t):
        return [[ot.value, [[op.value, p.name if isinstance(p, enums.Policy) else str(p)] for op, p in ops.items()]]
                for ot, ops in t.items()]
    out = []
    for name, b in pol.items():
        out.append([name, {"preset": objtable(b["preset"]) if "preset" in b else None,
                           "groups": [[g, objtable(t)] for g, t in b["groups"].items()] if "groups" in b else None}])
    return out


_CURRENT = [None]


class _Predecoded(Exception):
    pass


class ImplEngine(object):
    _use_msg = None          # a request message decoded AHEAD of time by the caller (decode_wire), used by the next request()
    wire_door = 0            # requests that travelled through the real encoder + decoder (class default: some checks
    #                          build the object without __init__)
    def __init__(self, scripted_crypto=True, workdir=None):
        quiet()
        self.dir = tempfile.mkdtemp(prefix="vimpl", dir=workdir)
        self.db = os.path.join(self.dir, "db.sqlite")
        self.scripted = scripted_crypto
        self.clock = CLOCK          # one deterministic clock shared by every engine in this process
        engine_mod.time = CLOCK
        self.policies = copy.deepcopy(core_policy.policies)
        self.engine = None
        self._scripts = []
        self._item = -1
        self.wire_door = 0
        self.internal_errors = []
        self._open()

    # -- lifecycle ----------------------------------------------------------
    def _open(self):
        import keygen_cap
        keygen_cap.install()
        self.engine = engine_mod.KmipEngine(policies=self.policies, database_path=self.db)
        if self.scripted:
            self.engine._cryptography_engine = FakeCrypto(self)
        else:
            self.engine._cryptography_engine = RecordingCrypto(self, self.engine._cryptography_engine)
        orig = self.engine._process_operation
        me = self

        def counted(operation, payload):
            me._item += 1
            return orig(operation, payload)
        self.engine._process_operation = counted
        # capture internal errors (exception class + innermost repo frame)
        # (the logger is shared by all engines of the process: wrap it once, record into the engine now open)
        lg = self.engine._logger
        _CURRENT[0] = self
        if not getattr(lg, "_verif_wrapped", False):
            orig_exc = lg.exception

            def exc(e, *a, **k):
                import traceback
                tb = traceback.extract_tb(e.__traceback__) if isinstance(e, BaseException) else []
                fr = [f for f in tb if "/kmip/" in f.filename]
                site = "%s:%s" % (os.path.basename(fr[-1].filename), fr[-1].name) if fr else "?"
                if _CURRENT[0] is not None:
                    _CURRENT[0].internal_errors.append({"exc": type(e).__name__, "site": site, "msg": str(e)[:200]})
                return orig_exc(e, *a, **k)
            lg.exception = exc
            lg._verif_wrapped = True

    def close(self):
        try:
            self.engine._data_store.dispose()
        except Exception:
            pass
        shutil.rmtree(self.dir, ignore_errors=True)

    def reset(self):
        self.engine._data_store.dispose()
        for f in os.listdir(self.dir):
            os.remove(os.path.join(self.dir, f))
        self.policies = copy.deepcopy(core_policy.policies)
        self._open()

    def restart(self):
        self.engine._data_store.dispose()
        self._open()

    def set_policies(self, pj):
        self.policies = policies_from_json(pj)
        self.engine._operation_policies = self.policies

    def record_crypto(self, outcome):
        """real backend: remember what it answered for the current item (first call wins)"""
        if 0 <= self._item < len(self._recorded) and self._recorded[self._item] is None:
            self._recorded[self._item] = outcome

    def current_script(self):
        if 0 <= self._item < len(self._scripts):
            return self._scripts[self._item]
        return None

    # -- protocol -----------------------------------------------------------
    def request(self, now, ident, req):
        _CURRENT[0] = self
        self.clock.now = now
        self._scripts = [it.get("crypto") for it in req["items"]]
        self._recorded = [None] * len(req["items"])
        self._item = -1
        self.internal_errors = []
        try:
            # (KMIP 2.0 requests keep the object door: their wire form cannot carry everything the abstract request
            # holds - attribute indices, template names - so a decoded copy would not be the request the model is given)
            msg = None
            if self._use_msg is not None:
                msg, self._use_msg = self._use_msg, None
                raise _Predecoded()
            req_b, smuggled = _substitute_empty(req) if req["version"] < 20 else (req, False)
            ops = [it.get("op") for it in req["items"]]
            wire = smuggled or ("locate" in ops and (req["version"] < 20 or all(o == "locate" for o in ops))) \
                or (req["version"] < 20 and zlib.crc32(json.dumps(req, sort_keys=True, default=str).encode()) % 3 == 0)
            used_wire = False
            if wire:
                # the WIRE door: the request is encoded and decoded again as the session would (read() builds the
                # payload fields itself - e.g. the filter list of Locate - and assigns empty text strings directly,
                # which no constructor would accept): encode with placeholders, empty them in the bytes, decode
                self.wire_door += 1
                try:
                    v = req["version"]
                    kv = contents.protocol_version_to_kmip_version(version_obj(v)) or enums.KMIPVersion.KMIP_1_2
                    st = utils.BytearrayStream()
                    build_request(req_b).write(st, kmip_version=kv)
                    raw = _empty_placeholders(bytes(st.buffer))
                    msg = messages.RequestMessage()
                    dv = contents.protocol_version_to_kmip_version(self.engine.default_protocol_version)
                    msg.read(utils.BytearrayStream(raw), kmip_version=dv)
                    used_wire = True
                except Exception:
                    msg = None              # not encodable / decodable as a whole: the object door decides
                    self.wire_door -= 1
            if msg is None:
                msg = build_request(req)
        except _Predecoded:
            used_wire = True
        except Exception as e:
            # the library's constructors / setters refuse a value the generator holds legal: this request cannot be
            # presented through this (object-level) door; it is dropped, never guessed at
            raise BuildRefused("%s: %s" % (type(e).__name__, str(e)[:200]))
        groups = ident["groups"]
        cred = (ident["user"], None if groups is None else list(groups))
        try:
            resp, max_size, ver = self.engine.process_request(msg, cred)
        except exceptions.KmipError as e:
            return {"rejected": e.reason.value, "msg": str(e)}
        except Exception as e:
            # anything else that leaves process_request is answered by the session with ONE General Failure error
            # response (session.py l.226-237) - whatever the items had already done
            import traceback
            fr = [f for f in traceback.extract_tb(e.__traceback__) if "/kmip/" in f.filename]
            self.internal_errors.append({"exc": type(e).__name__, "msg": str(e)[:200],
                                         "site": "%s:%s" % (os.path.basename(fr[-1].filename), fr[-1].name) if fr else "?",
                                         "op": "process_request"})
            return {"rejected": enums.ResultReason.GENERAL_FAILURE.value,
                    "msg": "An unexpected error occurred while processing request. See server logs for more information.",
                    "_exception": "%s: %s" % (type(e).__name__, str(e)[:200])}
        finally:
            if not self.scripted:
                # hand the recorded backend answers to the model as its oracle
                for it, rec in zip(req["items"], self._recorded):
                    if rec is None and it.get("op") == "deriveKey" and it.get("cp") == "absent":
                        # Derivation Parameters without Cryptographic Parameters are refused by the engine before the
                        # backend is asked (engine.py _process_derive_key, fix 0982c9e); the engine model has no such
                        # field in its payload: the refusal is handed to it as the backend's answer
                        rec = {"k": "kmip", "reason": 7}
                    it["crypto"] = rec
        out = []
        for bi in resp.batch_items:
            r = {"op": bi.operation.value.value,
                 "bid": None if bi.unique_batch_item_id is None else bi.unique_batch_item_id.value.decode()}
            if bi.result_status.value == enums.ResultStatus.SUCCESS:
                r["status"] = "ok"
                r["data"] = data_of(bi.operation.value, bi.response_payload)
                if bi.operation.value == enums.Operation.ENCRYPT:
                    # (outside the compared observation: what a client needs to decrypt again)
                    tg, ivn = getattr(bi.response_payload, "auth_tag", None), getattr(bi.response_payload, "iv_counter_nonce", None)
                    r["_tag"] = None if tg is None else bytes(tg).hex()
                    r["_iv"] = None if ivn is None else bytes(ivn).hex()
            else:
                r["status"] = "fail"
                r["reason"] = bi.result_reason.value.value if bi.result_reason else None
                r["msg"] = bi.result_message.value if bi.result_message else None
            out.append(r)
        hv = resp.response_header.protocol_version
        # what the session does next (session.py: response.write under the request's version; a failure there is
        # answered General Failure): can the response be encoded at all?
        enc_err = None
        try:
            kv = contents.protocol_version_to_kmip_version(ver)
            resp.write(utils.BytearrayStream(), kmip_version=kv)
        except Exception as e:
            import traceback
            bad = []
            for k, bi in enumerate(resp.batch_items):
                try:
                    bi.write(utils.BytearrayStream(), kmip_version=kv)
                except Exception:
                    bad.append(k)
            fr = [f for f in traceback.extract_tb(e.__traceback__) if "/kmip/" in f.filename]
            enc_err = {"exc": type(e).__name__, "msg": str(e)[:200], "items": bad,
                       "site": "%s:%s" % (os.path.basename(fr[-1].filename), fr[-1].name) if fr else "?"}
        if enc_err is not None:
            return {"results": out, "_version": hv.major * 10 + hv.minor, "_encode_error": enc_err, "_wire": used_wire,
                    "_batch_count": resp.response_header.batch_count.value,
                    "_has_timestamp": resp.response_header.time_stamp is not None}
        return {"results": out, "_version": hv.major * 10 + hv.minor, "_wire": used_wire,
                "_batch_count": resp.response_header.batch_count.value,
                "_has_timestamp": resp.response_header.time_stamp is not None}

    def decode_wire(self, req):
        """the request as a session would hand it to the engine: encoded, then decoded by RequestMessage.read under the
        server's default version -> message, or None when it cannot be encoded / decoded as a whole"""
        try:
            v = req["version"]
            kv = contents.protocol_version_to_kmip_version(version_obj(v)) or enums.KMIPVersion.KMIP_1_2
            st = utils.BytearrayStream()
            build_request(req).write(st, kmip_version=kv)
            msg = messages.RequestMessage()
            dv = contents.protocol_version_to_kmip_version(self.engine.default_protocol_version)
            msg.read(utils.BytearrayStream(bytes(st.buffer)), kmip_version=dv)
            return msg
        except Exception:
            return None

    def dump(self):
        from sqlalchemy.orm import sessionmaker
        S = sessionmaker(bind=self.engine._data_store)
        objs = []
        with S() as s:
            # the usage mask as the DATABASE holds it (one integer column), not as the column type decodes it on load
            import sqlalchemy
            raw_mask = dict((int(u), m) for u, m in s.execute(sqlalchemy.text(
                "SELECT uid, cryptographic_usage_mask FROM crypto_objects")).fetchall())
            for o in s.query(pobjects.ManagedObject).order_by(pobjects.ManagedObject.unique_identifier).all():
                st = getattr(o, "state", None)
                masks = getattr(o, "cryptographic_usage_masks", None)
                sub = None
                if hasattr(o, "certificate_type"):
                    sub = o.certificate_type.value
                elif hasattr(o, "data_type"):
                    sub = o.data_type.value
                elif hasattr(o, "opaque_type"):
                    sub = o.opaque_type.value
                alg = getattr(o, "cryptographic_algorithm", None)
                fmt = getattr(o, "key_format_type", None)
                objs.append({
                    "uid": o.unique_identifier, "otype": o._object_type.value, "owner": o._owner,
                    "policy": o.operation_policy_name, "names": list(o.names),
                    "groups": [g.object_group for g in o.object_groups],
                    "appinfo": [[a.application_namespace, a.application_data] for a in o.app_specific_info],
                    "sensitive": bool(o.sensitive), "date": o.initial_date,
                    "state": None if st is None else st.value,
                    "mask": None if masks is None else raw_mask.get(int(o.unique_identifier), 0) or 0,
                    "alg": None if alg is None else alg.value,
                    "len": getattr(o, "cryptographic_length", None),
                    "format": None if fmt is None else fmt.value,
                    "subtype": sub, "value": (o.value or b"").hex()})
        ph = self.engine._id_placeholder
        return {"objs": objs, "placeholder": ph}

    def handle(self, j):
        c = j["cmd"]
        if c == "reset":
            self.reset()
            return "ok"
        if c == "restart":
            self.restart()
            return "ok"
        if c == "policies":
            self.set_policies(j["policies"])
            return "ok"
        if c == "dump":
            return self.dump()
        if c == "req":
            return self.request(j["now"], j["id"], j["req"])
        if c == "allowed":
            eng = self.engine
            saved = eng._operation_policies
            eng._operation_policies = policies_from_json(j["policies"])
            try:
                return bool(eng._is_allowed_by_operation_policy(
                    j["policy"], (j["id"]["user"], j["id"]["groups"]), j["owner"],
                    enums.ObjectType(j["otype"]), enums.Operation(j["op"])))
            finally:
                eng._operation_policies = saved
        raise ValueError(c)
