"""
Database files written by an EARLIER run of the server (corpus/legacy_db/*.sql, made once by tools/make_legacy_db.py
with /repo as it was then) - the run-time loader.

A user's database file was created long ago by the code as it was then: `Base.metadata.create_all` never alters a table
that exists, so column types / affinities, foreign keys, `sqlite_sequence`, `PRAGMA user_version` (0) and the orphaned
child rows of destroyed objects stay what the old code wrote.  The fixtures are committed as text
(`sqlite3.Connection.iterdump()`); `materialize` turns one into a database file again, `LegacyEngine` starts the engine
UNDER TEST on it the way a restarted server does.

    materialize(name, path)      executescript into a new file, PRAGMA integrity_check verified
    schema_of(path)              sorted sqlite_master sql texts
    describe(name)               the MANIFEST entry of the fixture (identifiers, owners, types, states, dead identifiers)
    schema_same_as_current(name) does a database created NOW by the code under test have the same sqlite_master text
                                 (information for the coverage dict, never a violation)
    LegacyEngine(fixture)        impl_engine.ImplEngine on a materialized fixture: the JSON door (`request`) and the
                                 client door (`client(version, user)`: real ProxyKmipClient, bytes both ways)
"""
import json
import os
import shutil
import sqlite3
import tempfile

HERE = os.path.dirname(os.path.abspath(__file__))
VERIF = os.path.dirname(os.path.dirname(HERE))
CORPUS = os.path.join(VERIF, "corpus", "legacy_db")

_MANIFEST = [None]


def manifest():
    if _MANIFEST[0] is None:
        with open(os.path.join(CORPUS, "MANIFEST.json")) as f:
            _MANIFEST[0] = json.load(f)
    return _MANIFEST[0]


def names():
    return sorted(manifest()["fixtures"])


def describe(name):
    """the MANIFEST entry: {"file", "what", "sequence", "ever_used": [uid], "dead": [uid], "objects": [{uid, owner,
    type, otype, state, get: {...}, names, groups, appinfo, mask, policy, sensitive, initial_date}]}"""
    return manifest()["fixtures"][name]


def materialize(name, path):
    """the fixture as a database file at `path` (which must not exist); -> path"""
    if os.path.exists(path):
        raise RuntimeError("materialize: %s exists" % path)
    with open(os.path.join(CORPUS, describe(name)["file"])) as f:
        script = f.read()
    con = sqlite3.connect(path)
    try:
        con.executescript(script)
        con.commit()
        ok = con.execute("PRAGMA integrity_check").fetchall()
        if ok != [("ok",)]:
            raise RuntimeError("materialize(%s): integrity_check says %r" % (name, ok))
        seq = con.execute("SELECT seq FROM sqlite_sequence WHERE name = 'managed_objects'").fetchall()
        want = describe(name)["sequence"]
        if (seq[0][0] if seq else None) != want:
            raise RuntimeError("materialize(%s): sqlite_sequence %r, the MANIFEST says %r" % (name, seq, want))
    finally:
        con.close()
    return path


def schema_of(path):
    """sorted sqlite_master sql texts of a database file (read-only connection)"""
    con = sqlite3.connect("file:%s?mode=ro" % path, uri=True)
    try:
        return sorted(r[0] for r in con.execute("SELECT sql FROM sqlite_master WHERE sql IS NOT NULL").fetchall())
    finally:
        con.close()


_CURRENT_SCHEMA = [None]


def current_schema():
    """sqlite_master of a database the code under test creates now"""
    if _CURRENT_SCHEMA[0] is None:
        import copy
        import logging
        from kmip.core import policy as core_policy
        from kmip.services.server import engine as engine_mod
        logging.disable(logging.CRITICAL)
        d = tempfile.mkdtemp(prefix="vlegacy")
        try:
            p = os.path.join(d, "now.sqlite")
            e = engine_mod.KmipEngine(policies=copy.deepcopy(core_policy.policies), database_path=p)
            e._data_store.dispose()
            _CURRENT_SCHEMA[0] = schema_of(p)
        finally:
            shutil.rmtree(d, ignore_errors=True)
    return _CURRENT_SCHEMA[0]


def schema_same_as_current(name):
    d = tempfile.mkdtemp(prefix="vlegacy")
    try:
        p = materialize(name, os.path.join(d, "old.sqlite"))
        return schema_of(p) == current_schema()
    finally:
        shutil.rmtree(d, ignore_errors=True)


def schema_report():
    """{fixture: schema_same_as_current} for the coverage dict"""
    return {n: schema_same_as_current(n) for n in names()}


# ---------------------------------------------------------------------------------------------- the engine on a fixture
def _impl():
    import impl_engine
    return impl_engine


class EngineRaised(Exception):
    """process_request let a non-KMIP exception out (the session answers General Failure)"""


class _ClientSide(object):
    """what KmipSession does between receive and send (impl_e2e.Loopback.handle), for one user of a LegacyEngine"""

    def __init__(self, owner, user, groups=None):
        self.owner = owner
        self.user = user
        self.groups = groups
        self.sent_requests = []
        self.sent_responses = []

    def handle(self, data):
        return self.owner.handle_bytes(data, self.user, self.groups)


def LegacyEngine(fixture=None, scripted_crypto=False, src_db=None, workdir=None):
    """the engine under test started on a copy of a fixture (or of the database file `src_db`, or on a new file)"""
    impl_engine = _impl()

    class _LegacyEngine(impl_engine.ImplEngine):
        def __init__(self):
            self._defer = True
            self._recorded = []
            impl_engine.ImplEngine.__init__(self, scripted_crypto=scripted_crypto, workdir=workdir)
            self._defer = False
            self.fixture = fixture
            if fixture is not None:
                materialize(fixture, self.db)
            elif src_db is not None:
                shutil.copyfile(src_db, self.db)
            self._open()

        def _open(self):
            if self._defer:
                return          # nothing touches the file before it holds the old database
            impl_engine.ImplEngine._open(self)

        # -- the client door -------------------------------------------------------------------------------------------
        def handle_bytes(self, data, user, groups=None):
            from kmip.core import exceptions, utils
            from kmip.core.messages import contents, messages
            impl_engine._CURRENT[0] = self
            self._scripts, self._recorded, self._item = [], [], -1
            req = messages.RequestMessage()
            kv = contents.protocol_version_to_kmip_version(self.engine.default_protocol_version)
            req.read(utils.BytearrayStream(data), kmip_version=kv)
            try:
                resp, max_size, pv = self.engine.process_request(req, (user, groups))
            except exceptions.KmipError:
                raise
            except Exception as e:
                import traceback
                fr = [f for f in traceback.extract_tb(e.__traceback__) if "/kmip/" in f.filename]
                self.internal_errors.append({"exc": type(e).__name__, "msg": str(e)[:200], "op": "process_request",
                                             "site": "%s:%s" % (os.path.basename(fr[-1].filename), fr[-1].name)
                                             if fr else "?"})
                raise EngineRaised("%s: %s" % (type(e).__name__, str(e)[:200]))
            out = utils.BytearrayStream()
            resp.write(out, kmip_version=contents.protocol_version_to_kmip_version(pv))
            return bytes(out.buffer)

        def client(self, version, user, groups=None):
            import impl_e2e
            from kmip.pie.client import ProxyKmipClient
            c = ProxyKmipClient(kmip_version=impl_e2e.VERSIONS[version])
            c._is_open = True
            side = _ClientSide(self, user, groups)
            c.proxy.protocol = impl_e2e.Transport(side)
            c._verif_side = side
            return c

        def copy_db(self, path):
            """the database file as it is now (connections released first), copied to `path`"""
            self.engine._data_store.dispose()
            shutil.copyfile(self.db, path)
            return path

    return _LegacyEngine()


# ---------------------------------------------------------------------------------------------- the raw Register door
def core_split_key(alg, length, value, fmt, parts, ident, threshold, method, prime):
    """a core (wire-level) Split Key built WITHOUT the pie class: values the pie constructor refuses can still be sent
    to the server (which may refuse them with a KMIP error, or must store them exactly)"""
    from kmip.core import attributes as cattr, enums, misc as cmisc, objects as cobjects, secrets
    kb = cobjects.KeyBlock(
        key_format_type=cmisc.KeyFormatType(enums.KeyFormatType(fmt)), key_compression_type=None,
        key_value=cobjects.KeyValue(cobjects.KeyMaterial(value)),
        cryptographic_algorithm=cattr.CryptographicAlgorithm(enums.CryptographicAlgorithm(alg)),
        cryptographic_length=cattr.CryptographicLength(length), key_wrapping_data=None)
    return secrets.SplitKey(split_key_parts=parts, key_part_identifier=ident, split_key_threshold=threshold,
                            split_key_method=enums.SplitKeyMethod(method), prime_field_size=prime, key_block=kb)


def register_core(E, user, version, otype, secret, attrs, now=None):
    """Register of a core secret object with a 1.x template (JSON attribute list of impl_engine), through the encoder,
    the bytes door of the engine and the decoder; -> ("ok", uid) | ("fail", reason name, message)"""
    impl_engine = _impl()
    import impl_e2e
    from kmip.core import utils
    from kmip.core.messages import messages
    req = {"version": version, "ts": None, "async": None, "bopt": None, "maxsize": None,
           "items": [{"op": "register", "bid": None, "crypto": None, "otype": otype,
                      "tmpl": {"tnames": 0, "attrs": attrs}, "obj": None}]}
    msg = impl_engine.build_request(req)
    msg.batch_items[0].request_payload.managed_object = secret
    kv = impl_e2e.VERSIONS[version]
    st = utils.BytearrayStream()
    msg.write(st, kmip_version=kv)
    if now is not None:
        E.clock.now = now
    raw = E.handle_bytes(bytes(st.buffer), user)
    resp = messages.ResponseMessage()
    resp.read(utils.BytearrayStream(raw), kmip_version=kv)
    bi = resp.batch_items[0]
    from kmip.core import enums
    if bi.result_status.value == enums.ResultStatus.SUCCESS:
        return ("ok", str(bi.response_payload.unique_identifier))
    return ("fail", bi.result_reason.value.name if bi.result_reason else None,
            bi.result_message.value if bi.result_message else None)
