"""
Field-level generation for C01 (used by codec_check.StructRun):

discover_phase   every constructor argument no example populates is probed with a typed candidate pool (raw
                 values, a member of every enumeration class, an instance of every primitive subclass and of every
                 structure class, lists of them).  A candidate the constructor accepts and keeps either survives
                 decode(encode(x)) under some version (then the argument's type is known and later phases use it) or
                 it is encoded and decoded without complaint and never comes back: c01:field-never-roundtrips.
rich_instance    the most populated example of a class with every other argument filled in (truthy / falsy variant).
nested_phase     every structure-valued (or list-of-structure) argument of every class is given the rich instances
                 of the nested class; under every version the nested object that comes back inside the container
                 must be what the nested class's own codec returns for the same object under that version
                 (field by field, recursively) — a container must not lose more of a nested value than the nested
                 class itself does: c01:nested-field-dropped.
"""
import copy
import enum
import inspect
import time

import impl_codec as IC
from impl_codec import enums, primitives

NOT_FIELDS = {"tag": "the TTLV tag of the structure itself, not a field"}


def camel(name):
    return "".join(w.capitalize() for w in name.split("_"))


def populated(v):
    return not (v is None or v == [])


def n_populated(o):
    kw = IC.ctor_kwargs(o) or {}
    return sum(1 for k, v in kw.items() if k != "tag" and populated(v))


def richest_example(run, key):
    """the example of a class with the most populated constructor arguments that can be re-built and encoded"""
    cache = run.__dict__.setdefault("_richest", {})
    if key in cache:
        return cache[key]
    best, best_score = None, (-1, -1)
    cls = run.lib.classes[key][0]
    seen = set()
    for (o, v, origin) in run.lib.examples.get(key, []):
        mk = IC.state_items(o) and tuple((k, populated(val)) for k, val in IC.state_items(o))
        if mk in seen:
            continue
        seen.add(mk)
        kw = IC.ctor_kwargs(o)
        if kw is None:
            continue
        try:
            x = type(o)(**copy.deepcopy(kw))
        except Exception:
            continue
        nv = len(ok_versions(x))
        score = (nv > 0, n_populated(o) * 10 + nv)
        if score > best_score:
            best, best_score = o, score
    cache[key] = best
    return best


def ok_versions(x):
    """versions under which x encodes and its encoding decodes"""
    out = []
    factory = IC.factory_for(x)
    if factory is None:
        return out
    import codec_check as CC
    for v in IC.VERSIONS:
        xv = copy.deepcopy(x)
        CC.set_header_version(xv, v)
        try:
            b = IC.enc(xv, v)
            y, left = IC.dec(factory, b, v)
            if not left:
                out.append(v)
        except Exception:
            continue
    return out


# ---------------------------------------------------------------------------------------------------------
# typed candidate pool
# ---------------------------------------------------------------------------------------------------------

def candidate_pool(run):
    """[(label, value)]: raw values, enumeration members, primitive objects, structures"""
    if hasattr(run, "_cand_pool"):
        return run._cand_pool
    pool = [("bool", True), ("int", 1), ("str", "x"), ("bytes", b"x")]
    for name, ec in sorted(inspect.getmembers(enums, inspect.isclass)):
        if issubclass(ec, enum.Enum) and ec is not enum.Enum and ec.__module__ == enums.__name__:
            ms = [m for m in ec if isinstance(m.value, int)]
            if ms:
                nz = [m for m in ms if m.value != 0]
                pool.append(("enum:" + name, (nz or ms)[0]))
    prims = {}
    for key, exs in sorted(run.lib.examples.items()):
        for (o, v, origin) in exs[:40]:
            for z in IC.nested_bases(o):
                if not isinstance(z, primitives.Struct):
                    c = type(z)
                    sig = (c.__module__ + "." + c.__name__, z.tag)
                    if sig not in prims and getattr(z, "value", None) is not None:
                        prims[sig] = z
    # primitive subclasses no example carries: constructed from a probe value their constructor accepts
    have = set(sig[0] for sig in prims)
    enum_members = [v for (l, v) in pool if l.startswith("enum:")]
    for mod in IC.core_modules():
        if mod.__name__ == "kmip.core.primitives":
            continue
        for name, c in sorted(inspect.getmembers(mod, inspect.isclass)):
            full = c.__module__ + "." + c.__name__
            if c.__module__ != mod.__name__ or not issubclass(c, primitives.Base) or issubclass(c, primitives.Struct) \
                    or full in have:
                continue
            probes = ["x", b"x", 7, True]
            if issubclass(c, primitives.Enumeration):
                probes = enum_members
            for pv in probes:
                try:
                    z = c(pv)
                    IC.enc(z)
                except Exception:
                    continue
                prims[(full, z.tag)] = z
                have.add(full)
                break
    for sig in sorted(prims, key=str):
        pool.append(("prim:" + sig[0].rsplit(".", 1)[1], prims[sig]))
    for key in sorted(run.lib.classes):
        o = richest_example(run, key)
        if o is not None:
            pool.append(("struct:" + run.lib.classes[key][0].__name__, o))
    run._cand_pool = pool
    return pool


def ordered_candidates(run, k):
    """the pool ordered by resemblance of the candidate's class / enumeration name to the argument name"""
    want = camel(k).lower()
    singular = want[:-1] if want.endswith("s") else want

    words = [w for w in k.lower().split("_") if w]

    def score(lv):
        label = lv[0].split(":")[-1].lower()
        if label == want or label == singular:
            return (0, 0)
        if singular in label or label in want:
            return (1, 0)
        hits = sum(1 for w in words if w in label or (len(w) > 4 and w[:-1] in label))
        if hits:
            return (2, -hits)
        return (3, 0) if ":" not in lv[0] else (4, 0)
    named = [("same-name", v) for v in run._kw_pool().get(k, [])[:2]]
    kc = run.kwarg_candidate(k)
    if kc is not None:
        named.append(("name-match", kc))
    return named + sorted(candidate_pool(run), key=score)


def discover_phase(run):
    import codec_check as CC
    t0 = time.time()
    run.discovered = {}
    excluded = {}
    tried = 0
    never = 0
    budget = 25 if run.tier == "quick" else 300
    for key in sorted(run.lib.classes):
        cls, own = run.lib.classes[key]
        base_o = richest_example(run, key)
        if base_o is None or IC.factory_for_class(cls) is None:
            continue
        kw = IC.ctor_kwargs(base_o)
        if not kw:
            continue
        ever = set()
        for (o, v, origin) in run.lib.examples.get(key, []):
            for k, val in (IC.ctor_kwargs(o) or {}).items():
                if populated(val):
                    ever.add(k)
        for k in sorted(kw):
            if k in NOT_FIELDS:
                excluded.setdefault(k, NOT_FIELDS[k])
                continue
            if k in ever:
                continue
            if time.time() - t0 > budget:
                run.stats["discover_truncated_by_budget"] = True
                break
            survived, lost = None, None
            n_accepted = 0
            for (label, cand) in ordered_candidates(run, k):
                for shape, val in (("scalar", cand), ("list", [cand])):
                    if n_accepted >= (30 if run.tier == "quick" else 120):
                        break
                    try:
                        x = cls(**dict(copy.deepcopy(kw), **{k: copy.deepcopy(val)}))
                        kept = getattr(x, k)
                    except Exception:
                        continue
                    if not populated(kept):
                        continue
                    n_accepted += 1
                    tried += 1
                    res = [CC.field_survives(x, k, v, run.emitted, cls.__name__) for v in IC.VERSIONS]
                    if any(r is True for r in res):
                        survived = (label, shape, val)
                        break
                    if lost is None and any(r is False for r in res) and IC.diff(kept, val) == []:
                        lost = (label, shape, val, [IC.vname(v) for v, r in zip(IC.VERSIONS, res) if r is False])
                if survived or n_accepted >= (30 if run.tier == "quick" else 120):
                    break
            if survived:
                run.discovered[(key, k)] = survived[2]
            elif lost:
                never += 1
                run.findings.append(CC.Finding(
                    "c01:field-never-roundtrips:%s.%s" % (CC.defining_class(cls(), "write"), k),
                    "%s(%s=%s): the constructor accepts and keeps the value, the object is encoded and decoded "
                    "without complaint under KMIP %s, and under no version does decode(encode(x)) return the field"
                    % (cls.__name__, k, lost[0], ",".join(lost[3])),
                    {"kind": "never", "class": key, "field": k,
                     "base": {kk: CC.describe_value(vv) for kk, vv in kw.items() if kk != k and populated(vv)},
                     "value": CC.describe_value(lost[2])}))
            else:
                run.stats["fields_without_accepted_candidate"] = run.stats.get("fields_without_accepted_candidate", 0) + 1
                run.per_class.setdefault(key, {}).setdefault("fields_unprobed", []).append(k)
    run.stats["discover_candidates_tried"] = tried
    run.stats["discover_fields_typed"] = len(run.discovered)
    run.stats["discover_fields_never_roundtrip"] = never
    run.excluded_fields = excluded
    run.stats["discover_wall_s"] = round(time.time() - t0, 1)


# ---------------------------------------------------------------------------------------------------------
# rich instances and nesting
# ---------------------------------------------------------------------------------------------------------

def rich_instances(run, key):
    """[(label, instance, fully populated?)]: the most populated example with every other argument filled in, and
    its falsy variant (every primitive argument at the falsy value of its type)"""
    import codec_check as CC
    cache = run.__dict__.setdefault("_rich", {})
    if key in cache:
        return cache[key]
    cls = run.lib.classes[key][0]
    base_o = richest_example(run, key)
    out = []
    if base_o is None:
        cache[key] = out
        return out
    kw = copy.deepcopy(IC.ctor_kwargs(base_o))
    try:
        x = cls(**copy.deepcopy(kw))
    except Exception:
        cache[key] = out
        return out
    nv = len(ok_versions(x))
    for k in sorted(kw):
        if k in NOT_FIELDS or populated(kw[k]):
            continue
        cand = run.discovered.get((key, k))
        if cand is None:
            cand = run.kwarg_candidate(k)
        if cand is None:
            continue
        kw2 = dict(kw)
        kw2[k] = copy.deepcopy(cand)
        try:
            x2 = cls(**copy.deepcopy(kw2))
        except Exception:
            continue
        nv2 = len(ok_versions(x2))
        if nv2 >= nv and nv2 > 0:
            kw, nv = kw2, nv2
    full = all(populated(v) for k, v in kw.items() if k not in NOT_FIELDS)
    try:
        out.append(("rich", cls(**copy.deepcopy(kw)), full))
    except Exception:
        pass
    kwf = dict(kw)
    changed = False
    for k in sorted(kw):
        if k in NOT_FIELDS:
            continue
        pairs = CC.falsy_pairs(kw[k])
        for (t, f, label) in pairs[:1]:
            kw3 = dict(kwf)
            kw3[k] = copy.deepcopy(f)
            try:
                x3 = cls(**copy.deepcopy(kw3))
            except Exception:
                continue
            if len(ok_versions(x3)) >= nv:
                kwf = kw3
                changed = True
    if changed:
        try:
            out.append(("rich-falsy", cls(**copy.deepcopy(kwf)), full))
        except Exception:
            pass
    cache[key] = out
    return out


def struct_class_of(val):
    if isinstance(val, primitives.Struct):
        return type(val), False
    if isinstance(val, list) and val and isinstance(val[0], primitives.Struct):
        return type(val[0]), True
    return None, False


def nested_phase(run):
    import codec_check as CC
    t0 = time.time()
    budget = 30 if run.tier == "quick" else 400
    pairs_full, pairs_partial = set(), set()
    comparisons = 0
    keyof = {}
    for key, (c, own) in run.lib.classes.items():
        keyof[c] = key
    for key in sorted(run.lib.classes):
        cls, own = run.lib.classes[key]
        if IC.factory_for_class(cls) is None:
            continue
        bases = [r[1] for r in rich_instances(run, key)[:1]]
        ro = richest_example(run, key)
        if ro is not None:
            bases.append(ro)
        done = set()
        for base_o in bases:
            kw = IC.ctor_kwargs(base_o)
            if not kw:
                continue
            for k in sorted(kw):
                if k in NOT_FIELDS or (k in done):
                    continue
                val = kw[k] if populated(kw[k]) else run.discovered.get((key, k))
                ncls, is_list = struct_class_of(val)
                if ncls is None or ncls not in keyof:
                    continue
                if time.time() - t0 > budget:
                    run.stats["nested_truncated_by_budget"] = True
                    break
                variants = rich_instances(run, keyof[ncls])
                tag_here = (val[0] if is_list else val).tag
                for (label, n, full) in variants:
                    n = copy.deepcopy(n)
                    if n.tag != tag_here:
                        try:
                            n.tag = tag_here
                        except Exception:
                            continue
                    try:
                        x = cls(**dict(copy.deepcopy(kw), **{k: [n] if is_list else n}))
                    except Exception:
                        continue
                    fac_x, fac_n = IC.factory_for(x), IC.factory_for(n)
                    if fac_x is None or fac_n is None:
                        continue
                    for v in IC.VERSIONS:
                        xv = copy.deepcopy(x)
                        CC.set_header_version(xv, v)
                        try:
                            b = IC.enc(xv, v)
                            run.emitted.append((cls.__name__, IC.vname(v), b))
                            y, left = IC.dec(fac_x, b, v)
                            if left:
                                continue
                            got = getattr(y, k)
                            orig = getattr(xv, k)
                        except Exception:
                            continue
                        # the field as a whole being absent under a version is the container's own version
                        # gating of that field (judged by the field-level rules); here: what happens INSIDE
                        # a nested value that did come back
                        if is_list:
                            if not isinstance(got, list) or len(got) != 1:
                                continue
                            if type(got[0]) is not type(orig[0]):
                                run.stats["nested_class_chosen_by_another_field"] = \
                                    run.stats.get("nested_class_chosen_by_another_field", 0) + 1
                                continue
                            d_in = IC.diff(orig[0], got[0])
                        else:
                            if got is None:
                                continue
                            if type(got) is not type(orig):
                                # the container picks the nested CLASS from another of its fields (a batch item's payload
                                # class follows its Operation): a value combining the two inconsistently is outside
                                # the comparison (ASSUMPTIONS of the check), not a codec fault
                                run.stats["nested_class_chosen_by_another_field"] = \
                                    run.stats.get("nested_class_chosen_by_another_field", 0) + 1
                                continue
                            d_in = IC.diff(orig, got)
                        # does the container delegate to the nested class's own writer?  Then the nested
                        # encoding under some version is a substring of the container's.  (A container that writes
                        # a converted representation instead — TemplateAttribute as Attributes under KMIP 2.0 — is
                        # not comparable with the nested codec and is left to the field-level rules.)
                        encs = {}
                        for w in IC.VERSIONS:
                            try:
                                encs[w] = IC.enc(copy.deepcopy(n), w)
                            except Exception:
                                pass
                        if not any(e in b for e in encs.values()):
                            run.stats["nested_converted_representation"] = \
                                run.stats.get("nested_converted_representation", 0) + 1
                            continue
                        try:
                            n2, left2 = IC.dec(fac_n, IC.enc(copy.deepcopy(n), v), v)
                            if left2:
                                continue
                            d_alone = IC.diff(n, n2)
                        except Exception:
                            run.stats["nested_standalone_not_encodable"] = \
                                run.stats.get("nested_standalone_not_encodable", 0) + 1
                            continue
                        comparisons += 1
                        run.evaluations += 1
                        done.add(k)
                        (pairs_full if full else pairs_partial).add((cls.__name__, ncls.__name__))
                        extra = sorted(set(d_in) - set(d_alone))
                        if extra:
                            run.findings.append(CC.Finding(
                                "c01:nested-field-dropped:%s.%s:%s%s" % (CC.defining_class(x, "write"), k, ncls.__name__,
                                                                         extra[0].split("[")[0].split(":")[0]),
                                "%s.%s holding a fully populated %s (%s) under KMIP %s: %s come(s) back different "
                                "although %s's own codec returns it under that version (the container wrote the "
                                "nested value as its KMIP %s encoding)"
                                % (cls.__name__, k, ncls.__name__, label, IC.vname(v), ", ".join(extra[:4]),
                                   ncls.__name__, "/".join(IC.vname(w) for w, e in encs.items() if e in b)),
                                {"kind": "nested", "class": key, "field": k, "list": is_list, "version": IC.vname(v),
                                 "base": {kk: CC.describe_value(vv) for kk, vv in kw.items() if kk != k and populated(vv)},
                                 "nested": CC.describe_value(n), "nested_version": "1.4"}))
    run.nested_pairs_full = sorted(pairs_full)
    run.nested_pairs_partial = sorted(pairs_partial - pairs_full)
    run.stats["nested_comparisons"] = comparisons
    run.stats["nested_wall_s"] = round(time.time() - t0, 1)
