"""
Correspondence of M16 (lean/KmipModel/EncodeRequest.lean, Drivers/EncodeRequest.lean) with the real request ENCODER
(`RequestMessage.write`) and of the composition M16 ; M14 with the real decoder — part of C19 / C01 / C12.

  run(ctx, rng) -> coverage dict                    (it calls ctx.report itself)

Part A — engine-generator requests (gen_engine.Gen: the 21 dispatched operations + unsupported ones, the six
versions + unknown ones, batches, header options; a second stream forces every operation x version cell):
  (a1) BYTE EQUALITY: for every request in the model's domain (`encodable`) the bytes of the REAL encoder
       (`gen_session.encode_request` = `impl_engine.build_request` + `RequestMessage.write`) equal the model's;
       a request in the domain that the real encoder refuses is a divergence as well
  (a2) domain: requests outside the domain are counted by reason; a request the real encoder accepts whose model
       bytes nevertheless equal the real ones is counted as `outside_but_equal` (the domain errs on the safe side)
  (a3) the theorem's statement evaluated: every `encodable` request has roundtrip = true (decodeFrame of the model's
       bytes = norm r), and for a sample the REAL `RequestMessage.read` accepts the model's bytes and abstracts
       (decode_check.abstract_request) to the model's `decoded`
Part B — requests emitted by the real ProxyKmipClient over a fake transport (impl_client): each emitted frame is
  decoded by the real server-side decoder, abstracted with decode_check.abstract_request, and compared with the
  Lean `decodeFrame` of the same bytes (Drivers/Decode.lean); then the abstract request is re-encoded by the model
  (Drivers/EncodeRequest.lean) and the share whose model bytes equal the client's bytes is reported (equality is
  expected only where the client builds the representative the model encodes).
MONITOR (implementation only): a frame the real encoder wrote for a request of a supported version is accepted by
  the real decoder  ->  c19:emitted-request-not-decodable:<op>:<exc>   (C19 "every request it emits ... is decodable")
"""
import json
import logging
import os
import random
import sys
import time
import warnings

warnings.filterwarnings("ignore")
HERE = os.path.dirname(os.path.abspath(__file__))
sys.path.insert(0, HERE)

import gen_engine  # noqa: E402
import gen_session  # noqa: E402
import decode_check  # noqa: E402

OPS = decode_check.OPS
VERSIONS = gen_session.VERSIONS


# ------------------------------------------------------------------ generation
def gen_requests(rnd, quick):
    """-> list of (request JSON, class)"""
    out = []
    g = gen_engine.Gen(rnd.randrange(1 << 30))
    g.live = {"1": {"otype": 2, "owner": "alice", "state": 1}, "2": {"otype": 2, "owner": "alice", "state": 2},
              "3": {"otype": 4, "owner": "alice", "state": 2}, "4": {"otype": 8, "owner": "bob", "state": 1},
              "5": {"otype": 3, "owner": "alice", "state": 2}}
    g.created = 5
    for k in range(1000 if quick else 6000):
        req = g.request()
        if g.p(0.1):
            req["maxsize"] = g.ch([0, 1, 100, 4096, 2 ** 31 - 1, 2 ** 31])
        out.append((req, "gen"))
    per = 3 if quick else 12
    for v in VERSIONS:
        for op in OPS + ["unsupported"]:
            for k in range(per):
                out.append((g.request(nitems=1, version=v, ops=[op]), "cell"))
    for k in range(80 if quick else 600):
        n = g.ch([2, 3, 5, 8])
        out.append((g.request(nitems=n), "batch"))
    for req, _ in out:
        req["version"] = int(req["version"])
    return out


def why_outside(req, mo):
    """a coarse reason why the model puts the request outside its domain"""
    if req["version"] not in VERSIONS:
        return "unknown protocol version"
    if not mo["canonical"]:
        return "non-canonical wire detail"
    if not mo["ok"]:
        bad = sorted({it["op"] for it, ok in zip(req["items"], mo["items_ok"]) if not ok})
        if not bad:
            return "header field out of range"
        return "item outside the domain: " + bad[0]
    if not mo["short"]:
        return "frame of 2^32 bytes or more"
    return "?"


def real_encode(req):
    try:
        return gen_session.encode_request(req), None
    except Exception as e:
        return None, type(e).__name__


def run_gen(ctx, rnd, cov):
    quick = ctx.tier == "quick"
    reqs = gen_requests(rnd, quick)
    lines = [json.dumps({"req": r}) for r, _ in reqs]
    t1 = time.time()
    outs = ctx.run_model("EncodeRequest", lines)
    cov["seconds"]["model_driver_gen"] = round(time.time() - t1, 1)
    first = {}
    sample_every = 3 if quick else 5
    for i, ((req, cls), line) in enumerate(zip(reqs, outs)):
        if not line.startswith("{"):
            raise RuntimeError("EncodeRequest driver: %s on %s" % (line[:300], json.dumps(req)[:300]))
        mo = json.loads(line)
        ops = [it["op"] for it in req["items"]]
        cov["requests"] += 1
        cov["by_class"][cls] = cov["by_class"].get(cls, 0) + 1
        cov["by_version"][str(req["version"])] = cov["by_version"].get(str(req["version"]), 0) + 1
        real, exc = real_encode(req)
        if real is not None:
            cov["real_encoder_accepts"] += 1
        if mo["encodable"]:
            cov["encodable"] += 1
            for o in ops:
                cov["encodable_by_op"][o] = cov["encodable_by_op"].get(o, 0) + 1
            if mo["exact"]:
                cov["exact"] += 1
            if real is None:
                cov["byte_divergences"] += 1
                first.setdefault("bytes", {"req": req, "implementation": "raises %s" % exc, "model": mo["hex"][:200]})
            elif real.hex() != mo["hex"]:
                cov["byte_divergences"] += 1
                first.setdefault("bytes", {"req": req, "implementation": real.hex(), "model": mo["hex"]})
            else:
                cov["byte_equal"] += 1
            if not mo["valid"]:
                cov["validity_failures"] += 1
                first.setdefault("valid", {"req": req})
            if not mo["roundtrip"]:
                cov["roundtrip_failures"] += 1
                first.setdefault("roundtrip", {"req": req, "decoded": mo["decoded"]})
            elif real is not None and i % sample_every == 0:
                # the REAL decoder on the MODEL's bytes
                msg, dexc = decode_check.real_decode(bytes.fromhex(mo["hex"]))
                cov["real_read_of_model_bytes"] += 1
                if msg is None:
                    cov["real_read_failures"] += 1
                    first.setdefault("realread", {"req": req, "hex": mo["hex"], "implementation": "rejects: %s" % dexc})
                else:
                    d = decode_check.first_difference(decode_check.abstract_request(msg), mo["decoded"])
                    if d:
                        cov["real_read_failures"] += 1
                        first.setdefault("realread", {"req": req, "hex": mo["hex"], "first_difference": d})
        else:
            w = why_outside(req, mo)
            cov["outside"][w] = cov["outside"].get(w, 0) + 1
            if real is None:
                cov["outside_real_encoder_raises"][exc] = cov["outside_real_encoder_raises"].get(exc, 0) + 1
            if real is not None and real.hex() == mo["hex"]:
                cov["outside_but_equal"] += 1
            if real is not None and mo["ok"] is False and req["version"] in VERSIONS and "unsupported" not in ops:
                cov["outside_but_real_accepts"] += 1
    concrete = [v for v in ctx.violations if not v["no_input"]]
    if "bytes" in first and not concrete:
        ctx.report("correspondence:request-encoder-bytes",
                   "request encoder model and RequestMessage.write differ on %d requests of the model's domain"
                   % cov["byte_divergences"],
                   dict(first["bytes"], broken="Drivers/EncodeRequest.lean vs impl_engine.build_request + RequestMessage.write"),
                   no_input=True)
    if "roundtrip" in first and not concrete:
        ctx.report("correspondence:request-roundtrip",
                   "%d encodable requests are not decoded back to norm r by the decoder model although "
                   "C19Encode.request_roundtrip says so" % cov["roundtrip_failures"],
                   dict(first["roundtrip"], broken="theorem C19Encode.request_roundtrip vs Drivers/EncodeRequest.lean"),
                   no_input=True)
    if "valid" in first and not concrete:
        ctx.report("correspondence:request-tree-valid",
                   "%d encodable requests have a tree that is not a valid M1 item although C19Encode.encRequest_valid "
                   "says so" % cov["validity_failures"],
                   dict(first["valid"], broken="theorem C19Encode.encRequest_valid vs Drivers/EncodeRequest.lean"),
                   no_input=True)
    if "realread" in first and not concrete:
        ctx.report("correspondence:request-model-bytes-real-read",
                   "RequestMessage.read of the model's bytes fails or differs for %d requests" % cov["real_read_failures"],
                   dict(first["realread"], broken="RequestMessage.read of TTLV.encode (encRequest r) vs decodeFrame"),
                   no_input=True)
    cov["samples"] = [{"req": reqs[0][0], "model_hex": json.loads(outs[0])["hex"][:160]}]


# ------------------------------------------------------------------ Part B: the real client
def client_frames(rnd, quick):
    """requests the real ProxyKmipClient / KMIPProxy emits (scripted transport, successful answers)
    -> list of (frame bytes, operation, version)"""
    import gen_client as G
    import impl_client as IC
    out = []
    per = 3 if quick else 20
    for v in VERSIONS:
        for op in IC.OPS:
            for k in range(per):
                case = G.gen_case(rnd, op, v, "failure-msg" if k % 3 == 2 else "success")
                try:
                    obs = IC.run_case(case)
                except Exception:
                    continue
                for h in obs.get("emitted") or []:
                    out.append((bytes.fromhex(h), op, v))
    return out


def strip_crypto(req):
    for it in req["items"]:
        it["crypto"] = None
    return req


def run_client(ctx, rnd, cov):
    quick = ctx.tier == "quick"
    t1 = time.time()
    frames = client_frames(rnd, quick)
    cov["seconds"]["client_generate"] = round(time.time() - t1, 1)
    t1 = time.time()
    outs = ctx.run_model("Decode", [json.dumps({"hex": fr.hex(), "dv": 12}) for fr, _, _ in frames])
    cov["seconds"]["model_driver_client_decode"] = round(time.time() - t1, 1)
    first = {}
    reenc = []
    for (fr, op, v), line in zip(frames, outs):
        cov["client_frames"] += 1
        cov["client_by_op"][op] = cov["client_by_op"].get(op, 0) + 1
        mo = json.loads(line)
        msg, exc = decode_check.real_decode(fr)
        # MONITOR (implementation only): C19 "every request it emits ... is decodable by the server"
        if msg is None:
            cov["monitor_failures"] += 1
            ctx.report("c19:emitted-request-not-decodable:%s:%s" % (op, exc),
                       "a request the real client emits under KMIP %d.%d is refused by the real server-side decoder (%s)"
                       % (v // 10, v % 10, exc), {"kind": "client-frame", "op": op, "version": v, "hex": fr.hex()})
        if not mo["ok"] and mo["err"] == "unmodelled":
            cov["client_unmodelled"][mo["detail"]] = cov["client_unmodelled"].get(mo["detail"], 0) + 1
            continue
        if (msg is not None) != mo["ok"]:
            cov["client_divergences"] += 1
            first.setdefault("client", {"hex": fr.hex(), "op": op, "version": v,
                                        "implementation": "accepts" if msg is not None else "rejects: %s" % exc,
                                        "model": "accepts" if mo["ok"] else "rejects: %s %s" % (mo["err"], mo["detail"])})
            continue
        if msg is None:
            continue
        ar = decode_check.abstract_request(msg)
        d = decode_check.first_difference(ar, mo["req"])
        if d:
            cov["client_divergences"] += 1
            first.setdefault("client", {"hex": fr.hex(), "op": op, "version": v, "first_difference": d})
            continue
        cov["client_decoded_equal"] += 1
        reenc.append((fr, op, v, ar))
    # the abstract request re-encoded by the model: equal bytes where the client builds the model's representative
    lines = []
    for fr, op, v, ar in reenc:
        req = json.loads(json.dumps(ar))
        for it in req["items"]:
            if it["op"] == "deriveKey":
                it["ddata_hex"] = "" if not it.pop("ddata") else "".join("%02x" % ((i + 1) & 0xFF) for i in range(it.pop("dlen")))
                it.pop("dlen", None)
        lines.append(json.dumps({"req": req}))
    t1 = time.time()
    outs2 = ctx.run_model("EncodeRequest", lines) if lines else []
    cov["seconds"]["model_driver_client_reencode"] = round(time.time() - t1, 1)
    for (fr, op, v, ar), line in zip(reenc, outs2):
        if not line.startswith("{"):
            raise RuntimeError("EncodeRequest driver: %s" % line[:300])
        mo = json.loads(line)
        if mo["encodable"]:
            cov["client_reencodable"] += 1
            if not mo["roundtrip"]:
                cov["roundtrip_failures"] += 1
                first.setdefault("roundtrip", {"req": ar, "decoded": mo["decoded"]})
            if mo["hex"] == fr.hex():
                cov["client_reencoded_equal"] += 1
                cov["client_equal_by_op"][op] = cov["client_equal_by_op"].get(op, 0) + 1
            else:
                # not a divergence by itself: the client may build another representative (other data, parameters,
                # names); it is one when the model's bytes decode to something else than the client's request
                d = decode_check.first_difference(strip_crypto(json.loads(json.dumps(mo["decoded"]))),
                                                  strip_crypto(json.loads(json.dumps(ar))))
                if d and mo["exact"]:
                    cov["client_divergences"] += 1
                    first.setdefault("client", {"hex": fr.hex(), "op": op, "version": v, "model_hex": mo["hex"],
                                                "first_difference": "re-encoded: " + d})
    concrete = [v for v in ctx.violations if not v["no_input"]]
    if "client" in first and not concrete:
        ctx.report("correspondence:client-request-decode",
                   "requests emitted by the real client: the decoder model and RequestMessage.read differ on %d frames"
                   % cov["client_divergences"],
                   dict(first["client"], broken="Drivers/Decode.lean / Drivers/EncodeRequest.lean vs RequestMessage.read on client frames"),
                   no_input=True)
    if "roundtrip" in first and not concrete:
        ctx.report("correspondence:request-roundtrip",
                   "an encodable request abstracted from a client frame is not decoded back to norm r",
                   dict(first["roundtrip"], broken="theorem C19Encode.request_roundtrip vs Drivers/EncodeRequest.lean"),
                   no_input=True)


# ------------------------------------------------------------------ the check
def run(ctx, rng=None):
    logging.disable(logging.CRITICAL)
    t0 = time.time()
    rnd = rng or random.Random("encode-request-%s" % ctx.seed)
    cov = {"requests": 0, "by_class": {}, "by_version": {}, "real_encoder_accepts": 0, "encodable": 0,
           "encodable_by_op": {}, "exact": 0, "byte_equal": 0, "byte_divergences": 0, "roundtrip_failures": 0, "validity_failures": 0,
           "real_read_of_model_bytes": 0, "real_read_failures": 0, "outside": {}, "outside_real_encoder_raises": {}, "outside_but_equal": 0,
           "outside_but_real_accepts": 0, "monitor_failures": 0, "seconds": {},
           "client_frames": 0, "client_by_op": {}, "client_unmodelled": {}, "client_divergences": 0,
           "client_decoded_equal": 0, "client_reencodable": 0, "client_reencoded_equal": 0, "client_equal_by_op": {}}
    run_gen(ctx, rnd, cov)
    run_client(ctx, rnd, cov)
    cov["rule"] = ("requests = gen_engine.Gen.request (random operations, versions incl. unknown ones, batches, header "
                   "options) + every operation x version cell + larger batches; a request counts as non-trivial when it "
                   "is in the model's domain and both encoders produced bytes (byte_equal)")
    cov["evaluations"] = cov["requests"] + cov["client_frames"]
    cov["distinct_nontrivial"] = cov["byte_equal"]
    cov["seconds"]["total"] = round(time.time() - t0, 1)
    return cov


if __name__ == "__main__":
    c = decode_check._Ctx(sys.argv[1] if len(sys.argv) > 1 else "quick", os.environ.get("VERIF_SEED", "0"))
    cov = run(c)
    print(json.dumps(cov, indent=1, sort_keys=True, default=str)[:6000])
    for v in c.violations:
        print("VIOLATION" if not v["no_input"] else "DIVERGENCE", v["signature"], "x%d" % v["count"], v["what"][:400])
        print("   ", json.dumps(v["replay"], default=str)[:3000])
