"""tag-table helpers shared by the end-to-end monitors and C16 (first tags of each KMIP version's block of the tag table)"""
from server_e2e_check import all_tags, tag_version, TAG_BLOCKS  # noqa: F401
