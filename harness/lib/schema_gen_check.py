"""
Correspondence of the REGENERATED schema tables (harness/gen_schemas.py -> lean/KmipModel/Gen/SchemasGen.lean) with
the real readers and writers of /repo, and the witnesses of the exception lists of KmipModel/Props/C01Gen.lean.

run(ctx, struct_run, rng) -> dict      (to be called from harness/props/c01.py after struct_phase)

  * for every class of `genRead`: real encodings of the class's examples (the library of `struct_run`) and their
    child-level neighbours (codec_check.schema_cases: child dropped / duplicated / moved / re-typed / foreign child
    inserted) go through the real reader and through `decodeS` of the generated read schema (Drivers/SchemaGen.lean):
      - exactly translated class: same accept / reject;
      - class of `genApprox`: what the real reader accepts the schema accepts (the schema may accept more);
      - what both accept: the real re-encoding equals the input iff the schema writer's does, except for the
        classes of `kindExceptions` / `min1Exceptions` (reader more lenient than writer), where the real writer may
        emit the other kind or refuse — and then decode-encode-decode must still be stable on the implementation;
    a disagreement is first looked at under the implementation-only monitor (decode-encode-decode): a failure there
    is reported as a violation with the bytes; otherwise it is a broken correspondence (translator or model).
  * WITNESSES: every entry of the Lean exception lists and every "never calls is_oversized" class is shown on the
    real code on every run; an entry that no longer reproduces is reported (the list is stale).

Nothing here is needed by the Lean build; the module imports codec_check / impl_codec and does not edit them.
"""
import copy
import json
import os
import sys
import time

sys.path.insert(0, os.path.dirname(os.path.abspath(__file__)))
import impl_codec as IC  # noqa: E402
import codec_check as CC  # noqa: E402
from impl_codec import enums, utils  # noqa: E402

DRIVER = "SchemaGen"
VNUM = {10: "1.0", 11: "1.1", 12: "1.2", 13: "1.3", 14: "1.4", 20: "2.0"}


def _v(vn):
    return IC.vof(VNUM[vn])


def _enc(o, v):
    s = utils.BytearrayStream()
    o.write(s, kmip_version=v)
    return bytes(s.buffer)


def _dec(cls, b, v):
    o = cls()
    s = utils.BytearrayStream(b)
    o.read(s, kmip_version=v)
    return o, len(s.buffer)


def _struct(tag, kids):
    body = b"".join(kids)
    return tag.to_bytes(3, "big") + b"\x01" + len(body).to_bytes(4, "big") + body


def ded(cls, b, vn):
    """implementation-only monitor on one accepted byte string: (verdict, detail).
    verdict: 'stable'      decode b = x, encode x = b
             'revalued'    encode x = b2 != b, decode b2 = x2, encode x2 = b2    (same value, other bytes)
             'refused'     encode x raises                                        (reader more lenient than writer)
             'unstable'    anything else: a C01 violation"""
    v = _v(vn)
    try:
        x, left = IC.dec(cls, b, v)
    except Exception as e:
        return "rejected", type(e).__name__
    if left:
        return "rejected", "residue"
    IC.repair_text_padding(x)
    try:
        b2 = IC.enc(x, v)
    except Exception as e:
        return "refused", type(e).__name__
    if b2 == b:
        return "stable", None
    try:
        x2, left2 = IC.dec(cls, b2, v)
        IC.repair_text_padding(x2)
        b3 = IC.enc(x2, v)
    except Exception as e:
        return "unstable", "re-encoding %s is not accepted / not writable again (%s)" % (b2.hex()[:80], type(e).__name__)
    if left2 or b3 != b2:
        return "unstable", "second encoding %s differs from the first %s" % (b3.hex()[:80], b2.hex()[:80])
    return "revalued", b2.hex()


# ---------------------------------------------------------------------------------------------------------
# witnesses of the exception lists (each returns (reproduces?, description, replay))
# ---------------------------------------------------------------------------------------------------------

def w_template_empty():
    from kmip.core import secrets
    v = enums.KMIPVersion.KMIP_1_4
    t = secrets.Template(attributes=[])
    b = _enc(t, v)
    try:
        _dec(secrets.Template, b, v)
        return False, "Template(attributes=[]) now round-trips", None
    except Exception as e:
        return True, "Template(attributes=[]) is written as %s and rejected by Template.read (%s)" % (b.hex(), type(e).__name__), \
            {"kind": "witness", "name": "template-empty", "class": "Template", "version": "1.4", "hex": b.hex()}


def w_attribute_list_no_reference():
    from kmip.core.messages import payloads
    v = enums.KMIPVersion.KMIP_2_0
    p = payloads.GetAttributeListResponsePayload(unique_identifier="1", attribute_names=["Object Group"])
    b = _enc(p, v)
    _, kids = CC.children_of(b)
    b2 = CC.rebuild(b[:3], kids[:1])
    try:
        q, left = _dec(payloads.GetAttributeListResponsePayload, b2, v)
    except Exception as e:
        return False, "the 2.0 reader now rejects a GetAttributeList response without references (%s)" % type(e).__name__, None
    try:
        _enc(q, v)
        return False, "the writer now accepts an empty attribute name list", None
    except Exception as e:
        ok14 = True
        try:
            _dec(payloads.GetAttributeListResponsePayload, b2, enums.KMIPVersion.KMIP_1_4)
        except Exception:
            ok14 = False
        return True, "GetAttributeListResponsePayload %s is accepted under 2.0 (names=[]), refused by write (%s); under 1.4 the " \
            "reader %s it" % (b2.hex(), type(e).__name__, "accepts" if ok14 else "rejects"), \
            {"kind": "witness", "name": "attribute-list-no-reference", "version": "2.0", "hex": b2.hex()}


def _with_struct_reference(payload_cls, kwargs, name):
    from kmip.core import objects
    v = enums.KMIPVersion.KMIP_2_0
    ref = _enc(objects.AttributeReference(vendor_identification="Acme", attribute_name=name), v)
    b = _enc(payload_cls(**kwargs), v)
    _, kids = CC.children_of(b)
    return CC.rebuild(b[:3], kids[:1] + [ref])


def w_struct_reference(payload_name):
    def w():
        from kmip.core.messages import payloads
        cls = getattr(payloads, payload_name)
        b = _with_struct_reference(cls, {"unique_identifier": "1"}, "Object Group")
        verdict, detail = ded(cls, b, 20)
        b2 = _with_struct_reference(cls, {"unique_identifier": "1"}, "Delivery Date")
        verdict2, detail2 = ded(cls, b2, 20)
        if verdict == "revalued" and verdict2 == "refused":
            return True, "%s under 2.0: a structure AttributeReference to a standard attribute is accepted and written back " \
                "as an enumeration (decode-encode-decode stable); one to a vendor attribute is accepted and cannot be " \
                "written back (%s)" % (payload_name, detail2), \
                {"kind": "witness", "name": "struct-reference:" + payload_name, "version": "2.0", "hex": b.hex(), "hex2": b2.hex()}
        return False, "%s: structure references now give %s / %s" % (payload_name, verdict, verdict2), None
    return w


def w_key_value_struct():
    from kmip.core import objects
    v = enums.KMIPVersion.KMIP_1_4
    inner = _struct(0x420043, [])          # KeyMaterial as an (empty) structure
    b = _struct(0x420045, [inner])
    try:
        _dec(objects.KeyValue, b, v)
        return False, "KeyValue.read now accepts a structure as key material", None
    except TypeError as e:
        bytes_ok = True
        try:
            _dec(objects.KeyValue, _struct(0x420045, [bytes.fromhex("4200430800000000")]), v)
        except Exception:
            bytes_ok = False
        return bytes_ok, "KeyValue.read takes the structure branch for %s and validate() then raises TypeError; a byte string " \
            "is accepted: %s" % (b.hex(), bytes_ok), {"kind": "witness", "name": "key-value-struct", "hex": b.hex()}
    except Exception as e:
        return False, "KeyValue with a structure as key material is rejected with %s, not by validate()" % type(e).__name__, None


def w_trailing(payload_name, build):
    """classes whose read() never calls is_oversized: a foreign trailing child is accepted and dropped"""
    def w():
        from kmip.core.messages import payloads
        cls = getattr(payloads, payload_name)
        v = enums.KMIPVersion.KMIP_1_4
        b = _enc(build(cls), v)
        _, kids = CC.children_of(b)
        extra = bytes.fromhex("42000d02000000040000000700000000")
        b2 = CC.rebuild(b[:3], kids + [extra])
        verdict, detail = ded(cls, b2, 14)
        if verdict == "revalued" and detail == b.hex():
            return True, "%s.read accepts a trailing foreign child (Batch Count) and drops it: %s -> %s" \
                % (payload_name, b2.hex()[:96], b.hex()[:96]), {"kind": "witness", "name": "trailing:" + payload_name, "hex": b2.hex()}
        return False, "%s with a trailing child now gives %s" % (payload_name, verdict), None
    return w


KIND_WITNESS = {
    ("KeyValue", 0x420043): w_key_value_struct,
    ("GetAttributesRequestPayload", 0x42013B): w_struct_reference("GetAttributesRequestPayload"),
    ("GetAttributeListResponsePayload", 0x42013B): None,      # shares the min1 witness below + struct reference
}
MIN1_WITNESS = {
    ("Template", 0x420008): w_template_empty,          # repaired in /repo 5cfdcfc: only reached if the row comes back
    ("GetAttributeListResponsePayload", 0x42013B): w_attribute_list_no_reference,
}
NO_OVERSIZED_WITNESS = {
    "SignRequestPayload": w_trailing("SignRequestPayload", lambda c: c(unique_identifier="1", data=b"\x01")),
    "SignResponsePayload": w_trailing("SignResponsePayload", lambda c: c(unique_identifier="1", signature_data=b"\x01")),
    "LocateRequestPayload": w_trailing("LocateRequestPayload", lambda c: c(maximum_items=1)),
}
# witnesses that are C01 violations (a constructible, encodable value its own reader rejects): reported as findings
FINDING_SIGNATURES = {
    ("Template", 0x420008): "c01:writer-emits-what-reader-rejects:Template.attributes",
}


def run_witnesses(ctx, info, cov):
    out = []
    todo = []
    for e in info.get("kindExceptions", []):
        todo.append(("kind", (e[0], e[1]), KIND_WITNESS.get((e[0], e[1]), "missing")))
    for e in info.get("min1Exceptions", []):
        todo.append(("at-least-one", (e[0], e[1]), MIN1_WITNESS.get((e[0], e[1]), "missing")))
    for name, why in info.get("unrecognised", []):
        if "never calls is_oversized" in why:
            todo.append(("no-trailing-check", (name, 0), NO_OVERSIZED_WITNESS.get(name, "missing")))
    for what, key, w in todo:
        if w is None:
            continue
        if w == "missing":
            ctx.report("correspondence:schema-gen-exception-without-witness",
                       "the exception list of KmipModel/Props/C01Gen.lean names %s %s 0x%06X and "
                       "schema_gen_check.py has no witness for it" % (what, key[0], key[1]),
                       {"broken": "exception list vs witnesses", "entry": [what, key[0], key[1]]}, no_input=True)
            continue
        try:
            ok, desc, replay = w()
        except Exception as e:
            ok, desc, replay = False, "witness raised %s: %s" % (type(e).__name__, str(e)[:120]), None
        out.append({"exception": what, "class": key[0], "tag": "0x%06X" % key[1] if key[1] else None, "reproduces": ok,
                    "what": desc})
        if not ok:
            ctx.report("correspondence:schema-gen-stale-exception",
                       "the listed read/write difference %s %s no longer reproduces on /repo: %s" % (what, key[0], desc),
                       {"broken": "exception list of KmipModel/Props/C01Gen.lean (or the unrecognised list) vs /repo",
                        "entry": [what, key[0], key[1]]}, no_input=True)
        elif key in FINDING_SIGNATURES and what == "at-least-one":
            ctx.report(FINDING_SIGNATURES[key], desc, replay)
    cov["schema_gen_witnesses"] = out


def replay(rep):
    """re-run a replay object written by this module (`rep` = the "replay" member of the replay file); True iff the
    property holds on it now.  kinds: "witness" (a constructible value its own reader rejects), "struct-bytes" (an
    accepted child sequence that is not stable under decode-encode-decode)"""
    IC.quiet()
    if rep.get("kind") == "witness":
        if rep.get("name") == "template-empty":
            ok, desc, _ = w_template_empty()
            print(desc)
            return not ok
        print("witness %r documents a reader/writer difference that is not a round-trip violation" % rep.get("name"))
        return True
    if rep.get("kind") == "struct-bytes":
        lib = IC.Library()
        cands = [c for k, (c, own) in sorted(lib.classes.items()) if c.__name__ == rep["class"]]
        if not cands:
            print("class %s not found" % rep["class"])
            return True
        vn = rep["version"]
        if isinstance(vn, str):
            vn = int(vn.replace(".", ""))
        verdict, detail = ded(cands[0], bytes.fromhex(rep["hex"]), vn)
        print("decode-encode-decode on %s under KMIP %s: %s %s" % (rep["class"], VNUM.get(vn, vn), verdict, detail or ""))
        return verdict != "unstable"
    print("unknown replay kind")
    return True


# ---------------------------------------------------------------------------------------------------------
# correspondence
# ---------------------------------------------------------------------------------------------------------

def run(ctx, struct_run, rng, budget_s=None):
    t0 = time.time()
    IC.quiet()
    budget_s = budget_s or (16 if ctx.tier == "quick" else 240)
    outs = ctx.run_model(DRIVER, [json.dumps({"op": "schemas"}), json.dumps({"op": "info"}), json.dumps({"op": "gates"})])
    for o in outs:
        if o.startswith("bad-"):
            raise RuntimeError("driver: %s" % o)
    names, info, gates = json.loads(outs[0]), json.loads(outs[1]), json.loads(outs[2])
    approx = set(info["approx"])
    lenient_writer = {e[0] for e in info["kindExceptions"]} | {e[0] for e in info["min1Exceptions"]}
    cov = {"schema_gen_classes": len(names), "schema_gen_exact": info["exact"], "schema_gen_approx": sorted(approx),
           "schema_gen_unrecognised": [u[0] for u in info["unrecognised"]],
           "schema_gen_gates": len(gates), "schema_gen_gate_samples": gates[:6]}
    byname = {}
    for key, (c, own) in struct_run.lib.classes.items():
        byname.setdefault(c.__name__, []).append(c)
    # classes in an order that changes with the seed; the time budget cuts the tail, never the same classes
    order = list(names)
    rng.shuffle(order)
    cases, skipped, no_examples = [], [], []
    for n in order:
        if time.time() - t0 > budget_s:
            skipped.append(n)
            continue
        got = CC.schema_cases(struct_run, [n], rng, ctx.tier)
        if not got:
            no_examples.append(n)
        cases += got
    lines = [json.dumps({"op": "schema", "name": n, "ver": vn, "hex": b.hex()}) for (n, vn, d, b, acc, st) in cases]
    outs = ctx.run_model(DRIVER, lines) if lines else []
    per, div, lenient, variants = {}, [], 0, {}
    violations = 0
    for (n, vn, d, b, acc, st), out in zip(cases, outs):
        if out.startswith("bad-"):
            raise RuntimeError("driver: %s on %s" % (out, n))
        m = json.loads(out)
        pc = per.setdefault(n, {"cases": 0, "accepted": 0, "model_only": 0})
        pc["cases"] += 1
        pc["accepted"] += 1 if acc else 0
        kind = d.rstrip("0123456789>@:").split(":")[0] if d != "valid" else "valid"
        variants[kind] = variants.get(kind, 0) + 1
        if m.get("why") == "ttlv":
            continue                      # the strict TTLV layer (M1) differs from the lenient Python primitives: C01/C02
        if d == "valid" and not acc:
            continue                      # the class rejects its own encoding: the structure monitors report that
        mok = bool(m.get("ok"))
        if mok and not acc:
            if n in approx:
                lenient += 1
                pc["model_only"] += 1
                continue
            div.append({"class": n, "version": vn, "variant": d, "hex": b.hex(), "impl_accepts": False, "model": m})
            continue
        if acc and not mok:
            # the real reader accepts what the field list rejects: never allowed, approximated or not
            div.append({"class": n, "version": vn, "variant": d, "hex": b.hex(), "impl_accepts": True, "model": m})
            continue
        if not acc:
            continue
        if st is True and m.get("stable") is True:
            continue
        # accepted by both, the real re-encoding is not the input: implementation-only monitor first
        verdict, detail = ded(byname[n][0], b, vn)
        if verdict == "unstable":
            violations += 1
            ctx.report("c01:decode-encode-decode-unstable:%s" % n,
                       "%s under KMIP %s accepts a child sequence (%s) and decode-encode-decode is not stable: %s"
                       % (n, VNUM[vn], d, detail), {"kind": "struct-bytes", "class": n, "version": vn, "hex": b.hex()})
            continue
        if verdict in ("revalued", "refused") and n in lenient_writer:
            pc["reader_more_lenient"] = pc.get("reader_more_lenient", 0) + 1
            continue
        if verdict == "stable" and m.get("stable") is True:
            continue
        div.append({"class": n, "version": vn, "variant": d, "hex": b.hex(), "impl_accepts": True, "impl_stable": st,
                    "impl_verdict": verdict, "model": m})
    cov["schema_gen_cases"] = len(cases)
    cov["schema_gen_per_class"] = {n: per[n] for n in sorted(per)}
    cov["schema_gen_classes_exercised"] = len(per)
    cov["schema_gen_classes_without_examples"] = sorted(no_examples)
    cov["schema_gen_classes_skipped_by_budget"] = sorted(skipped)
    cov["schema_gen_variants"] = dict(sorted(variants.items()))
    cov["schema_gen_model_more_lenient_cases"] = lenient
    cov["schema_gen_divergences"] = len(div)
    cov["schema_gen_violations"] = violations
    if div:
        ctx.report("correspondence:schema-gen", "the regenerated schema tables and the readers/writers of /repo disagree on "
                   "%d child sequences (no decode-encode-decode failure among them), e.g. %s" % (len(div), json.dumps(div[0])[:400]),
                   {"broken": "correspondence KmipModel/Gen/SchemasGen.lean (harness/gen_schemas.py) vs read()/write() of "
                              "the class", "cases": div[:8]}, no_input=True)
    run_witnesses(ctx, info, cov)
    cov["schema_gen_wall_s"] = round(time.time() - t0, 1)
    return cov


# ---------------------------------------------------------------------------------------------------------
# when the Lean side broke (KmipModel.Props.C01Gen does not build on the regenerated tables): failing-input search
# ---------------------------------------------------------------------------------------------------------

def table_differences(report_path=None):
    """(class, what) rows where the regenerated read and write field lists differ, read from schemas_report.json (the
    translator's side file: available even when the Lean build is broken)"""
    report_path = report_path or os.path.join(os.path.dirname(os.path.abspath(__file__)), "..", "..", "lean", "KmipModel",
                                              "Gen", "schemas_report.json")
    rep = json.load(open(report_path))
    rows = []
    for c in rep["classes"]:
        key = lambda f: (f["tag"], f["kind"], f["card"], f["vmin"], f["vmax"], f["slot"], f["at_least_one"])  # noqa: E731
        R, W = [key(f) for f in c["R"]], [key(f) for f in c["W"]]
        if R != W or c["read_class_min"] != c["write_class_min"]:
            diff = [{"read": a, "write": b} for a, b in zip(R, W) if a != b]
            if len(R) != len(W):
                diff.append({"read_fields": len(R), "write_fields": len(W)})
            rows.append((c["name"], diff))
    return rows, rep


def expected_lists():
    """`expectedUnrecognised` / `expectedApprox` of KmipModel/Props/C01Gen.lean (read from the source: the driver
    cannot run when the module does not build)"""
    import re
    path = os.path.join(os.path.dirname(os.path.abspath(__file__)), "..", "..", "lean", "KmipModel", "Props", "C01Gen.lean")
    text = open(path).read()
    out = {}
    for name in ("expectedUnrecognised", "expectedApprox"):
        m = re.search(r"def %s : List String := \[(.*?)\]" % name, text, re.S)
        out[name] = re.findall(r'"([^"]+)"', m.group(1)) if m else None
    return out


def report_unclassified(ctx, rep):
    """a class that dropped out of the regenerated tables (gen_unrecognised_expected) or is newly approximated
    (gen_approx_expected): say which construct at which line stopped the translator, so that the replay file of a
    no-failing-input-found report tells what to teach harness/gen_schemas.py (or what changed in /repo)"""
    exp = expected_lists()
    rows = []
    if exp.get("expectedUnrecognised") is not None:
        now = {u["name"]: u for u in rep.get("unrecognised_classes", [])}
        for name in sorted(set(now) - set(exp["expectedUnrecognised"])):
            u = now[name]
            excerpt = []
            try:
                src_lines = open(os.path.join(rep["repo"], u["file"])).read().split("\n")
                ln = u.get("line") or 1
                excerpt = ["%d: %s" % (k + 1, src_lines[k]) for k in range(max(0, ln - 3), min(len(src_lines), ln + 2))]
            except Exception:
                pass
            rows.append(name)
            ctx.report("correspondence:schema-gen-class-not-classified:%s" % name,
                       "%s dropped out of the regenerated schema tables (gen_unrecognised_expected): the translator "
                       "stopped at %s:%s: %s" % (name, u["file"], u.get("line"), u["reason"]),
                       {"broken": "gen_unrecognised_expected (KmipModel/Props/C01Gen.lean): harness/gen_schemas.py no "
                                  "longer classifies read()/write() of this class; the monitors found no failing input "
                                  "on it",
                        "class": name, "file": u["file"], "line": u.get("line"), "construct": u["reason"],
                        "source": excerpt,
                        "what_to_do": "if the construct is a behaviour-preserving rewrite, teach it to the Normaliser / "
                                      "Reader / Writer of harness/gen_schemas.py and add it to "
                                      "notes/selftest_schema_translator.py; if read()/write() really changed, the class "
                                      "must be looked at by hand before it is added to expectedUnrecognised"},
                       no_input=True)
        for name in sorted(set(exp["expectedUnrecognised"]) - set(now)):
            ctx.report("correspondence:schema-gen-class-now-classified:%s" % name,
                       "%s is listed in expectedUnrecognised and the translator now classifies it: remove it from the "
                       "list (and from handDiffers if it is there)" % name,
                       {"broken": "gen_unrecognised_expected: stale entry", "class": name}, no_input=True)
    if exp.get("expectedApprox") is not None:
        now = {c["name"]: c for c in rep["classes"] if c["approx"]}
        for name in sorted(set(now) - set(exp["expectedApprox"])):
            ctx.report("correspondence:schema-gen-new-approximation:%s" % name,
                       "%s is now translated with an approximation (gen_approx_expected): %s (%s)"
                       % (name, "; ".join(now[name]["approx"]), now[name]["file"]),
                       {"broken": "gen_approx_expected", "class": name, "file": now[name]["file"],
                        "approximations": now[name]["approx"]}, no_input=True)
        for name in sorted(set(exp["expectedApprox"]) - set(now) - {u["name"] for u in rep.get("unrecognised_classes", [])}):
            ctx.report("correspondence:schema-gen-approximation-gone:%s" % name,
                       "%s is listed in expectedApprox and is now translated exactly: remove it from the list" % name,
                       {"broken": "gen_approx_expected: stale entry", "class": name}, no_input=True)
    return rows


def search(ctx, struct_run, rng, max_examples=40):
    """the implementation-only monitors on the classes whose regenerated read and write tables differ (all of them if
    the difference cannot be read off): every example under every version must survive decode(encode(x)) and
    re-encode to the same bytes; every accepted child-level neighbour must be stable under decode-encode-decode.
    Returns the number of monitor evaluations; violations are reported through ctx.report with their bytes."""
    IC.quiet()
    rows, rep = table_differences()
    suspects = [n for n, _ in rows] or [c["name"] for c in rep["classes"]]
    suspects += [u["name"] for u in rep.get("unrecognised_classes", []) if u["name"] not in suspects]
    byname = {}
    for key, (c, own) in struct_run.lib.classes.items():
        byname.setdefault(c.__name__, []).append((key, c))
    n = 0
    for name in suspects:
        for key, cls in byname.get(name, []):
            exs = struct_run.lib.examples.get(key, [])
            idx = list(range(len(exs)))
            rng.shuffle(idx)
            stats, emitted = {}, []
            for i in idx[:max_examples]:
                o, v, origin = exs[i]
                mode = "incomplete" if origin.startswith("engine-built-request") else "strict"
                for f in CC.check_instance(copy.deepcopy(o), name, mode,
                                           {"kind": "struct", "class": key, "origin": origin, "derive": None,
                                            "seed_version": IC.vname(v) if v else None}, stats, emitted):
                    ctx.report(f.signature, f.what, f.replay)
                n += 1
            if name in CC.MESSAGE_CLASSES:
                continue
            for (cn, vn, d, b, acc, st) in CC.schema_cases(struct_run, [name], rng, ctx.tier):
                if acc and st is not True:
                    n += 1
                    verdict, detail = ded(cls, b, vn)
                    if verdict == "unstable":
                        ctx.report("c01:decode-encode-decode-unstable:%s" % name,
                                   "%s under KMIP %s accepts a child sequence (%s) and decode-encode-decode is not "
                                   "stable: %s" % (name, VNUM[vn], d, detail),
                                   {"kind": "struct-bytes", "class": name, "version": vn, "hex": b.hex()})
    # minimal values at the cardinality differences of the two tables: an EMPTY repeated field the writer emits and
    # the reader insists on (the known witnesses first, then every class whose tables differ there)
    for key, w in sorted(MIN1_WITNESS.items()):
        if key not in FINDING_SIGNATURES:
            continue
        try:
            ok, desc, replay_ = w()
        except Exception:
            continue
        n += 1
        if ok:
            ctx.report(FINDING_SIGNATURES[key], desc, replay_)
    dropped = report_unclassified(ctx, rep)
    ctx.coverage["schema_gen_search"] = {"table_differences": [{"class": a, "fields": b} for a, b in rows][:20],
                                         "classes_searched": suspects, "monitor_evaluations": n,
                                         "classes_not_classified": dropped}
    return n
