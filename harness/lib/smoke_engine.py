"""developer smoke test: random histories impl vs model, print first divergences"""
import sys, os, json, collections
sys.path.insert(0, os.path.dirname(os.path.abspath(__file__)))
sys.path.insert(0, os.path.dirname(os.path.dirname(os.path.abspath(__file__))))
import vcheck, gen_engine, diff_engine
seed = int(sys.argv[1]) if len(sys.argv) > 1 else 0
n = int(sys.argv[2]) if len(sys.argv) > 2 else 50
length = int(sys.argv[3]) if len(sys.argv) > 3 else 25
ctx = vcheck.Ctx("SMOKE", "quick", seed, None)
res = diff_engine.gen_and_run_many([seed * 100003 + i for i in range(n)], length)
hs = [r[0] for r in res]; impl = [r[1] for r in res]
model = diff_engine.run_model_many(ctx, hs)
bad = 0
kinds = collections.Counter()
stat = collections.Counter()
for h, a, b in zip(hs, impl, model):
    for o in a:
        if isinstance(o, dict) and "results" in o:
            for r in o["results"]:
                stat[(r["op"], r["status"], r.get("reason"))] += 1
        elif isinstance(o, dict) and "rejected" in o:
            stat[("rejected", o["rejected"])] += 1
    d = diff_engine.first_divergence(h, a, b)
    if d:
        bad += 1
        k, kind, oa, ob = d
        key = json.dumps(h[k].get("req", {}).get("items", [{}])[0].get("op") if h[k]["cmd"] == "req" else h[k]["cmd"])
        kinds[(kind, key)] += 1
        if kinds[(kind, key)] <= 2:
            print("=== divergence at step", k, kind)
            print("line :", json.dumps(h[k])[:1500])
            print("impl :", json.dumps(oa)[:1500])
            print("model:", json.dumps(ob)[:1500])
print("histories", n, "diverging", bad, dict(kinds))
ok = sum(v for k, v in stat.items() if k[1] == "ok"); tot = sum(stat.values())
print("items", tot, "ok", ok, "internal", sum(v for k, v in stat.items() if k[-1] == 256))
if "-v" in sys.argv:
    for k, v in sorted(stat.items(), key=str): print(k, v)
