"""developer tool: run one generated history (seed, idx, length) and print around the first divergence"""
import sys, os, json
sys.path.insert(0, os.path.dirname(os.path.abspath(__file__)))
sys.path.insert(0, os.path.dirname(os.path.dirname(os.path.abspath(__file__))))
import vcheck, gen_engine, diff_engine, impl_engine
seed, idx, length = int(sys.argv[1]), int(sys.argv[2]), int(sys.argv[3])
g = gen_engine.Gen(seed * 100003 + idx)
pol = impl_engine.policies_to_json(impl_engine.core_policy.policies) + gen_engine.random_policies(g)
h = [{"cmd": "policies", "policies": pol}]
for k in range(length):
    h.append(g.line())
    if g.p(0.25): h.append({"cmd": "dump"})
    if g.p(0.03): h.append({"cmd": "restart"})
h.append({"cmd": "dump"})
ctx = vcheck.Ctx("SMOKE", "quick", seed, None)
a = diff_engine.run_impl(h); b = diff_engine.run_model_many(ctx, [h])[0]
d = diff_engine.first_divergence(h, a, b)
print(d and d[0])
if d:
    k = d[0]
    hh = h[:k] + [{"cmd": "dump"}, h[k]]
    a = diff_engine.run_impl(hh); b = diff_engine.run_model_many(ctx, [hh])[0]
    print("DUMP impl :", json.dumps([(o["uid"], o["date"], o["otype"], o["owner"], o["policy"]) for o in a[-2]["objs"]]))
    print("DUMP model:", json.dumps([(o["uid"], o["date"], o["otype"], o["owner"], o["policy"]) for o in b[-2]["objs"]]))
    print("line", json.dumps(h[k]))
    print("impl", json.dumps(a[-1])); print("model", json.dumps(b[-1]))
