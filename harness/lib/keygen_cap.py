"""A bound on key generation for the runs: a corrupted or random request may ask the REAL cryptography backend for an RSA
key of 2**30 bits (one flipped bit of a Cryptographic Length), which it would try to produce for days.  For lengths above
8192 bits the backend's answer is replaced by the error it gives for a key it cannot produce (CryptographicFailure);
everything up to 8192 bits is the real backend.  Installed on the CryptographyEngine CLASS of the tree under test each
time a rig is built (vcheck re-imports kmip after regenerating the tables)."""
MAX_BITS = 8192


def install():
    from kmip.services.server.crypto import engine as ce
    from kmip.core import exceptions
    C = ce.CryptographyEngine
    if getattr(C, "_verif_keygen_cap", False):
        return
    orig_pair, orig_sym = C.create_asymmetric_key_pair, C.create_symmetric_key

    def create_asymmetric_key_pair(self, algorithm, length):
        if isinstance(length, int) and not isinstance(length, bool) and length > MAX_BITS:
            raise exceptions.CryptographicFailure(
                "key pair generation of %d bits is not attempted in a verification run (harness/lib/keygen_cap.py)" % length)
        return orig_pair(self, algorithm, length)

    def create_symmetric_key(self, algorithm, length):
        if isinstance(length, int) and not isinstance(length, bool) and length > (1 << 24):
            raise exceptions.CryptographicFailure(
                "key generation of %d bits is not attempted in a verification run (harness/lib/keygen_cap.py)" % length)
        return orig_sym(self, algorithm, length)
    C.create_asymmetric_key_pair = create_asymmetric_key_pair
    C.create_symmetric_key = create_symmetric_key
    C._verif_keygen_cap = True
