"""
Shared runner for the engine-family properties (C03 C04 C07 C08 C11 C13 C14 C15 C16):
adaptive generation against the real engine with a store dump after every step,
the same lines through the Lean model, comparison under an observation function,
implementation-only monitors, coverage statistics.
"""
import collections
import hashlib
import json
import multiprocessing
import os
import sys

HERE = os.path.dirname(os.path.abspath(__file__))
sys.path.insert(0, HERE)

import diff_engine  # noqa: E402
from gen_engine import dumps  # noqa: E402


UNBUILDABLE = [0]      # requests dropped because /repo refused to construct them (per process)


def gen_history(args):
    """Worker: one adaptive history.  Returns (lines, impl_outs) with a dump after every request."""
    seed, length, profile, scripted, builder = args
    import gen_engine
    import impl_engine
    g = gen_engine.Gen(seed, profile)
    E = impl_engine.ImplEngine(scripted_crypto=scripted)
    h, outs = [], []

    def do(j):
        h.append(j)
        try:
            o = E.handle(j)
        except impl_engine.BuildRefused as e:
            h.pop()                          # never sent: neither side sees it
            UNBUILDABLE[0] += 1
            return {"unbuildable": str(e)}
        except Exception as e:
            import traceback
            o = {"harness_error": "%s: %s" % (type(e).__name__, e), "tb": traceback.format_exc()[-1500:]}
        if isinstance(o, dict) and "results" in o and E.internal_errors:
            o = dict(o)
            o["_internal"] = list(E.internal_errors)
        outs.append(o)
        g.observe(j, o)
        return o
    try:
        pol = None
        if not (profile or {}).get("builtin_policies_only"):
            pol = impl_engine.policies_to_json(impl_engine.core_policy.policies) + gen_engine.random_policies(g)
            do({"cmd": "policies", "policies": pol})
        do({"cmd": "dump"})
        if builder is not None:
            import importlib
            mod, fn = builder.rsplit(".", 1)
            getattr(importlib.import_module(mod), fn)(g, E, do, length)
        else:
            for _ in range(length):
                do(g.line())
                do({"cmd": "dump"})
                if g.p((profile or {}).get("restart", 0.03)):
                    do({"cmd": "restart"})
                    if pol is not None:
                        do({"cmd": "policies", "policies": pol})
    finally:
        E.close()
    return h, outs


def run_many(seeds, length, profile=None, scripted=True, builder=None, procs=None):
    procs = procs or min(16, max(1, os.cpu_count() or 1))
    args = [(s, length, profile, scripted, builder) for s in seeds]
    if len(seeds) <= 2 or procs == 1:
        return [gen_history(a) for a in args]
    ctx = multiprocessing.get_context("fork")
    with ctx.Pool(procs) as pool:
        return pool.map(gen_history, args, chunksize=max(1, len(seeds) // (procs * 4)))


class Stats(object):
    def __init__(self):
        self.items = 0
        self.requests = 0
        self.outcomes = collections.Counter()
        self.ops = collections.Counter()
        self.distinct = set()
        self.samples = []
        self.internal = collections.Counter()
        self.wire = 0

    def add_history(self, h, outs, nontrivial=None):
        for j, o in zip(h, outs):
            if j.get("cmd") != "req" or not isinstance(o, dict):
                continue
            self.requests += 1
            if "rejected" in o:
                self.outcomes["rejected:%s" % o["rejected"]] += 1
                continue
            for it, r in zip(j["req"]["items"], o.get("results", [])):
                self.items += 1
                self.ops[it["op"]] += 1
                key = "%s:%s" % (r.get("status"), r.get("reason"))
                self.outcomes[key] += 1
            if o.get("_wire"):
                self.wire += 1
            for ie in o.get("_internal", []):
                self.internal["%s@%s" % (ie["exc"], ie["site"])] += 1
            if nontrivial is None or nontrivial(j, o):
                d = hashlib.sha1(dumps([j["req"], j["id"], obs_shape(o)]).encode()).hexdigest()
                if d not in self.distinct:
                    self.distinct.add(d)
                    if len(self.samples) < 4:
                        self.samples.append({"line": j, "impl": diff_engine.obs_out(o)})

    def coverage(self, rule, extra=None):
        cov = {
            "evaluations": self.items,
            "requests": self.requests,
            "distinct_nontrivial": len(self.distinct),
            "rule": rule,
            "samples": self.samples,
            "operation_distribution": dict(self.ops),
            "outcome_distribution": dict(self.outcomes),
            "internal_error_sites": dict(self.internal),
            "requests_through_the_real_decoder": self.wire,
        }
        if extra:
            cov.update(extra)
        return cov


def obs_shape(o):
    if "results" in o:
        return [(r.get("status"), r.get("reason")) for r in o["results"]]
    return o.get("rejected")


def correspondence(ctx, histories, obs=diff_engine.obs_out, what="engine model vs KmipEngine"):
    """Run all histories through the Lean model and compare.  Returns list of divergences."""
    # lines the implementation side could not even build are dropped on both sides
    histories = [([j for j, o in zip(h, outs) if not (isinstance(o, dict) and "unbuildable" in o)],
                  [o for o in outs if not (isinstance(o, dict) and "unbuildable" in o)]) if any(
                      isinstance(o, dict) and "unbuildable" in o for o in outs) else (h, outs) for h, outs in histories]
    hs = [h for h, _ in histories]
    model = diff_engine.run_model_many(ctx, hs)
    divs = []
    for (h, impl), m in zip(histories, model):
        d = diff_engine.first_divergence(h, impl, m, obs)
        if d:
            k, kind, a, b = d
            divs.append({"step": k, "kind": kind, "history": h[:k + 1], "impl": a, "model": b})
    return divs


def shrink_history(ctx, h, still_diverges, budget=40):
    """Greedy delta-debugging on the request lines before the diverging one."""
    cur = list(h)
    n = 0
    changed = True
    while changed and n < budget:
        changed = False
        for i in range(len(cur) - 2, -1, -1):
            if cur[i].get("cmd") in ("policies",):
                continue
            cand = cur[:i] + cur[i + 1:]
            n += 1
            if n > budget:
                break
            if still_diverges(cand):
                cur = cand
                changed = True
    return cur


def diverges_fn(ctx, obs=diff_engine.obs_out):
    def f(h):
        impl = diff_engine.run_impl(h)
        model = diff_engine.run_model_many(ctx, [h])[0]
        return diff_engine.first_divergence(h, impl, model, obs) is not None
    return f


# ---------------------------------------------------------------------------
def load_corpus(pid):
    d = os.path.join(os.path.dirname(os.path.dirname(HERE)), "corpus", pid)
    out = []
    if os.path.isdir(d):
        for f in sorted(os.listdir(d)):
            if f.endswith(".json"):
                out.append((f, json.load(open(os.path.join(d, f)))))
    return out


def with_dumps(h):
    """make sure every request line of a stored history is followed by a dump"""
    out = []
    for k, j in enumerate(h):
        out.append(j)
        if j.get("cmd") == "req" and not (k + 1 < len(h) and h[k + 1].get("cmd") == "dump"):
            out.append({"cmd": "dump"})
    if not out or out[0].get("cmd") != "dump":
        pass
    return out


def split_resets(histories):
    """monitors keep per-history state: cut every history at `reset` commands"""
    out = []
    for h, outs in histories:
        ch, co = [], []
        for j, o in zip(h, outs):
            if j.get("cmd") == "reset":
                if ch:
                    out.append((ch, co))
                ch, co = [], []
            else:
                ch.append(j)
                co.append(o)
        if ch:
            out.append((ch, co))
    return out


def report_monitor_failures(ctx, histories, monitors, tag=""):
    n = 0
    for h, outs in split_resets(histories):
        for mon in monitors:
            for sig, what, idx in mon(h, outs):
                end = idx + 2 if idx + 1 < len(h) and h[idx + 1].get("cmd") == "dump" else idx + 1
                if ctx.report(sig, what, {"kind": "engine-history", "lines": h[:end], "failing_step": idx,
                                          "impl_output": outs[idx]}):
                    n += 1
    return n


def standard_run(ctx, profile, monitors, nontrivial, rule, n_quick, n_thorough, length,
                 obs=diff_engine.obs_out, builder=None, scripted=True, extra_cov=None, seeds=None):
    n = n_quick if ctx.tier == "quick" else n_thorough
    stats = Stats()
    # 1. corpus first
    corpus = load_corpus(ctx.pid)
    chist = []
    for name, lines in corpus:
        lines = with_dumps(lines)
        chist.append((lines, diff_engine.run_impl(lines, scripted=scripted, keep_internal=True)))
    # 2. generated histories
    if seeds is None:
        seeds = [ctx.seed * 1000003 + i for i in range(n)]
    histories = run_many(seeds, length, profile, scripted, builder)
    allh = chist + histories
    for h, outs in allh:
        for o in outs:
            if isinstance(o, dict) and "harness_error" in o:
                raise RuntimeError("harness error while driving the engine: %s\n%s" % (o["harness_error"], o.get("tb")))
        stats.add_history(h, outs, nontrivial)
    # 3. monitors
    report_monitor_failures(ctx, allh, monitors)
    # 4. correspondence
    divs = correspondence(ctx, allh, obs)
    ctx.coverage.update(stats.coverage(rule, extra_cov))
    ctx.coverage["traces_validated_against_impl"] = len(allh)
    ctx.coverage["corpus_cases"] = len(corpus)
    ctx.coverage["correspondence_divergences"] = len(divs)
    if divs and not ctx.violations:
        # 5. failing-input search: more histories under the monitors, biased to the operations involved
        ops = collections.Counter()
        for d in divs:
            j = d["history"][-1]
            if j.get("cmd") == "req":
                for it in j["req"]["items"]:
                    ops[it["op"]] += 3
        prof = dict(profile or {})
        if ops:
            base = {op: 1 for op in __import__("gen_engine").OPS_ALL}
            base.update(ops)
            prof["ops"] = base
        more = run_many([ctx.seed * 7919 + 500000 + i for i in range(max(n, 60) * 2)], length, prof, scripted, builder)
        report_monitor_failures(ctx, more, monitors)
        ctx.coverage["search_histories"] = len(more)
    if divs and not ctx.violations:
        d = divs[0]
        try:
            small = shrink_history(ctx, d["history"], diverges_fn(ctx, obs))
        except Exception:
            small = d["history"]
        ctx.report("correspondence:engine-model",
                   "engine model and KmipEngine disagree under the observation of %s (%d diverging histories); "
                   "no monitor failed on any explored history" % (ctx.pid, len(divs)),
                   {"kind": "correspondence", "broken": "correspondence Drivers/Engine.lean vs KmipEngine",
                    "lines": small, "impl": d["impl"], "model": d["model"]}, no_input=True)
    return stats


def scenario_run(ctx, builder, monitors, nontrivial, rule, n_quick, n_thorough, length, key, seed_base=800000,
                 profile=None):
    """a second standard_run with a scripted scenario builder; its numbers are ADDED to the coverage of the run
    before it and kept under `key`"""
    cov = dict(ctx.coverage)
    n = n_quick if ctx.tier == "quick" else n_thorough
    standard_run(ctx, profile or {"builtin_policies_only": True}, monitors, nontrivial, rule, n_quick=n, n_thorough=n,
                 length=length, builder=builder, seeds=[ctx.seed * 1000003 + seed_base + i for i in range(n)])
    sc = dict(ctx.coverage)
    ctx.coverage.update(cov)
    for k in ("evaluations", "distinct_nontrivial", "traces_validated_against_impl"):
        ctx.coverage[k] = (cov.get(k) or 0) + (sc.get(k) or 0)
    ctx.coverage[key] = {k: sc.get(k) for k in ("evaluations", "distinct_nontrivial", "correspondence_divergences")}


def standard_search(ctx, profile, monitors, length, builder=None, scripted=True, n=150):
    """proof obligations broke: look for a concrete failing history on the implementation"""
    hs = run_many([ctx.seed * 104729 + 900000 + i for i in range(n)], length, profile, scripted, builder)
    report_monitor_failures(ctx, hs, monitors)
    ctx.coverage["evaluations"] = sum(1 for h, _ in hs for j in h if j.get("cmd") == "req")
    ctx.coverage["search_histories"] = len(hs)


def standard_replay(ctx, rep, monitors, scripted=True):
    r = rep.get("replay", rep)
    lines = with_dumps(r["lines"])
    outs = diff_engine.run_impl(lines, scripted=scripted, keep_internal=True)
    bad = []
    for mon in monitors:
        bad += mon(lines, outs)
    for b in bad:
        print("  monitor:", b[0], "-", b[1])
    return not bad
