"""
Seeded generators for the client check (C19): argument values for every client
operation, legal (and a few illegal) responses, chunk plans.  Everything is plain
JSON (see impl_client.pyval) so that a case can be written to a replay file.
"""
from kmip.core import enums

import impl_client as IC

E = enums
TEXT_LENGTHS = [1, 2, 3, 7, 8, 9, 15, 16, 17, 24, 31, 32, 36, 64]
ALPHABET = "abcdefghijklmnopqrstuvwxyzABCDEFGHIJKLMNOPQRSTUVWXYZ0123456789 -_./:+=@#"
MASKS = [m.name for m in E.CryptographicUsageMask]
REASONS = [r.value for r in E.ResultReason]
SYM_ALGS = ["AES", "TRIPLE_DES", "BLOWFISH", "CAMELLIA"]


def en(cls, name):
    return {"E": [cls, name]}


def pick_enum(rng, cls):
    return en(cls, rng.choice([m.name for m in getattr(E, cls)]))


def g_text(rng, allow_empty=False):
    n = rng.choice(TEXT_LENGTHS + ([0] if allow_empty else []))
    return "".join(rng.choice(ALPHABET) for _ in range(n))


def g_uid(rng):
    r = rng.random()
    if r < 0.35:
        return str(rng.randrange(1, 100000))
    if r < 0.5:
        return "%08x-%04x-%04x-%04x-%012x" % (rng.getrandbits(32), rng.getrandbits(16), rng.getrandbits(16),
                                               rng.getrandbits(16), rng.getrandbits(48))
    return g_text(rng)


def g_bytes(rng, allow_empty=True, lengths=None):
    n = rng.choice(lengths or ([0] if allow_empty else []) + [1, 7, 8, 9, 16, 20, 32, 33, 48, 100])
    return {"hex": bytes(rng.getrandbits(8) for _ in range(n)).hex()}


def g_masks(rng, allow_empty=True):
    k = rng.randrange(0 if allow_empty else 1, 4)
    return {"Es": ["CryptographicUsageMask", rng.sample(MASKS, k)]}


def maybe(rng, f, p=0.5):
    return f() if rng.random() < p else None


def put(d, k, v):
    """optional argument: absent when None (the method's default applies)"""
    if v is not None:
        d[k] = v


def g_cp(rng):
    cp = {}
    for f, _, cls in IC.CP_FIELDS:
        if rng.random() < 0.35:
            if cls:
                cp[f] = pick_enum(rng, cls)
            elif f == "random_iv":
                cp[f] = rng.random() < 0.5
            else:
                cp[f] = rng.choice([0, 1, 8, 12, 16, 96, 128, 65535])
    return cp


def g_attr(rng, version, for_request=False):
    """one attribute spec valid under `version`"""
    kinds = ["Name", "Cryptographic Algorithm", "Cryptographic Length", "Cryptographic Usage Mask", "Object Group",
             "Contact Information", "State", "Activation Date", "Application Specific Information"]
    if version < 20:
        kinds.append("Operation Policy Name")
    if version >= 14:
        kinds.append("Sensitive")
    n = rng.choice(kinds)
    idx = rng.choice([None, 0, 1, 5])
    if n == "Name":
        v = [g_text(rng), rng.choice(["UNINTERPRETED_TEXT_STRING", "URI"])]
    elif n == "Cryptographic Algorithm":
        v = pick_enum(rng, "CryptographicAlgorithm")
    elif n == "Cryptographic Length":
        v = rng.choice([0, 1, 56, 128, 192, 256, 2048, 4096, 2 ** 31 - 1])
    elif n == "Cryptographic Usage Mask":
        v = g_masks(rng)
    elif n in ("Object Group", "Contact Information", "Operation Policy Name"):
        v = g_text(rng)
    elif n == "State":
        v = pick_enum(rng, "State")
    elif n == "Activation Date":
        v = rng.choice([0, 1, 1000, 1500000000, 2 ** 31 - 1])
    elif n == "Sensitive":
        v = rng.random() < 0.5
    else:
        v = [g_text(rng), g_text(rng)]
    return {"name": n, "index": idx, "value": v}


def g_pie_object(rng):
    kind = rng.choice(["SymmetricKey", "SymmetricKey", "PublicKey", "PrivateKey", "X509Certificate", "SecretData",
                       "OpaqueObject"])
    o = {"kind": kind}
    if kind == "SymmetricKey":
        o["alg"] = rng.choice(SYM_ALGS)
        o["len"] = rng.choice([64, 128, 192, 256])
        o["value"] = bytes(rng.getrandbits(8) for _ in range(o["len"] // 8)).hex()
    elif kind in ("PublicKey", "PrivateKey"):
        o["alg"] = rng.choice(["RSA", "EC", "DSA"])
        o["len"] = rng.choice([256, 1024, 2048])
        o["format"] = rng.choice(["X_509", "PKCS_1"] if kind == "PublicKey" else ["PKCS_8", "PKCS_1"])
        o["value"] = g_bytes(rng, False)["hex"]
    elif kind == "SecretData":
        o["dtype"] = rng.choice(["PASSWORD", "SEED"])
        o["value"] = g_bytes(rng, False)["hex"]
    elif kind == "OpaqueObject":
        o["dtype"] = "NONE"
        o["value"] = g_bytes(rng, False)["hex"]
    else:
        o["value"] = g_bytes(rng, False)["hex"]
    if kind in ("SymmetricKey", "PublicKey", "PrivateKey") and rng.random() < 0.35:
        # key wrapping data with BOTH key information structures and different, non-empty parameter sets
        def ki():
            cp = {}
            while not cp:
                for f, _, cls in IC.CP_FIELDS:
                    if rng.random() < 0.3:
                        cp[f] = pick_enum(rng, cls)["E"][1] if cls else (True if f == "random_iv" else
                                                                          rng.choice([1, 8, 12, 16, 96, 128]))
            return {"uid": g_uid(rng), "cp": cp}
        w = {"method": rng.choice(["ENCRYPT", "MAC_SIGN", "ENCRYPT_THEN_MAC_SIGN", "MAC_SIGN_THEN_ENCRYPT"]),
             "enc": ki() if rng.random() < 0.8 else None, "mac": ki() if rng.random() < 0.7 else None,
             "mac_signature": g_bytes(rng, False)["hex"] if rng.random() < 0.4 else None,
             "iv": g_bytes(rng, False)["hex"] if rng.random() < 0.4 else None,
             "encoding": rng.choice([None, "NO_ENCODING", "TTLV_ENCODING"])}
        o["wrapping"] = w
    if kind != "OpaqueObject":
        o["masks"] = g_masks(rng)["Es"][1]
    put(o, "name", maybe(rng, lambda: g_text(rng)))
    put(o, "policy", maybe(rng, lambda: g_text(rng), 0.3))
    if rng.random() < 0.3:
        o["more_names"] = [g_text(rng) for _ in range(rng.randrange(1, 3))]
    return o


def form20(rng, version):
    """use the KMIP 2.0 argument form?  (mostly the one that fits the version; sometimes the other: the client must refuse)"""
    return (version >= 20) != (rng.random() < 0.08)


def gen_args(op, rng, version):
    a = {}
    U = lambda: put(a, "uid", maybe(rng, lambda: g_uid(rng), 0.85))  # noqa: E731
    if op == "create":
        a["algorithm"] = en("CryptographicAlgorithm", rng.choice(SYM_ALGS))
        a["length"] = rng.choice([1, 56, 128, 192, 256, 4096])
        put(a, "operation_policy_name", maybe(rng, lambda: g_text(rng, True), 0.3 if version < 20 else 0.05))
        put(a, "name", maybe(rng, lambda: g_text(rng, True)))
        put(a, "cryptographic_usage_mask", maybe(rng, lambda: g_masks(rng)))
    elif op == "create_key_pair":
        a["algorithm"] = en("CryptographicAlgorithm", rng.choice(["RSA", "EC", "DSA"]))
        a["length"] = rng.choice([256, 512, 1024, 2048, 4096])
        put(a, "operation_policy_name", maybe(rng, lambda: g_text(rng, True), 0.3 if version < 20 else 0.05))
        put(a, "public_name", maybe(rng, lambda: g_text(rng, True)))
        put(a, "private_name", maybe(rng, lambda: g_text(rng, True)))
        put(a, "public_usage_mask", maybe(rng, lambda: g_masks(rng)))
        put(a, "private_usage_mask", maybe(rng, lambda: g_masks(rng)))
    elif op == "register":
        a["object"] = g_pie_object(rng)
        if version >= 20:
            a["object"].pop("policy", None)
    elif op == "rekey":
        U()
        put(a, "offset", maybe(rng, lambda: rng.choice([0, 1, 60, 86400, 2 ** 31 - 1])))
        for k in ("activation_date", "process_start_date", "protect_stop_date", "deactivation_date"):
            put(a, k, maybe(rng, lambda: rng.choice([0, 1, 1000, 1500000000]), 0.4))
    elif op == "derive_key":
        a["object_type"] = en("ObjectType", rng.choice(["SYMMETRIC_KEY", "SECRET_DATA"]))
        a["unique_identifiers"] = [g_uid(rng) for _ in range(rng.randrange(1, 4))]
        a["derivation_method"] = pick_enum(rng, "DerivationMethod")
        dp = {}
        put(dp, "cryptographic_parameters", maybe(rng, lambda: g_cp(rng), 0.7))
        put(dp, "initialization_vector", maybe(rng, lambda: g_bytes(rng, False), 0.4))
        put(dp, "derivation_data", maybe(rng, lambda: g_bytes(rng, False), 0.6))
        put(dp, "salt", maybe(rng, lambda: g_bytes(rng, False), 0.4))
        put(dp, "iteration_count", maybe(rng, lambda: rng.choice([1, 1000, 2 ** 31 - 1]), 0.4))
        a["derivation_parameters"] = dp
        put(a, "cryptographic_length", maybe(rng, lambda: rng.choice([0, 128, 256])))
        put(a, "cryptographic_algorithm", maybe(rng, lambda: en("CryptographicAlgorithm", rng.choice(SYM_ALGS))))
        put(a, "cryptographic_usage_mask", maybe(rng, lambda: g_masks(rng)))
    elif op == "locate":
        put(a, "maximum_items", maybe(rng, lambda: rng.choice([0, 1, 10, 2 ** 31 - 1])))
        put(a, "offset_items", maybe(rng, lambda: rng.choice([0, 1, 10])))
        put(a, "storage_status_mask", maybe(rng, lambda: rng.choice([1, 2, 3])))
        put(a, "object_group_member", maybe(rng, lambda: pick_enum(rng, "ObjectGroupMember")))
        put(a, "attributes", maybe(rng, lambda: [g_attr(rng, version) for _ in range(rng.randrange(0, 4))], 0.7))
    elif op == "check":
        U()
        put(a, "usage_limits_count", maybe(rng, lambda: rng.choice([0, 1, 500, 2 ** 40])))
        put(a, "cryptographic_usage_mask", maybe(rng, lambda: g_masks(rng), 0.6))
        put(a, "lease_time", maybe(rng, lambda: rng.choice([0, 1, 3600, 2 ** 32 - 1])))
    elif op == "get":
        U()
        if rng.random() < 0.4:
            w = {"wrapping_method": pick_enum(rng, "WrappingMethod")}

            def ki():
                d = {"unique_identifier": g_uid(rng)}
                put(d, "cryptographic_parameters", maybe(rng, lambda: g_cp(rng)))
                return d
            put(w, "encryption_key_information", maybe(rng, ki, 0.7))
            put(w, "mac_signature_key_information", maybe(rng, ki, 0.3))
            put(w, "attribute_names", maybe(rng, lambda: [g_text(rng) for _ in range(rng.randrange(0, 3))], 0.4))
            put(w, "encoding_option", maybe(rng, lambda: pick_enum(rng, "EncodingOption")))
            a["key_wrapping_specification"] = w
    elif op == "get_attributes":
        U()
        put(a, "attribute_names", maybe(rng, lambda: [rng.choice(["Name", "State", "Object Type", "x-custom",
                                                                   "Cryptographic Algorithm", g_text(rng)])
                                                       for _ in range(rng.randrange(0, 4))], 0.7))
    elif op in ("get_attribute_list", "activate", "destroy"):
        U()
    elif op == "revoke":
        a["revocation_reason"] = pick_enum(rng, "RevocationReasonCode")
        U()
        put(a, "revocation_message", maybe(rng, lambda: g_text(rng, True)))
        put(a, "compromise_occurrence_date", maybe(rng, lambda: rng.choice([0, 1000, 1500000000])))
    elif op in ("encrypt", "decrypt"):
        a["data"] = g_bytes(rng)
        U()
        put(a, "cryptographic_parameters", maybe(rng, lambda: g_cp(rng), 0.7))
        put(a, "iv_counter_nonce", maybe(rng, lambda: g_bytes(rng)))
    elif op == "signature_verify":
        a["message"] = g_bytes(rng)
        a["signature"] = g_bytes(rng)
        U()
        put(a, "cryptographic_parameters", maybe(rng, lambda: g_cp(rng), 0.7))
    elif op == "sign":
        a["data"] = g_bytes(rng)
        U()
        put(a, "cryptographic_parameters", maybe(rng, lambda: g_cp(rng), 0.7))
    elif op == "mac":
        a["data"] = g_bytes(rng)
        U()
        put(a, "algorithm", maybe(rng, lambda: en("CryptographicAlgorithm", rng.choice(
            ["HMAC_SHA1", "HMAC_SHA256", "HMAC_SHA512", "AES"])), 0.8))
    elif op == "delete_attribute":
        U()
        if form20(rng, version):
            if rng.random() < 0.5:
                a["current_attribute"] = g_attr(rng, 20)
            else:
                a["attribute_reference"] = [g_text(rng), rng.choice(["Name", "Object Group", "State"])]
        else:
            a["attribute_name"] = rng.choice(["Name", "Object Group", "x-custom", "Contact Information", g_text(rng)])
            put(a, "attribute_index", maybe(rng, lambda: rng.choice([0, 1, 7])))
    elif op == "set_attribute":
        U()
        a["attribute"] = g_attr(rng, 20)
    elif op == "modify_attribute":
        U()
        if form20(rng, version):
            put(a, "current_attribute", maybe(rng, lambda: g_attr(rng, 20)))
            a["new_attribute"] = g_attr(rng, 20)
        else:
            a["attribute"] = g_attr(rng, version)
    elif op == "query":
        a["query_functions"] = {"Es": ["QueryFunction", rng.sample(
            ["QUERY_OPERATIONS", "QUERY_OBJECTS", "QUERY_SERVER_INFORMATION", "QUERY_APPLICATION_NAMESPACES"],
            rng.randrange(1, 4))]}
    elif op == "discover_versions":
        put(a, "protocol_versions", maybe(rng, lambda: rng.sample([10, 11, 12, 13, 14, 20, 9, 30],
                                                                  rng.randrange(0, 4)), 0.7))
    elif op == "rekey_key_pair":
        U()
        put(a, "offset", maybe(rng, lambda: rng.choice([0, 60, 86400])))
    else:
        raise ValueError(op)
    return a


def gen_payload(op, rng, version):
    """a legal success payload for `op`"""
    if op in ("create", "register", "rekey", "derive_key", "set_attribute", "activate", "revoke", "destroy"):
        return {"uid": g_uid(rng)}
    if op in ("create_key_pair", "rekey_key_pair"):
        return {"public": g_uid(rng), "private": g_uid(rng)}
    if op == "locate":
        us = [g_uid(rng) for _ in range(rng.choice([0, 1, 2, 5]))]
        return {"uids": us, "located": len(us) + rng.randrange(0, 3)}
    if op == "check":
        s = {"uid": g_uid(rng)}
        put(s, "count", maybe(rng, lambda: rng.choice([0, 1, 500]), 0.3))
        put(s, "mask", maybe(rng, lambda: rng.choice([1, 12, 0xFFFFF]), 0.3))
        put(s, "lease", maybe(rng, lambda: rng.choice([0, 3600]), 0.3))
        return s
    if op == "get":
        o = g_pie_object(rng)
        for k in ("name", "policy", "more_names"):
            o.pop(k, None)
        return {"uid": g_uid(rng), "object": o}
    if op == "get_attributes":
        return {"uid": g_uid(rng), "attributes": [g_attr(rng, version) for _ in range(rng.randrange(1 if version >= 20 else 0, 5))]}
    if op == "get_attribute_list":
        pool = ["Name", "State", "Object Type", "Cryptographic Algorithm", "Cryptographic Length", "Unique Identifier",
                "Initial Date", "Cryptographic Usage Mask", "Activation Date", "Object Group"]
        if version < 20:        # KMIP 2.0 sends attribute references (tags): only standard names can travel as tags
            pool += ["Operation Policy Name", "x-zeta", "x-Alpha", "x-"]
        elif rng.random() < 0.5:
            # ... vendor attributes travel as Attribute Reference STRUCTURES, next to the tags of the standard ones
            pool += ["x-zeta", "x-Alpha", "x-Colour"]
        return {"uid": g_uid(rng), "names": rng.sample(pool, rng.randrange(1, len(pool)))}
    if op == "encrypt":
        s = {"uid": g_uid(rng), "data": g_bytes(rng)["hex"]}
        put(s, "iv", maybe(rng, lambda: g_bytes(rng, False)["hex"]))
        return s
    if op == "decrypt":
        return {"uid": g_uid(rng), "data": g_bytes(rng)["hex"]}
    if op == "signature_verify":
        return {"uid": g_uid(rng), "validity": rng.choice(["VALID", "INVALID", "UNKNOWN"])}
    if op == "sign":
        return {"uid": g_uid(rng), "signature": g_bytes(rng)["hex"]}
    if op == "mac":
        return {"uid": g_uid(rng), "mac": g_bytes(rng, False)["hex"]}
    if op in ("delete_attribute", "modify_attribute"):
        s = {"uid": g_uid(rng)}
        if version < 20:
            s["attribute"] = g_attr(rng, version)
        return s
    if op == "query":
        s = {"operations": rng.sample([o.name for o in E.Operation][:30], rng.randrange(0, 8)),
             "object_types": rng.sample([o.name for o in E.ObjectType][:8], rng.randrange(0, 4))}
        put(s, "vendor", maybe(rng, lambda: g_text(rng)))
        put(s, "namespaces", maybe(rng, lambda: [g_text(rng) for _ in range(rng.randrange(1, 3))]))
        return s
    if op == "discover_versions":
        return {"versions": rng.sample([20, 14, 13, 12, 11, 10], rng.randrange(0, 6))}
    raise ValueError(op)


RESPONSE_CLASSES = ["success", "failure-msg", "failure-nomsg", "reqfail-msg", "reqfail-nomsg", "corrupt", "truncated",
                    "early-close"]


def gen_resp(op, rng, version, cls):
    """a response spec of class `cls` (+ whether the chunk plan must truncate)"""
    def failure(echo, with_msg):
        return {"echo": echo, "status": rng.choice([1, 1, 1, 1, 2, 3]), "reason": rng.choice(REASONS),
                "message": (g_text(rng, True) if with_msg else None), "payload": None}
    if cls == "success":
        # (KMIP: Result Reason is REQUIRED on failure and optional otherwise, Result Message is optional: a success
        # that carries either is a legal response)
        x = rng.random()
        return {"echo": "same", "status": 0, "reason": rng.choice(REASONS) if x < 0.12 else None,
                "message": g_text(rng, True) if 0.08 < x < 0.2 else None, "payload": gen_payload(op, rng, version)}
    if cls == "failure-msg":
        return failure("same", True)
    if cls == "failure-nomsg":
        return failure("same", False)
    if cls == "reqfail-msg":        # request-level error: no operation echoed (e.g. the server's error responses)
        return failure("absent", True)
    if cls == "reqfail-nomsg":
        return failure("absent", False)
    if cls in ("corrupt", "truncated", "early-close"):
        r = gen_resp(op, rng, version, rng.choice(["success", "success", "failure-msg"]))
        if cls == "corrupt":
            r["corrupt"] = rng.choice(["tag", "type", "inner-length", "garbage"])
        return r
    if cls == "wrong-operation":
        r = gen_resp(op, rng, version, "success")
        r["echo"] = "other"
        r["payload"] = None
        return r
    if cls == "two-items":
        r = gen_resp(op, rng, version, "success")
        r["items"] = 2
        return r
    raise ValueError(cls)


def gen_chunk(rng, cls):
    """how the response bytes are delivered"""
    c = {}
    r = rng.random()
    if r < 0.2:
        c["sizes"] = []                                   # one piece
    elif r < 0.35:
        c["sizes"] = [1]                                  # byte by byte
    elif r < 0.5:
        c["sizes"] = [rng.randrange(1, 8), rng.randrange(1, 8), 4096]   # header split
    elif r < 0.6:
        c["sizes"] = [8, 4096]                            # header | body
    else:
        c["sizes"] = [rng.choice([1, 2, 3, 5, 7, 8, 9, 13, 16, 31, 64, 100, 1000]) for _ in range(rng.randrange(1, 6))]
    if cls == "truncated":
        c["truncate_frac"] = rng.choice([0.0, 0.0, rng.random(), rng.random(), 0.999])
        if rng.random() < 0.3:
            c["truncate"] = rng.choice([0, 1, 4, 7, 8, 9, 12, 16])
            del c["truncate_frac"]
    if cls == "early-close" and rng.random() < 0.4:
        # the transport FAILS part-way (time-out, reset) instead of ending: recv() raises after some pieces
        c["raise_after"] = rng.randrange(0, 3)
        c["raise"] = rng.choice(["timeout", "reset"])
        if not c["sizes"]:
            c["sizes"] = [rng.choice([3, 8, 11, 61])]
    elif cls == "early-close":
        c["empty_after"] = rng.randrange(0, 3)
        if not c["sizes"]:
            c["sizes"] = [rng.choice([3, 8, 11])]
    return c


def gen_case(rng, op, version, cls):
    return {"op": op, "version": version, "cls": cls, "args": gen_args(op, rng, version),
            "resp": gen_resp(op, rng, version, cls), "chunk": gen_chunk(rng, cls)}


# -- engine-backed conversations --------------------------------------------
def gen_engine_script(rng, version):
    """a conversation with a real engine: creation, use, attribute access, lifecycle, failures.
    "$k" in a uid position = the identifier returned by step k."""
    S = []

    def A(op, args):
        S.append([op, args])
        return "$%d" % (len(S) - 1)
    cbc = {"block_cipher_mode": en("BlockCipherMode", "CBC"), "padding_method": en("PaddingMethod", "PKCS5"),
           "cryptographic_algorithm": en("CryptographicAlgorithm", "AES")}
    key = A("create", {"algorithm": en("CryptographicAlgorithm", "AES"), "length": rng.choice([128, 256]),
                       "name": g_text(rng),
                       "cryptographic_usage_mask": {"Es": ["CryptographicUsageMask",
                                                           ["MAC_GENERATE", "SIGN", "DERIVE_KEY"]]}})
    A("get", {"uid": key})
    A("get_attributes", {"uid": key, "attribute_names": ["Name", "State", "Cryptographic Length"]})
    A("get_attributes", {"uid": key})
    A("get_attribute_list", {"uid": key})
    A("encrypt", {"data": g_bytes(rng, False), "uid": key, "cryptographic_parameters": cbc,
                  "iv_counter_nonce": g_bytes(rng, False, [16])})             # pre-active: refused
    A("activate", {"uid": key})
    A("encrypt", {"data": g_bytes(rng, False), "uid": key, "cryptographic_parameters": cbc,
                  "iv_counter_nonce": g_bytes(rng, False, [16])})
    A("decrypt", {"data": g_bytes(rng, False, [16, 32]), "uid": key, "cryptographic_parameters": cbc,
                  "iv_counter_nonce": g_bytes(rng, False, [16])})             # random ciphertext: padding may fail
    A("mac", {"data": g_bytes(rng, False), "uid": key, "algorithm": en("CryptographicAlgorithm", "HMAC_SHA256")})
    A("derive_key", {"object_type": en("ObjectType", "SYMMETRIC_KEY"), "unique_identifiers": [key],
                     "derivation_method": en("DerivationMethod", "HMAC"),
                     "derivation_parameters": {"cryptographic_parameters": {"hashing_algorithm":
                                                                            en("HashingAlgorithm", "SHA_256")},
                                               "derivation_data": g_bytes(rng, False), "salt": g_bytes(rng, False)},
                     "cryptographic_length": 128, "cryptographic_algorithm": en("CryptographicAlgorithm", "AES")})
    obj = g_pie_object(rng)
    obj.pop("policy", None)
    reg = A("register", {"object": obj})
    A("get", {"uid": reg})
    A("locate", {"attributes": [{"name": "Object Type", "value": en("ObjectType", "SYMMETRIC_KEY")}]})
    A("locate", {"maximum_items": 1})
    A("locate", {})
    A("create_key_pair", {"algorithm": en("CryptographicAlgorithm", "RSA"), "length": 1024,
                          "public_usage_mask": {"Es": ["CryptographicUsageMask", ["VERIFY"]]},
                          "private_usage_mask": {"Es": ["CryptographicUsageMask", ["SIGN"]]}})
    A("get", {"uid": g_uid(rng) + "-missing"})                                # not found
    A("get_attributes", {"uid": "nope"})
    A("get_attribute_list", {"uid": "nope"})
    A("activate", {"uid": "nope"})
    A("destroy", {"uid": key})                                                # active: refused
    A("revoke", {"revocation_reason": en("RevocationReasonCode", "KEY_COMPROMISE"), "uid": key,
                 "revocation_message": g_text(rng)})
    A("destroy", {"uid": key})
    A("get", {"uid": key})                                                    # destroyed: not found
    A("delete_attribute", {"uid": reg, "attribute_name": "Name", "attribute_index": 0} if version < 20 else
      {"uid": reg, "attribute_reference": ["PyKMIP", "Name"]})
    A("set_attribute", {"uid": reg, "attribute": {"name": "Sensitive", "value": True}})
    A("modify_attribute", {"uid": reg, "attribute": {"name": "Object Group", "index": 0, "value": "g"}}
      if version < 20 else {"uid": reg, "new_attribute": {"name": "Sensitive", "value": False}})
    A("query", {"query_functions": {"Es": ["QueryFunction", ["QUERY_OPERATIONS", "QUERY_OBJECTS",
                                                            "QUERY_SERVER_INFORMATION"]]}})
    A("discover_versions", {"protocol_versions": [14, 20, 9]})
    A("discover_versions", {})
    A("check", {"uid": reg, "cryptographic_usage_mask": {"Es": ["CryptographicUsageMask", ["ENCRYPT"]]}})
    A("rekey", {"uid": reg})
    A("sign", {"data": g_bytes(rng, False), "uid": "nope"})
    A("signature_verify", {"message": g_bytes(rng, False), "signature": g_bytes(rng, False), "uid": "nope"})
    A("decrypt", {"data": g_bytes(rng, False, [16]), "uid": "nope"})
    return {"engine": True, "version": version, "script": S, "chunk": gen_chunk(rng, "success")}
