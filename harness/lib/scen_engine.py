"""
Scripted engine scenarios shared by several property checks (builders for engine_check.run_many:
`builder="scen_engine.<name>"`, signature (g, E, do, length)).

read_commit_builder: [an item that only READS an object (or fails on it); an item that COMMITS something else] in
one batch, for every kind of read the server offers, followed by plain reads in later requests.  A handler that
touches the stored object while answering (to wrap it, to convert it, to mask it) shares its SQLAlchemy session
with the rest of the batch: the next commit would make the scribble permanent.  The store dump after the batch
must differ from the dump before it only by what the committing item did (monitors mon_c05 / mon_c08 / mon_c15).
"""
from gen_engine import hexof


def _req(g, items, version=14, bopt=1, user="alice"):
    for k, it in enumerate(items):
        if len(items) > 1:
            it["bid"] = "r%d" % k                 # every item of a multi-item batch needs an ID
        else:
            it.setdefault("bid", None)
        it.setdefault("crypto", None)
    return {"cmd": "req", "now": g.now, "id": {"user": user, "groups": None},
            "req": {"version": version, "ts": None, "async": None, "bopt": bopt if len(items) > 1 else None,
                    "maxsize": None, "items": items}}


def _A(name, kind, v, index=None, **kw):
    d = {"k": kind, "v": v}
    d.update(kw)
    return {"name": name, "index": index, "value": d}


def _uid(o):
    try:
        return o["results"][0]["data"]["uid"]
    except Exception:
        return None


def read_commit_builder(g, E, do, length):
    r = g.r
    ver = g.ch([12, 13, 14, 14, 20])
    raw_do = do

    def do(j):                      # the monitors read the store around EVERY request
        o = raw_do(j)
        if j.get("cmd") == "req":
            raw_do({"cmd": "dump"})
        return o

    def key(mask, nbytes=16, names=()):
        attrs = [_A("Cryptographic Algorithm", "enum", 3), _A("Cryptographic Length", "int", nbytes * 8),
                 _A("Cryptographic Usage Mask", "int", mask)]
        attrs += [_A("Name", "name", n, i, t=1) for i, n in enumerate(names)]
        o = do(_req(g, [{"op": "create", "otype": 2, "tmpl": {"tnames": 0, "attrs": attrs},
                         "crypto": {"k": "ok", "t": hexof(nbytes, rnd=r)}}], ver))
        return _uid(o)

    def activate(u):
        do(_req(g, [{"op": "activate", "uid": u}], ver))
    W = key(0x10 | 0x20 | 4 | 8, 16, ["wrapper%d" % r.randrange(1000)])      # Wrap Key | Unwrap Key | Encrypt | Decrypt
    K = key(0x0C | 0x80 | 0x100 | 0x200, r.choice([16, 32]), ["k-a", "k-b"])  # Encrypt Decrypt MAC Derive
    Z = [key(12, 16) for _ in range(4)]
    if None in (W, K) or None in Z:
        return
    activate(W)
    activate(K)
    sec = _uid(do(_req(g, [{"op": "register", "otype": 7, "tmpl": {"tnames": 0, "attrs": [_A("Cryptographic Usage Mask", "int", 0x200)]},
                             "obj": {"otype": 7, "value": hexof(12, rnd=r), "alg": None, "len": None, "format": None,
                                     "subtype": 1}}], ver)))
    wrap = lambda enc=1: {"method": 1, "enckey": W, "encparams": True, "mackey": False, "attrnames": 0, "encoding": enc}
    reads = [
        {"op": "get", "uid": K, "format": None, "compression": False, "wrap": None},
        {"op": "get", "uid": K, "format": None, "compression": False, "wrap": wrap(1),
         "crypto": {"k": "ok", "t": hexof(24 if True else 40, rnd=r)}},
        {"op": "get", "uid": K, "format": None, "compression": False, "wrap": wrap(2),
         "crypto": {"k": "ok", "t": hexof(40, rnd=r)}},
        {"op": "get", "uid": K, "format": 1, "compression": False, "wrap": None},
        {"op": "getAttributes", "uid": K, "names": []},
        {"op": "getAttributes", "uid": K, "names": ["Name", "State", "Cryptographic Usage Mask"]},
        {"op": "getAttributeList", "uid": K},
        {"op": "locate", "max": None, "offset": None, "attrs": []},
        {"op": "encrypt", "uid": K, "params": True, "crypto": {"k": "ok", "t": hexof(16, rnd=r)}},
        {"op": "decrypt", "uid": K, "params": True, "crypto": {"k": "ok", "t": hexof(16, rnd=r)}},
        {"op": "mac", "uid": K, "alg": 8, "data": True, "crypto": {"k": "ok", "t": hexof(20, rnd=r)}},
        {"op": "deriveKey", "otype": 2, "uids": [K],
         "tmpl": {"tnames": 0, "attrs": [_A("Cryptographic Algorithm", "enum", 3), _A("Cryptographic Length", "int", 128),
                                         _A("Cryptographic Usage Mask", "int", 12)]},
         "crypto": {"k": "ok", "t": hexof(16, rnd=r)}},
        {"op": "destroy", "uid": K},                                       # refused: K is Active
        {"op": "activate", "uid": K},                                      # refused: already Active
        ({"op": "modifyAttribute", "uid": K, "attr": _A("Name", "name", "zz", 7, t=1), "current": None, "new": None}
         if ver < 20 else
         {"op": "modifyAttribute", "uid": K, "attr": None, "current": _A("Name", "name", "nosuch", None, t=1),
          "new": _A("Name", "name", "zz", None, t=1)}),
    ]
    if sec is not None:
        reads.append({"op": "get", "uid": sec, "format": None, "compression": False, "wrap": wrap(1),
                      "crypto": {"k": "ok", "t": hexof(24, rnd=r)}})
    if ver < 20:
        pass
    commits = [
        lambda: {"op": "activate", "uid": Z[0]},
        lambda: {"op": "create", "otype": 2, "tmpl": {"tnames": 0, "attrs": [
            _A("Cryptographic Algorithm", "enum", 3), _A("Cryptographic Length", "int", 128),
            _A("Cryptographic Usage Mask", "int", 12)]}, "crypto": {"k": "ok", "t": hexof(16, rnd=r)}},
        lambda: {"op": "destroy", "uid": Z[1]},
        lambda: ({"op": "modifyAttribute", "uid": Z[2], "attr": _A("Name", "name", "added%d" % r.randrange(99), None, t=1),
                  "current": None, "new": None} if ver < 20 else
                 {"op": "setAttribute", "uid": Z[2], "attr": _A("Sensitive", "bool", True)}),
        lambda: {"op": "revoke", "uid": Z[0], "code": 1},
    ]
    # the other order too: [an attribute operation that commits on K; a wrapped / plain Get of K] - the Get works on an
    # object whose collections were touched and whose columns were expired by the commit in the same session
    for k in range(3):
        nm = "k-c%d-%d" % (k, r.randrange(10 ** 6))
        first = ({"op": "modifyAttribute", "uid": K, "attr": _A("Name", "name", nm, k % 2, t=1), "current": None, "new": None}
                 if ver < 20 else
                 {"op": "setAttribute", "uid": K, "attr": _A("Sensitive", "bool", True)})
        second = {"op": "get", "uid": K, "format": None, "compression": False, "wrap": wrap(1) if k != 1 else None,
                  "crypto": {"k": "ok", "t": hexof(24, rnd=r)}}
        do(_req(g, [first, second, {"op": "getAttributes", "uid": K, "names": []}], ver, bopt=1))
    r.shuffle(reads)
    ci = 0
    for rd in reads[:max(4, min(length, len(reads)))]:
        cm = commits[ci % len(commits)]()
        ci += 1
        items = [dict(rd), cm]
        if g.p(0.3):
            # a second read of the same object after the commit, still in the batch
            items.append({"op": "get", "uid": rd.get("uid") or K, "format": None, "compression": False, "wrap": None})
        do(_req(g, items, ver, bopt=1))
        # what later requests see
        do(_req(g, [{"op": "get", "uid": K, "format": None, "compression": False, "wrap": None}], ver))
        if g.p(0.3):
            do({"cmd": "restart"})
            do(_req(g, [{"op": "get", "uid": K, "format": None, "compression": False, "wrap": None}], ver))


def attr_commit_builder(g, E, do, length):
    """[an attribute operation on O - renaming to a value another instance already has, out-of-range indices,
    protected attributes, both request forms; another attribute operation that commits on Z; a read of O] in one
    Continue batch: a refused operation must not have touched O (the commit would make it permanent), a successful one
    must have changed exactly the addressed instance."""
    r = g.r
    ver = g.ch([12, 14, 14, 20, 20])
    raw_do = do

    def do(j):
        o = raw_do(j)
        if j.get("cmd") == "req":
            raw_do({"cmd": "dump"})
        return o
    names = ["alpha", "beta", "gamma"]
    groups = ["grpA", "grpB"]

    def mk(nm, gr, app):
        attrs = [_A("Cryptographic Algorithm", "enum", 3), _A("Cryptographic Length", "int", 128),
                 _A("Cryptographic Usage Mask", "int", 12)]
        attrs += [_A("Name", "name", n, i, t=1) for i, n in enumerate(nm)]
        attrs += [_A("Object Group", "text", x, i) for i, x in enumerate(gr)]
        attrs += [{"name": "Application Specific Information", "index": i, "value": {"k": "appinfo", "ns": a, "d": b}}
                  for i, (a, b) in enumerate(app)]
        return _uid(do(_req(g, [{"op": "create", "otype": 2, "tmpl": {"tnames": 0, "attrs": attrs},
                                 "crypto": {"k": "ok", "t": hexof(16, rnd=r)}}], ver)))
    O = mk(names, groups, [("ssl", "www"), ("ns2", "d2")])
    Z = mk(["zed"], ["grpA"], [])
    if O is None or Z is None:
        return
    nm = lambda v: {"k": "name", "v": v, "t": 1}
    tx = lambda v: {"k": "text", "v": v}
    cnt = [0]

    def zcommit():
        cnt[0] += 1
        if ver < 20:
            return {"op": "modifyAttribute", "uid": Z, "attr": {"name": "Name", "index": 0, "value": nm("zed%d" % cnt[0])},
                    "current": None, "new": None}
        return {"op": "modifyAttribute", "uid": Z, "attr": None,
                "current": {"name": "Name", "index": None, "value": nm("zed" if cnt[0] == 1 else "zed%d" % (cnt[0] - 1))},
                "new": {"name": "Name", "index": None, "value": nm("zed%d" % cnt[0])}}
    if ver < 20:
        variants = [
            {"op": "modifyAttribute", "uid": O, "attr": {"name": "Name", "index": 1, "value": nm("alpha")}, "current": None, "new": None},
            {"op": "modifyAttribute", "uid": O, "attr": {"name": "Name", "index": 0, "value": nm("gamma")}, "current": None, "new": None},
            {"op": "modifyAttribute", "uid": O, "attr": {"name": "Name", "index": 2, "value": nm("fresh1")}, "current": None, "new": None},
            {"op": "modifyAttribute", "uid": O, "attr": {"name": "Name", "index": 7, "value": nm("far")}, "current": None, "new": None},
            {"op": "modifyAttribute", "uid": O, "attr": {"name": "Name", "index": None, "value": nm("beta")}, "current": None, "new": None},
            {"op": "modifyAttribute", "uid": O, "attr": {"name": "Object Group", "index": 1, "value": tx("grpA")}, "current": None, "new": None},
            {"op": "modifyAttribute", "uid": O, "attr": {"name": "Object Group", "index": 5, "value": tx("grpZ")}, "current": None, "new": None},
            {"op": "modifyAttribute", "uid": O, "attr": {"name": "Application Specific Information", "index": 1,
                                                          "value": {"k": "appinfo", "ns": "ssl", "d": "www"}}, "current": None, "new": None},
            {"op": "modifyAttribute", "uid": O, "attr": {"name": "Application Specific Information", "index": 0,
                                                          "value": {"k": "appinfo", "ns": "ssl", "d": ""}}, "current": None, "new": None},
            {"op": "modifyAttribute", "uid": O, "attr": {"name": "Application Specific Information", "index": 1,
                                                          "value": {"k": "appinfo", "ns": "", "d": "x"}}, "current": None, "new": None},
            {"op": "modifyAttribute", "uid": O, "attr": {"name": "Cryptographic Usage Mask", "index": None, "value": {"k": "int", "v": 3}},
             "current": None, "new": None},
            {"op": "modifyAttribute", "uid": O, "attr": {"name": "State", "index": None, "value": {"k": "enum", "v": 2}}, "current": None, "new": None},
            {"op": "deleteAttribute", "uid": O, "name": "Name", "index": 1, "current": None, "reference": None},
            {"op": "deleteAttribute", "uid": O, "name": "Name", "index": 9, "current": None, "reference": None},
            {"op": "deleteAttribute", "uid": O, "name": "State", "index": None, "current": None, "reference": None},
            {"op": "deleteAttribute", "uid": O, "name": "Object Group", "index": 0, "current": None, "reference": None},
        ]
    else:
        cur = lambda n, v: {"name": n, "index": None, "value": v}
        variants = [
            {"op": "modifyAttribute", "uid": O, "attr": None, "current": cur("Name", nm("beta")), "new": cur("Name", nm("alpha"))},
            {"op": "modifyAttribute", "uid": O, "attr": None, "current": cur("Name", nm("alpha")), "new": cur("Name", nm("fresh2"))},
            {"op": "modifyAttribute", "uid": O, "attr": None, "current": cur("Name", nm("nosuch")), "new": cur("Name", nm("x"))},
            {"op": "modifyAttribute", "uid": O, "attr": None, "current": cur("Object Group", tx("grpB")), "new": cur("Object Group", tx("grpA"))},
            {"op": "modifyAttribute", "uid": O, "attr": None, "current": None, "new": cur("Name", nm("gamma"))},
            {"op": "modifyAttribute", "uid": O, "attr": None, "current": cur("Name", nm("gamma")), "new": cur("Object Group", tx("grpQ"))},
            {"op": "setAttribute", "uid": O, "attr": cur("Sensitive", {"k": "bool", "v": True})},
            {"op": "setAttribute", "uid": O, "attr": cur("Sensitive", {"k": "bool", "v": False})},
            {"op": "setAttribute", "uid": O, "attr": cur("Operation Policy Name", tx("public"))},
            {"op": "setAttribute", "uid": O, "attr": cur("Name", nm("alpha"))},
            {"op": "deleteAttribute", "uid": O, "name": None, "index": None, "current": cur("Name", nm("gamma")), "reference": None},
            {"op": "deleteAttribute", "uid": O, "name": None, "index": None, "current": cur("Name", nm("nosuch")), "reference": None},
            {"op": "deleteAttribute", "uid": O, "name": None, "index": None, "current": None, "reference": "Object Group"},
            {"op": "deleteAttribute", "uid": O, "name": None, "index": None, "current": None, "reference": "State"},
        ]
    r.shuffle(variants)
    for v in variants[:max(4, min(length, len(variants)))]:
        items = [dict(v), zcommit()]
        if g.p(0.5):
            items.append({"op": "getAttributes", "uid": O, "names": []})
        do(_req(g, items, ver, bopt=1))
        do(_req(g, [{"op": "getAttributes", "uid": O, "names": []}], ver))


PLACEHOLDER_READERS = ["get", "getAttributes", "getAttributeList", "activate", "revoke", "destroy", "encrypt", "decrypt",
                       "sign", "signatureVerify", "mac", "setAttribute", "modifyAttribute", "deleteAttribute"]


def placeholder_follow_builder(g, E, do, length):
    """[an item X of ANY operation (reads included) that names its object or none; an item Y that names no
    identifier and therefore works on the ID placeholder] in one batch.  Only Create, CreateKeyPair, Register and
    DeriveKey set the placeholder; whatever X is, Y must be answered with success or a specific error (C13), must not
    touch an object X merely read (C08 / C03), and must be answered as the model answers it."""
    r = g.r
    ver = g.ch([12, 13, 14, 14, 20])
    raw_do = do

    def do(j):
        o = raw_do(j)
        if j.get("cmd") == "req":
            raw_do({"cmd": "dump"})
        return o

    def key(mask, name):
        attrs = [_A("Cryptographic Algorithm", "enum", 3), _A("Cryptographic Length", "int", 128),
                 _A("Cryptographic Usage Mask", "int", mask), _A("Name", "name", name, 0, t=1)]
        return _uid(do(_req(g, [{"op": "create", "otype": 2, "tmpl": {"tnames": 0, "attrs": attrs},
                                 "crypto": {"k": "ok", "t": hexof(16, rnd=r)}}], ver)))
    K = key(0xFFFFFF, "only-%d" % r.randrange(10 ** 6))
    P = key(12, "pre-%d" % r.randrange(10 ** 6))
    if K is None or P is None:
        return
    do(_req(g, [{"op": "activate", "uid": K}], ver))
    kname = None
    # the name K was given (for a Locate with exactly one match)
    d = raw_do({"cmd": "dump"})
    for ob in (d.get("objs") or []):
        if str(ob["uid"]) == str(K) and ob["names"]:
            kname = ob["names"][0]
    firsts = [
        {"op": "locate", "max": None, "offset": None, "attrs": [_A("Name", "name", kname or "x", None, t=1)]},
        {"op": "locate", "max": 1, "offset": None, "attrs": []},
        {"op": "get", "uid": K, "format": None, "compression": False, "wrap": None},
        {"op": "getAttributes", "uid": K, "names": []},
        {"op": "getAttributeList", "uid": P},
        {"op": "query", "functions": [1, 2]},
        {"op": "discoverVersions", "versions": []},
        {"op": "encrypt", "uid": K, "params": True, "crypto": {"k": "ok", "t": hexof(16, rnd=r)}},
        {"op": "mac", "uid": K, "alg": 8, "data": True, "crypto": {"k": "ok", "t": hexof(20, rnd=r)}},
        {"op": "activate", "uid": K},                                    # refused
        {"op": "get", "uid": "9999", "format": None, "compression": False, "wrap": None},   # not found
        {"op": "create", "otype": 2, "tmpl": {"tnames": 0, "attrs": [
            _A("Cryptographic Algorithm", "enum", 3), _A("Cryptographic Length", "int", 128),
            _A("Cryptographic Usage Mask", "int", 12)]}, "crypto": {"k": "ok", "t": hexof(16, rnd=r)}},
    ]
    r.shuffle(firsts)
    for x in firsts[:max(4, min(length, len(firsts)))]:
        yop = g.ch(PLACEHOLDER_READERS)
        y = g.item(op=yop, version=ver)
        y["uid"] = None
        if x["op"] == "create" and g.p(0.5):
            y = {"op": "activate", "uid": None}
        do(_req(g, [dict(x), y], ver, bopt=g.ch([1, 1, None])))
    # [an item that creates an object; an item that FAILS (unknown object, refused transition, denied); an item that
    # names no identifier] under Continue: the failed item does not disturb the one after it, which still works on
    # the object the first item created
    creator = {"op": "create", "otype": 2, "tmpl": {"tnames": 0, "attrs": [
        _A("Cryptographic Algorithm", "enum", 3), _A("Cryptographic Length", "int", 128),
        _A("Cryptographic Usage Mask", "int", 12)]}}
    failing = [
        {"op": "get", "uid": "9999", "format": None, "compression": False, "wrap": None},
        {"op": "activate", "uid": K},
        {"op": "destroy", "uid": K},
        {"op": "getAttributes", "uid": "31337", "names": []},
    ]
    for _ in range(3):
        c = dict(creator)
        c["crypto"] = {"k": "ok", "t": hexof(16, rnd=r)}
        y = g.ch([{"op": "activate", "uid": None}, {"op": "getAttributes", "uid": None, "names": []},
                  {"op": "get", "uid": None, "format": None, "compression": False, "wrap": None},
                  {"op": "getAttributeList", "uid": None}])
        mid = [dict(g.ch(failing)) for _ in range(g.ch([1, 1, 2]))]
        tail = [dict(y)] + ([{"op": "getAttributeList", "uid": None}] if g.p(0.4) else [])
        do(_req(g, [c] + mid + tail, ver, bopt=g.ch([1, 1, 1, None, 2])))


def same_values_builder(g, E, do, length):
    """Two requesters, objects of their own carrying EQUAL attribute values (same group, same name, same application
    information, same key bytes); then one of them changes / deletes those values on HIS object, destroys it, and the
    other reads hers.  Whatever the storage shares between equal values, an object changes only through a successful
    operation that addresses it (mon_c03 / mon_c15 / mon_c05)."""
    r = g.r
    ver = g.ch([12, 13, 14, 14, 20])
    raw_do = do

    def do(j):
        o = raw_do(j)
        if j.get("cmd") == "req":
            raw_do({"cmd": "dump"})
        return o
    nm = lambda v: {"k": "name", "v": v, "t": 1}
    tx = lambda v: {"k": "text", "v": v}
    grp, grp2 = g.ch(["grpA", "grpB", "shared"]), "grpQ"
    name = "same-%d" % r.randrange(1000)
    app = ("ssl", "www")
    val = hexof(16, rnd=r)

    def mk(user, extra_group=None):
        attrs = [_A("Cryptographic Algorithm", "enum", 3), _A("Cryptographic Length", "int", 128),
                 _A("Cryptographic Usage Mask", "int", 12), _A("Name", "name", name, 0, t=1),
                 _A("Object Group", "text", grp, 0)]
        if extra_group:
            attrs.append(_A("Object Group", "text", extra_group, 1))
        attrs.append({"name": "Application Specific Information", "index": 0,
                      "value": {"k": "appinfo", "ns": app[0], "d": app[1]}})
        return _uid(do(_req(g, [{"op": "create", "otype": 2, "tmpl": {"tnames": 0, "attrs": attrs},
                                 "crypto": {"k": "ok", "t": val}}], ver, user=user)))
    A = mk("alice", grp2 if g.p(0.5) else None)
    B = mk("bob")
    A2 = mk("alice")
    if A is None or B is None:
        return
    cur = lambda n, v: {"name": n, "index": None, "value": v}
    if ver < 20:
        steps = [
            {"op": "modifyAttribute", "uid": B, "attr": {"name": "Object Group", "index": 0, "value": tx("bobs")}, "current": None, "new": None},
            {"op": "modifyAttribute", "uid": B, "attr": {"name": "Application Specific Information", "index": 0,
                                                          "value": {"k": "appinfo", "ns": "ssl", "d": "bob"}}, "current": None, "new": None},
            {"op": "modifyAttribute", "uid": B, "attr": {"name": "Name", "index": 0, "value": nm("bobs-key")}, "current": None, "new": None},
            {"op": "deleteAttribute", "uid": B, "name": "Object Group", "index": 0, "current": None, "reference": None},
            {"op": "deleteAttribute", "uid": B, "name": "Application Specific Information", "index": 0, "current": None, "reference": None},
        ]
    else:
        steps = [
            {"op": "modifyAttribute", "uid": B, "attr": None, "current": cur("Object Group", tx(grp)), "new": cur("Object Group", tx("bobs"))},
            {"op": "modifyAttribute", "uid": B, "attr": None,
             "current": cur("Application Specific Information", {"k": "appinfo", "ns": app[0], "d": app[1]}),
             "new": cur("Application Specific Information", {"k": "appinfo", "ns": "ssl", "d": "bob"})},
            {"op": "modifyAttribute", "uid": B, "attr": None, "current": cur("Name", nm(name)), "new": cur("Name", nm("bobs-key"))},
            {"op": "deleteAttribute", "uid": B, "name": None, "index": None, "current": cur("Object Group", tx("bobs")), "reference": None},
            {"op": "deleteAttribute", "uid": B, "name": None, "index": None, "current": None, "reference": "Application Specific Information"},
        ]
    r.shuffle(steps)
    for st in steps[:max(2, min(length, len(steps)))]:
        do(_req(g, [dict(st)], ver, user="bob"))
        do(_req(g, [{"op": "getAttributes", "uid": A, "names": []}], ver, user="alice"))
        if g.p(0.3):
            do(_req(g, [{"op": "locate", "max": None, "offset": None, "attrs": [_A("Object Group", "text", grp)]}],
                    ver, user="alice"))
    do(_req(g, [{"op": "destroy", "uid": B}], ver, user="bob"))
    do(_req(g, [{"op": "getAttributes", "uid": A, "names": []}], ver, user="alice"))
    if A2 is not None:
        do(_req(g, [{"op": "destroy", "uid": A2}], ver, user="alice"))
        do(_req(g, [{"op": "get", "uid": A, "format": None, "compression": False, "wrap": None}], ver, user="alice"))


def dead_in_batch_builder(g, E, do, length):
    """ONE batch: an operation on X, Destroy X, the same (and other) operations on X again - and the same after the
    batch, by the owner and by another client.  Destroyed is destroyed from the very next item on, whatever an earlier
    item of the batch had already looked up (mon_c07 follows deaths through the items of a batch)."""
    r = g.r
    ver = g.ch([10, 12, 13, 14, 14, 20])
    raw_do = do

    def do(j):
        o = raw_do(j)
        if j.get("cmd") == "req":
            raw_do({"cmd": "dump"})
        return o

    def key(names=()):
        attrs = [_A("Cryptographic Algorithm", "enum", 3), _A("Cryptographic Length", "int", 128),
                 _A("Cryptographic Usage Mask", "int", 0x0C | 0x80 | 0x100 | 0x200)]
        attrs += [_A("Name", "name", n, i, t=1) for i, n in enumerate(names)]
        return _uid(do(_req(g, [{"op": "create", "otype": 2, "tmpl": {"tnames": 0, "attrs": attrs},
                                 "crypto": {"k": "ok", "t": hexof(16, rnd=r)}}], ver)))
    for _ in range(max(2, min(length, 4))):
        X = key(["x-%d" % r.randrange(1000)])
        Y = key()
        if X is None or Y is None:
            return
        ops = [
            lambda: {"op": "get", "uid": X, "format": None, "compression": False, "wrap": None},
            lambda: {"op": "getAttributes", "uid": X, "names": []},
            lambda: {"op": "getAttributes", "uid": X, "names": ["Name", "State"]},
            lambda: {"op": "getAttributeList", "uid": X},
            lambda: {"op": "activate", "uid": X},
            lambda: {"op": "destroy", "uid": X},
            lambda: {"op": "modifyAttribute", "uid": X, "attr": _A("Name", "name", "renamed", 0, t=1), "current": None, "new": None},
            lambda: {"op": "deriveKey", "otype": 2, "uids": [X],
                     "tmpl": {"tnames": 0, "attrs": [_A("Cryptographic Algorithm", "enum", 3), _A("Cryptographic Length", "int", 128),
                                                     _A("Cryptographic Usage Mask", "int", 12)]},
                     "crypto": {"k": "ok", "t": hexof(16, rnd=r)}},
        ]
        if ver >= 12:
            ops.append(lambda: {"op": "mac", "uid": X, "alg": 8, "data": True, "crypto": {"k": "ok", "t": hexof(20, rnd=r)}})
        k1 = g.ch(ops[:4] + ops[6:])          # an operation that leaves X Pre-Active (so that Destroy is allowed)
        again = [k1] + [g.ch(ops) for _ in range(g.ch([0, 1, 2]))]
        r.shuffle(again)
        items = [k1(), {"op": "destroy", "uid": X}] + [f() for f in again]
        if g.p(0.3):
            items.insert(0, {"op": "getAttributeList", "uid": Y})
        do(_req(g, items, ver, bopt=g.ch([1, 1, 2])))
        for user in ("alice", "bob"):
            do(_req(g, [g.ch(ops)()], ver, user=user))
        do(_req(g, [{"op": "locate", "max": None, "offset": None, "attrs": []}], ver))


def twin_builder(g, E, do, length):
    """Two users, two groups, two names that are EQUAL under some reading other than code point equality (TWINS of the
    generator) and unequal as strings.  One user creates objects carrying BOTH group spellings and both name
    spellings; the other user - his twin - tries everything on them; then attribute operations address ONE spelling
    (by value under 2.0, by index before).  A twin is another user / group / name (mon_c03, mon_c15, mon_c14)."""
    from gen_engine import TWINS
    r = g.r
    ver = g.ch([12, 14, 20, 20])
    raw_do = do

    def do(j):
        o = raw_do(j)
        if j.get("cmd") == "req":
            raw_do({"cmd": "dump"})
        return o
    ua, ub = g.ch(TWINS)
    ga, gb = [x + "-team" for x in g.ch(TWINS)]
    na, nb = g.ch(TWINS)
    if g.p(0.5):
        ua, ub = ub, ua
    if g.p(0.5):
        ga, gb = gb, ga
    tx = lambda v: {"k": "text", "v": v}
    nm = lambda v: {"k": "name", "v": v, "t": 1}
    cur = lambda n, v: {"name": n, "index": None, "value": v}

    def mk(user, groups, names):
        attrs = [_A("Cryptographic Algorithm", "enum", 3), _A("Cryptographic Length", "int", 128),
                 _A("Cryptographic Usage Mask", "int", 12)]
        attrs += [_A("Object Group", "text", x, i) for i, x in enumerate(groups)]
        attrs += [_A("Name", "name", x, i, t=1) for i, x in enumerate(names)]
        return _uid(do(_req(g, [{"op": "create", "otype": 2, "tmpl": {"tnames": 0, "attrs": attrs},
                                 "crypto": {"k": "ok", "t": hexof(16, rnd=r)}}], ver, user=user)))
    X = mk(ua, [ga, gb], [na, nb])          # both spellings on one object
    Y = mk(ua, [ga], [na])                  # one spelling only
    Z = mk(ub, [gb], [nb])                  # the twin user's own object with the other spelling
    if None in (X, Y, Z):
        return
    # the twin user meets the objects of the first
    for u in (X, Y):
        for it in ({"op": "get", "uid": u, "format": None, "compression": False, "wrap": None},
                   {"op": "getAttributes", "uid": u, "names": []}, {"op": "activate", "uid": u}):
            if g.p(0.7):
                do(_req(g, [dict(it)], ver, user=ub))
    do(_req(g, [{"op": "locate", "max": None, "offset": None, "attrs": [_A("Object Group", "text", ga)]}], ver, user=ub))
    do(_req(g, [{"op": "locate", "max": None, "offset": None, "attrs": [_A("Name", "name", nb, t=1)]}], ver, user=ua))
    # one spelling addressed; the other (and the other objects) stay
    if ver >= 20:
        steps = [(ua, {"op": "deleteAttribute", "uid": X, "name": None, "index": None, "current": cur("Object Group", tx(gb)), "reference": None}),
                 (ua, {"op": "deleteAttribute", "uid": Y, "name": None, "index": None, "current": cur("Object Group", tx(gb)), "reference": None}),
                 (ua, {"op": "modifyAttribute", "uid": X, "attr": None, "current": cur("Name", nm(nb)), "new": cur("Name", nm("renamed"))}),
                 (ua, {"op": "deleteAttribute", "uid": Y, "name": None, "index": None, "current": cur("Name", nm(nb)), "reference": None}),
                 (ub, {"op": "deleteAttribute", "uid": Z, "name": None, "index": None, "current": cur("Object Group", tx(ga)), "reference": None})]
    else:
        steps = [(ua, {"op": "deleteAttribute", "uid": X, "name": "Object Group", "index": 1, "current": None, "reference": None}),
                 (ua, {"op": "modifyAttribute", "uid": X, "attr": {"name": "Name", "index": 1, "value": nm("renamed")}, "current": None, "new": None}),
                 (ua, {"op": "modifyAttribute", "uid": Y, "attr": {"name": "Object Group", "index": 0, "value": tx(gb)}, "current": None, "new": None}),
                 (ub, {"op": "deleteAttribute", "uid": Z, "name": "Name", "index": 0, "current": None, "reference": None})]
    r.shuffle(steps)
    for user, st in steps[:max(2, min(length, len(steps)))]:
        do(_req(g, [dict(st)], ver, user=user))
        do(_req(g, [{"op": "getAttributes", "uid": X, "names": []}], ver, user=ua))
    do(_req(g, [{"op": "destroy", "uid": Z}], ver, user=ua))      # not his: his twin's
    do(_req(g, [{"op": "locate", "max": None, "offset": None, "attrs": []}], ver, user=ub))


def version_mix_attr_builder(g, E, do, length):
    """Objects created under one protocol version, their multi-valued attributes (Name, Object Group, Application Specific
    Information) modified / deleted / added to under EVERY OTHER version - alone and inside Continue / Stop batches.
    Whatever a version thinks of an attribute, an item that reports failure has changed nothing and one that changed
    something reports success (mon_c08), and exactly the addressed instance changes (mon_c15)."""
    r = g.r
    raw_do = do

    def do(j):
        o = raw_do(j)
        if j.get("cmd") == "req":
            raw_do({"cmd": "dump"})
        return o
    made = g.ch([11, 12, 13, 14, 20])
    attrs = [_A("Cryptographic Algorithm", "enum", 3), _A("Cryptographic Length", "int", 128),
             _A("Cryptographic Usage Mask", "int", 12), _A("Name", "name", "vm-a", 0, t=1), _A("Name", "name", "vm-b", 1, t=1),
             _A("Object Group", "text", "grpA", 0), _A("Object Group", "text", "grpB", 1),
             {"name": "Application Specific Information", "index": 0, "value": {"k": "appinfo", "ns": "ssl", "d": "www"}}]
    uids = []
    for _ in range(2):
        u = _uid(do(_req(g, [{"op": "create", "otype": 2, "tmpl": {"tnames": 0, "attrs": [dict(a) for a in attrs]},
                              "crypto": {"k": "ok", "t": hexof(16, rnd=r)}}], made)))
        if u is None:
            return
        uids.append(u)
    tx = lambda v: {"k": "text", "v": v}
    nm = lambda v: {"k": "name", "v": v, "t": 1}
    for ver in [v for v in (10, 11, 12, 13, 14) if v != made]:
        X = g.ch(uids)
        steps = [
            {"op": "modifyAttribute", "uid": X, "attr": {"name": "Object Group", "index": g.ch([0, 1]), "value": tx("grp-%d" % ver)}, "current": None, "new": None},
            {"op": "deleteAttribute", "uid": X, "name": "Object Group", "index": g.ch([0, 1, None]), "current": None, "reference": None},
            {"op": "modifyAttribute", "uid": X, "attr": {"name": "Name", "index": g.ch([0, 1]), "value": nm("nm-%d" % ver)}, "current": None, "new": None},
            {"op": "deleteAttribute", "uid": X, "name": "Name", "index": 1, "current": None, "reference": None},
            {"op": "modifyAttribute", "uid": X, "attr": {"name": "Application Specific Information", "index": 0,
                                                          "value": {"k": "appinfo", "ns": "ssl", "d": "v%d" % ver}}, "current": None, "new": None},
            {"op": "deleteAttribute", "uid": X, "name": "Application Specific Information", "index": 0, "current": None, "reference": None},
        ]
        r.shuffle(steps)
        k = g.ch([1, 2, 2, 3])
        chosen = [dict(s) for s in steps[:k]]
        if k > 1 and g.p(0.5):
            chosen.insert(g.ch([0, 1]), {"op": "getAttributeList", "uid": X})
        do(_req(g, chosen, ver, bopt=g.ch([1, 1, 2])))
        do(_req(g, [{"op": "getAttributes", "uid": X, "names": []}], g.ch([ver, made])))
