"""Call the end-to-end byte-level check of the composed server model (lib/server_e2e_check.py, M17) from a property
module: its monitors carry the signature prefix of the property they read (c12:e2e-*, c02:e2e-*, c11:e2e-*, c16:e2e-*,
c08:e2e-*, c17:e2e-*); a property module takes the reports of ITS prefixes plus the divergences of the model
(`correspondence:server-e2e:*`, reported without a failing input)."""
import random


class _Filtered(object):
    def __init__(self, ctx, prefixes):
        self._ctx = ctx
        self._prefixes = tuple(prefixes)
        self.dropped = {}

    def report(self, signature, what, replay_obj, no_input=False):
        if signature.startswith(self._prefixes) or signature.startswith("correspondence"):
            return self._ctx.report(signature, what, replay_obj, no_input=no_input)
        self.dropped[signature.split(":")[0]] = self.dropped.get(signature.split(":")[0], 0) + 1

    def __getattr__(self, name):
        return getattr(self._ctx, name)


def run(ctx, prefixes, key="server_e2e"):
    import server_e2e_check
    f = _Filtered(ctx, [p + ":" for p in prefixes])
    cov = server_e2e_check.run(f, random.Random("server-e2e-%s" % ctx.seed))
    cov["reports_left_to_other_properties"] = f.dropped
    ctx.coverage[key] = {k: v for k, v in cov.items() if k not in ("rule",)}
    ctx.coverage["evaluations"] = (ctx.coverage.get("evaluations") or 0) + (cov.get("evaluations") or 0)
    ctx.coverage["traces_validated_against_impl"] = (ctx.coverage.get("traces_validated_against_impl") or 0) + \
        (cov.get("histories") or 0)
    return cov


def replay(ctx, rep):
    import server_e2e_check
    return server_e2e_check.replay_case(ctx, rep.get("replay", rep))
