"""
Round-trip monitors for C01 and the case generation shared by C01 and C02.

prim_cases / run_prims      primitive classes on boundary pools (implementation side)
StructRun                   generic structure exercise: seeds -> examples -> derived instances -> monitors
"""
import copy
import os
import random
import sys
import time

sys.path.insert(0, os.path.dirname(os.path.abspath(__file__)))
import impl_codec as IC  # noqa: E402
from impl_codec import enums, primitives, utils, contents, messages  # noqa: E402

# leaves whose value selects classes / counts elsewhere in the same message: not replaced by pool values
EXCLUDE_LEAF = ("batch_count", "batch_items", "major", "minor", "attribute_name")


# ---------------------------------------------------------------------------------------------------------
# primitives
# ---------------------------------------------------------------------------------------------------------

def prim_cases(rng, extra):
    """[(kind, enum class | None, constructor argument, tag)]"""
    cases = []
    for kind in IC.PRIM:
        pool = IC.prim_pool(kind, rng, extra)
        for i, val in enumerate(pool):
            tag = IC.TAG_POOL[(i + len(kind)) % len(IC.TAG_POOL)]
            if kind == "Enumeration":
                ec, m = val
                cases.append((kind, ec, m, tag))
            else:
                cases.append((kind, None, val, tag))
    return cases


def run_prim_impl(case):
    """what the implementation does with one constructor argument"""
    kind, ec, val, tag = case
    r = {"kind": kind, "tag": tag.value, "ctor": False, "enc": None, "exc": None}
    try:
        o = IC.make_prim(kind, val, tag, ec)
    except (TypeError, ValueError) as e:
        r["exc"] = type(e).__name__
        return r, None
    r["ctor"] = True
    try:
        b = IC.enc(o)
    except Exception as e:
        r["exc"] = type(e).__name__ + ": " + str(e)[:80]
        return r, o
    r["enc"] = b
    return r, o


def prim_roundtrip_faults(case, o, b):
    """monitor on the implementation alone: decode(encode v) == v, nothing left, re-encode == bytes"""
    kind, ec, val, tag = case
    faults = []
    try:
        o2 = IC.fresh_prim(kind, tag, ec)
        s = utils.BytearrayStream(b)
        o2.read(s)
    except Exception as e:
        return ["decode-rejects-own-encoding (%s: %s)" % (type(e).__name__, str(e)[:60])]
    if len(s.buffer):
        faults.append("residue %d" % len(s.buffer))
    if not (o2 == o) or o2 != o:
        faults.append("decoded != original (%r vs %r)" % (o2, o))
    if type(o2.value) is not type(o.value) and not (kind == "Boolean") and not (kind == "ByteString"):
        faults.append("decoded value type %s, original %s" % (type(o2.value).__name__, type(o.value).__name__))
    if o2.value != o.value:
        faults.append("decoded value differs")
    try:
        b2 = IC.enc(o2)
        if b2 != b:
            faults.append("re-encode differs")
    except Exception as e:
        faults.append("re-encode raises %s" % type(e).__name__)
    return faults


def prim_decode_impl(kind, ec, tag, b):
    """Python decoder on arbitrary bytes -> observation comparable with the driver's "dec" answer"""
    try:
        o = IC.fresh_prim(kind, tag, ec)
        s = utils.BytearrayStream(b)
        o.read(s)
    except Exception as e:
        return {"ok": False, "exc": type(e).__name__}, None
    return {"ok": True, "v": IC.prim_py_value(kind, o), "rest": len(s.buffer)}, o


def prim_ded_faults(kind, ec, tag, o):
    """decode-encode-decode on an accepted byte string"""
    faults = []
    try:
        b2 = IC.enc(o)
    except Exception as e:
        return ["accepted value does not re-encode (%s)" % type(e).__name__]
    try:
        o2 = IC.fresh_prim(kind, tag, ec)
        s = utils.BytearrayStream(b2)
        o2.read(s)
    except Exception as e:
        return ["re-encoding of an accepted value is rejected (%s)" % type(e).__name__]
    if len(s.buffer):
        faults.append("residue after re-decode")
    if o2 != o or o2.value != o.value:
        faults.append("second decode differs from first")
    try:
        if IC.enc(o2) != b2:
            faults.append("third encoding differs from second")
    except Exception as e:
        faults.append("re-encode raises %s" % type(e).__name__)
    return faults


# ---------------------------------------------------------------------------------------------------------
# structures
# ---------------------------------------------------------------------------------------------------------

def set_header_version(x, v):
    """messages take the decoding version from their own header: make it the version being exercised"""
    for z in IC.nested_bases(x):
        if isinstance(z, (messages.RequestHeader, messages.ResponseHeader)) and z.protocol_version is not None:
            a, b = IC.VNUM[v]
            z.protocol_version = contents.ProtocolVersion(a, b)


def is_version_path(p):
    return "protocol_version" in p


class Finding(object):
    def __init__(self, signature, what, replay):
        self.signature = signature
        self.what = what
        self.replay = replay


def pattern_kind(flags):
    """flags: list of bool per version (True = differs).  'all', 'none', 'prefix', 'suffix', 'other'"""
    if all(flags):
        return "all"
    if not any(flags):
        return "none"
    n = len(flags)
    k = sum(flags)
    if all(flags[:k]) and not any(flags[k:]):
        return "prefix"
    if all(flags[n - k:]) and not any(flags[:n - k]):
        return "suffix"
    return "other"


def defining_class(x, meth="write"):
    """name of the class whose write()/read() the instance uses (subclasses without their own codec share it)"""
    for c in type(x).__mro__:
        if meth in c.__dict__:
            return c.__name__
    return type(x).__name__


def top_fields(x):
    return [k.lstrip("_") for k, v in IC.state_items(x) if k not in ("tag", "type") and not (v is None or v == [])]


def check_instance(x, cls_name, mode, replay, stats, emitted, agg=None):
    """all C01 monitors on one instance under all six versions.
    mode: "strict"       complete value (seed, constructor rebuild, value replacement): its own encoding must decode
                         and decode to the same value;
          "incomplete"   fields removed / filled in: the decoder may reject, but what it accepts must be the value;
          "inconsistent" an enumeration other fields depend on was replaced: only byte-level stability is required.
    agg: per-class record  field -> {"preserved": set(versions), "dropped": set(versions), "all6": bool}"""
    findings = []
    strict = (mode == "strict") if not isinstance(mode, bool) else mode
    if isinstance(mode, bool):
        mode = "strict" if mode else "incomplete"
    wcls = defining_class(x, "write")
    factory = IC.factory_for(x)
    if factory is None:
        stats["no_factory"] = stats.get("no_factory", 0) + 1
        return findings
    enc_b = {}
    diffs = {}
    for v in IC.VERSIONS:
        xv = copy.deepcopy(x)
        set_header_version(xv, v)
        try:
            b = IC.enc(xv, v)
        except Exception as e:
            k = "unencodable:" + type(e).__name__
            stats[k] = stats.get(k, 0) + 1
            continue
        enc_b[v] = b
        emitted.append((cls_name, IC.vname(v), b))
        stats["encoded"] = stats.get("encoded", 0) + 1
        try:
            y, left = IC.dec(factory, b, v)
        except Exception as e:
            if strict:
                findings.append(Finding("c01:decode-rejects-own-encoding:%s:%s" % (wcls, type(e).__name__),
                                        "%s encoded under KMIP %s is rejected by its own decoder: %s: %s"
                                        % (cls_name, IC.vname(v), type(e).__name__, str(e)[:120]),
                                        dict(replay, version=IC.vname(v), hex=b.hex())))
            else:
                stats["incomplete_not_decodable"] = stats.get("incomplete_not_decodable", 0) + 1
            continue
        if left:
            findings.append(Finding("c01:residue:%s" % wcls,
                                    "%s under KMIP %s: decoder left %d bytes of its own encoding"
                                    % (cls_name, IC.vname(v), left), dict(replay, version=IC.vname(v), hex=b.hex())))
        try:
            b2 = IC.enc(y, v)
            if b2 != b and IC.repair_text_padding(y):
                findings.append(Finding("c01:reencode-differs:TextString-length-multiple-of-8",
                                        "a decoded TextString whose length is a multiple of 8 (0, 8, 16, …) keeps "
                                        "padding_length = 8 and writes 8 extra zero bytes: re-encoding the decoded %s "
                                        "gives different bytes" % cls_name, dict(replay, version=IC.vname(v), hex=b.hex())))
                b2 = IC.enc(y, v)
            if b2 != b and mode == "inconsistent":
                # the decoder read the bytes as a different value: then only decode-encode-decode stability
                stats["inconsistent_reinterpreted"] = stats.get("inconsistent_reinterpreted", 0) + 1
                try:
                    y2, left2 = IC.dec(factory, b2, v)
                    IC.repair_text_padding(y2)
                    if left2 or IC.enc(y2, v) != b2:
                        findings.append(Finding("c01:decode-encode-decode-unstable:%s" % wcls,
                                                "%s under KMIP %s: an accepted byte string is not stable under "
                                                "decode-encode-decode" % (cls_name, IC.vname(v)),
                                                dict(replay, version=IC.vname(v), hex=b.hex())))
                except Exception as e:
                    findings.append(Finding("c01:decode-encode-decode-unstable:%s" % wcls,
                                            "%s under KMIP %s: the re-encoding of an accepted byte string is rejected "
                                            "(%s)" % (cls_name, IC.vname(v), type(e).__name__),
                                            dict(replay, version=IC.vname(v), hex=b.hex())))
            elif b2 != b:
                findings.append(Finding("c01:reencode-differs:%s" % wcls,
                                        "%s under KMIP %s: re-encoding the decoded value gives different bytes"
                                        % (cls_name, IC.vname(v)), dict(replay, version=IC.vname(v), hex=b.hex())))
            else:
                stats["roundtrips"] = stats.get("roundtrips", 0) + 1
        except Exception as e:
            if mode != "strict" and type(e).__name__ in ("InvalidField", "ValueError", "TypeError", "AttributeError"):
                # the reader accepted an incomplete structure the writer insists on completing (reader more
                # lenient than writer on a value that was incomplete / inconsistent to begin with)
                stats["lenient_reader_incomplete_value"] = stats.get("lenient_reader_incomplete_value", 0) + 1
                continue
            findings.append(Finding("c01:reencode-raises:%s" % wcls,
                                    "%s under KMIP %s: the decoded value cannot be encoded again (%s)"
                                    % (cls_name, IC.vname(v), type(e).__name__),
                                    dict(replay, version=IC.vname(v), hex=b.hex())))
        d = [p for p in IC.diff(xv, y) if not is_version_path(p)]
        diffs[v] = set(d)
        if hasattr(type(x), "__eq__") and "__eq__" in type(x).__dict__:
            try:
                eq = (xv == y)
                stats["eq_true" if eq else "eq_false"] = stats.get("eq_true" if eq else "eq_false", 0) + 1
                if bool(eq) != (not d):
                    stats["eq_vs_structural_disagree"] = stats.get("eq_vs_structural_disagree", 0) + 1
            except Exception:
                stats["eq_raises"] = stats.get("eq_raises", 0) + 1
    # decoded == original, modulo version gating (aggregated per class and top-level field by the caller)
    vs = [v for v in IC.VERSIONS if v in diffs]
    if vs and mode != "inconsistent":
        fields = top_fields(x)
        for f in fields:
            per_v = {}
            for v in vs:
                per_v[v] = sorted(p for p in diffs[v] if p.lstrip(".").split(".")[0].split("[")[0].split(":")[0] == f)
            flags = [bool(per_v[v]) for v in vs]
            kind = pattern_kind(flags)
            if agg is not None:
                a = agg.setdefault(f, {"preserved": set(), "dropped": set(), "all6": None})
                for v in vs:
                    (a["dropped"] if per_v[v] else a["preserved"]).add(IC.vname(v))
                if kind == "all" and len(vs) == len(IC.VERSIONS) and \
                        (a["all6"] is None or (a["all6"]["replay"].get("derive") == "ctor-fill"
                                               and replay.get("derive") != "ctor-fill")):
                    a["all6"] = {"paths": per_v[vs[0]][:4], "replay": replay}
            if kind == "other":
                findings.append(Finding("c01:decoded-differs:%s.%s" % (wcls, f),
                                        "%s: %s differs after decode(encode(x)) under versions %s only (%s)"
                                        % (cls_name, f, ",".join(IC.vname(v) for v, fl in zip(vs, flags) if fl),
                                           ", ".join(sum(per_v.values(), [])[:3])), replay))
            elif kind in ("prefix", "suffix"):
                stats["version_gated_fields"] = stats.get("version_gated_fields", 0) + 1
    # encoding must not change the value: one shared object encoded under the versions up and down
    if len(enc_b) >= 2:
        x1 = copy.deepcopy(x)
        order = [v for v in IC.VERSIONS if v in enc_b]
        order = order + order[::-1][1:]
        prev = None
        for v in order:
            set_header_version(x1, v)
            try:
                b = IC.enc(x1, v)
            except Exception as e:
                b = None
            if b != enc_b[v]:
                xo = copy.deepcopy(x)
                changed = [p for p in IC.diff(xo, x1) if not is_version_path(p)]
                if changed and all(p.endswith(".tag") and "attribute" in p for p in changed) \
                        and prev == enums.KMIPVersion.KMIP_2_0:
                    sig = "c01:encode-mutates:attribute-tag-2.0"
                else:
                    sig = "c01:encode-mutates:%s:%s" % (wcls, ",".join(sorted(set(
                        q.split("[")[0] for q in changed)))[:80])
                findings.append(Finding(sig, "%s: encoding under KMIP %s changed the object (%s); its KMIP %s encoding is "
                                        "now %s" % (cls_name, IC.vname(prev) if prev else "?", ", ".join(changed[:4]),
                                                    IC.vname(v), "an exception" if b is None else "different"),
                                        dict(replay, mutate_order=[IC.vname(q) for q in order])))
                break
            prev = v
        stats["mutation_checks"] = stats.get("mutation_checks", 0) + 1
    return findings


class StructRun(object):
    """seeds -> examples -> instances -> monitors; everything deterministic in (seed, tier)"""

    def __init__(self, seed, tier, budget_s=None):
        self.seed = seed
        self.tier = tier
        self.rng = random.Random(seed * 1000003 + 17)
        self.lib = IC.Library()
        self.stats = {}
        self.per_class = {}
        self.emitted = []
        self.findings = []
        self.samples = []
        self.distinct = set()
        self.evaluations = 0
        self.t0 = time.time()
        self.budget_s = budget_s or (70 if tier == "quick" else 900)
        self.traffic = []

    # -- seeds ----------------------------------------------------------------------------------------
    def collect_seeds(self):
        tagmap = self.lib.by_tag()
        vecs = IC.harvest_test_vectors()
        self.stats["test_vectors"] = len(vecs)
        for b in vecs:
            self.lib.feed_bytes(b, "test-vector", tagmap=tagmap)
        n_req = 160 if self.tier == "quick" else 1500
        try:
            self.traffic = IC.engine_traffic(self.seed * 31 + 5, n_req)
        except Exception as e:
            self.stats["engine_traffic_error"] = repr(e)[:200]
            self.traffic = []
        n_msgs = 0
        for rec in self.traffic:
            v = IC.vof("%d.%d" % (rec["version"] // 10, rec["version"] % 10)) \
                if rec.get("version") in (10, 11, 12, 13, 14, 20) else None
            if v is None:
                continue
            for key in ("request", "response"):
                m = rec.get(key)
                if m is None:
                    continue
                # the constructed objects themselves (not only what survives encode+decode) are examples
                self.lib.add_instance(copy.deepcopy(m), v, "engine-built-" + key)
                try:
                    b = IC.enc(copy.deepcopy(m), v)
                except Exception as e:
                    self.stats["traffic_unencodable"] = self.stats.get("traffic_unencodable", 0) + 1
                    continue
                n_msgs += 1
                self.emitted.append(("traffic-" + key, IC.vname(v), b))
                self.lib.feed_bytes(b, "engine-" + key, versions=[v], tagmap=tagmap)
        self.stats["traffic_messages"] = n_msgs
        for name, fn in BUILDERS.items():
            try:
                o = fn()
                self.lib.add_instance(o, None, "builder:" + name)
            except Exception as e:
                self.stats["builder_error:" + name] = repr(e)[:100]

    # -- instances ------------------------------------------------------------------------------------
    def instances_for(self, key, cls):
        """[(instance, strict, replay)] for one class"""
        exs = self.lib.examples.get(key, [])
        if not exs:
            return []
        n_seed = 8 if self.tier == "quick" else 40
        n_der = 12 if self.tier == "quick" else 60
        n_sub = 10 if self.tier == "quick" else 1024
        # distinct seeds by encoding
        picked = []
        seen = set()
        order = list(range(len(exs)))
        self.rng.shuffle(order)
        # distinct presence masks first (round robin), so that rarely populated fields are exercised
        by_mask = {}
        for i in order:
            by_mask.setdefault(deep_mask(exs[i][0]), []).append(i)
        order = []
        groups = [by_mask[k] for k in sorted(by_mask)]
        self.rng.shuffle(groups)
        while any(groups):
            for gq in groups:
                if gq:
                    order.append(gq.pop(0))
        for i in order:
            o, v, origin = exs[i]
            try:
                sig = IC.enc(copy.deepcopy(o), v or enums.KMIPVersion.KMIP_1_4)
            except Exception:
                try:
                    sig = IC.enc(copy.deepcopy(o), enums.KMIPVersion.KMIP_2_0)
                except Exception:
                    sig = repr(IC.diff(o, cls()))[:200].encode() if IC.factory_for(o) else b"?"
            if sig in seen:
                continue
            seen.add(sig)
            picked.append((o, v, origin, sig))
            if len(picked) >= n_seed:
                break
        out = []
        for (o, v, origin, sig) in picked:
            n_before = len(out)
            base = {"kind": "struct", "class": key, "origin": origin, "seed_hex": sig.hex() if origin != "builder" else None,
                    "seed_version": IC.vname(v) if v else None}
            out.append((o, "strict", dict(base, derive=None)))
            # constructor rebuild, complete and with subsets of the populated arguments dropped
            kw = IC.ctor_kwargs(o)
            if kw is not None:
                try:
                    o2 = type(o)(**kw)
                    out.append((o2, "strict", dict(base, derive="ctor")))
                    self.stats["ctor_rebuilds"] = self.stats.get("ctor_rebuilds", 0) + 1
                except Exception as e:
                    self.stats["ctor_rebuild_failed"] = self.stats.get("ctor_rebuild_failed", 0) + 1
                    self.per_class.setdefault(key, {}).setdefault("ctor_rebuild_failed", type(e).__name__)
                pop = [k for k, val in kw.items() if k != "tag" and val is not None and val != []]
                subsets = []
                if len(pop) <= 10 and 2 ** len(pop) - 1 <= n_sub:
                    for mask in range(1, 2 ** len(pop)):
                        subsets.append([pop[j] for j in range(len(pop)) if mask >> j & 1])
                else:
                    for _ in range(n_sub):
                        subsets.append([k for k in pop if self.rng.random() < 0.4] or [self.rng.choice(pop)])
                for drop in subsets:
                    try:
                        o3 = IC.rebuild_via_ctor(o, drop)
                    except Exception:
                        self.stats["ctor_subset_rejected"] = self.stats.get("ctor_subset_rejected", 0) + 1
                        continue
                    out.append((o3, "incomplete", dict(base, derive="ctor-drop", drop=drop)))
                # arguments no example populates: values other classes hold under the same name, or the
                # class of the same name
                for k, val in kw.items():
                    if k == "tag" or not (val is None or val == []):
                        continue
                    cand = self.kwarg_candidate(k)
                    if cand is None:
                        continue
                    kw2 = dict(kw)
                    kw2[k] = cand
                    try:
                        o4 = type(o)(**kw2)
                    except Exception:
                        continue
                    out.append((o4, "incomplete", dict(base, derive="ctor-fill", fill=k, fill_value=describe_value(cand))))
            rs = self.rng.randrange(1 << 30)
            for j, (desc, y) in enumerate(IC.derive(o, random.Random(rs), n_der)):
                mode = "incomplete" if (desc.startswith("none ") or desc.startswith("drop ")) else "strict"
                last = desc.split(" ")[1].split("=")[0]
                if any(last.endswith(e) or (e + ".") in last or (e + "[") in last for e in EXCLUDE_LEAF):
                    continue
                if desc.startswith("set ") and self.leaf_at(y, desc) == "Enumeration":
                    mode = "inconsistent"   # an enumeration replacement may contradict fields that depend on it
                out.append((y, mode, dict(base, derive=[rs, n_der, j], desc=desc)))
            if origin.startswith("engine-built-request"):
                # the request generator also builds deliberately inconsistent requests (object type vs object):
                # values taken from its objects are not known to be complete
                for q in range(n_before, len(out)):
                    if out[q][1] == "strict":
                        out[q] = (out[q][0], "incomplete", out[q][2])
        return out

    def leaf_at(self, y, desc):
        p = desc.split(" ")[1].split("=")[0]
        cur = y
        try:
            for part in p.split("."):
                if isinstance(cur, list):
                    cur = cur[int(part)]
                else:
                    d = vars(cur)
                    cur = d[part] if part in d else d["_" + part]
            return IC.prim_kind(cur)
        except Exception:
            return None

    def kwarg_candidate(self, name):
        pool = self._kw_pool().get(name)
        if pool:
            return copy.deepcopy(pool[0])
        camel = "".join(w.capitalize() for w in name.split("_"))
        for k, (c, own) in self.lib.classes.items():
            if c.__name__ == camel and self.lib.examples.get(k):
                return copy.deepcopy(self.lib.examples[k][0][0])
        for mod in IC.core_modules():
            c = getattr(mod, camel, None)
            if isinstance(c, type) and issubclass(c, primitives.Base) and not issubclass(c, primitives.Struct):
                kind = IC.prim_kind(c.__new__(c)) if False else None
                for val in ("corr", b"corr", 7, True):
                    try:
                        return c(val)
                    except Exception:
                        continue
        return None

    def _kw_pool(self):
        if hasattr(self, "_kwp"):
            return self._kwp
        pool = {}
        for key, exs in self.lib.examples.items():
            for (o, v, origin) in exs[:30] + [e for e in exs[30:] if e[2].startswith("builder")]:
                kw = IC.ctor_kwargs(o)
                if not kw:
                    continue
                for k, val in kw.items():
                    if k != "tag" and val is not None and val != []:
                        pool.setdefault(k, []).append(val)
        self._kwp = pool
        return pool

    # -- run ------------------------------------------------------------------------------------------
    def check_traffic(self):
        """the messages the request builder and the engine CONSTRUCTED (not only the ones that decode)"""
        st = {}
        aggs = {"RequestMessage": {}, "ResponseMessage": {}}
        n = 0
        seen = set()
        for rec in self.traffic:
            for key, name in (("request", "RequestMessage"), ("response", "ResponseMessage")):
                m = rec.get(key)
                if m is None or time.time() - self.t0 > self.budget_s:
                    continue
                try:
                    sig = IC.enc(copy.deepcopy(m), enums.KMIPVersion.KMIP_1_4)
                except Exception:
                    sig = None
                if sig in seen:
                    continue
                seen.add(sig)
                before = len(self.emitted)
                replay = {"kind": "traffic", "seed": self.seed, "index": self.traffic.index(rec), "which": key,
                          "json": rec.get("json")}
                # requests come from a generator that also builds deliberately inconsistent ones (object type vs
                # object); responses are built by the engine itself
                fs = check_instance(copy.deepcopy(m), name, "strict" if key == "response" else "incomplete", replay,
                                    st, self.emitted, aggs[name])
                self.findings += fs
                self.evaluations += 1
                n += 1
                for (c, vn, b) in self.emitted[before:]:
                    self.distinct.add((name, vn, "traffic", len(b) % 8, len(b) // 64))
        for name, agg in aggs.items():
            for f, a in sorted(agg.items()):
                if a["dropped"] and not a["preserved"] and a["all6"]:
                    self.findings.append(Finding(
                        "c01:field-dropped:%s.%s" % (name, f),
                        "%s.%s: the value the engine / request builder constructed is not reproduced by "
                        "decode(encode(x)) under ANY version (%s)" % (name, f, ", ".join(a["all6"]["paths"])),
                        a["all6"]["replay"]))
        self.stats["traffic_messages_checked"] = n
        for k, v in st.items():
            self.stats["traffic:" + k] = v

    # -- decoding is a function of the bytes alone ---------------------------------------------------------
    def purity_phase(self):
        """Every message this run encoded and decoded successfully is decoded AGAIN after the decoder has been shown
        near relatives of it that it refuses or reads differently (an attribute name replaced by one PyKMIP has no value
        class for - Link, Usage Limits, Fresh - of the same length; single flipped bytes): the second decoding must give
        what the first gave.  (A decoder that remembers what it could not read - a process-lifetime table of operations,
        a class attribute - fails exactly here.)"""
        byname = {}
        for key, (cls, own) in self.lib.classes.items():
            byname.setdefault(cls.__name__, cls)
        seen, sample = set(), []
        order = sorted(self.emitted, key=lambda m: 0 if m[0].replace("traffic-", "") in (
            "ResponseMessage", "RequestMessage", "ResponseBatchItem", "RequestBatchItem") else 1)
        limit = 700 if self.tier == "quick" else 6000
        for (c, vn, b) in order:
            c = c.replace("traffic-", "").split(".")[-1]
            if c not in byname or (c, vn, b) in seen or IC.factory_for_class(byname[c]) is None:
                continue
            seen.add((c, vn, b))
            sample.append((c, vn, b))
            if len(sample) >= limit:
                break
        SUBST = [(b"Name", b"Link"), (b"Object Group", b"Usage Limits"), (b"Initial Date", b"Usage Limits"),
                 (b"State", b"Fresh"), (b"Sensitive", b"Lease Tim")]
        n = poisons = 0

        def odd_spellings():
            """the library's name <-> tag tables are asked for spellings of attribute names they may or may not accept
            (another capitalisation), by name and through an encode attempt under KMIP 2.0"""
            from kmip.core import enums as _e, objects as _o, primitives as _p, utils as _u
            k = 0
            for a in list(_e.AttributeType)[:60]:
                nm = a.value
                for v in (nm.lower(), nm.upper(), nm.capitalize(), nm.title(), nm.swapcase()):
                    if v == nm:
                        continue
                    k += 1
                    try:
                        _e.convert_attribute_name_to_tag(v)
                    except BaseException:
                        pass
                    try:
                        t = _o.TemplateAttribute(attributes=[_o.Attribute(
                            attribute_name=_o.Attribute.AttributeName(v),
                            attribute_value=_p.TextString("x", tag=_e.Tags.ATTRIBUTE_VALUE))])
                        _o.convert_template_attribute_to_attributes(t).write(_u.BytearrayStream(),
                                                                           kmip_version=_e.KMIPVersion.KMIP_2_0)
                    except BaseException:
                        pass
            return k
        # A: decode everything once;  B: show the decoder / the library's tables every near relative and odd spelling;
        # C: decode everything again
        first = []
        for (c, vn, b) in sample:
            f = IC.factory_for_class(byname[c])
            v = IC.vof(vn)
            try:
                d1, left1 = IC.dec(f, b, v)
            except Exception:
                continue
            first.append((c, vn, b, f, v, d1, left1))
        for (c, vn, b, f, v, d1, left1) in first:
            ps = [b.replace(x, y) for x, y in SUBST if x in b]
            for k in (len(b) // 3, len(b) - 5):
                if 8 <= k < len(b):
                    q = bytearray(b)
                    q[k] ^= 0x41
                    ps.append(bytes(q))
            for q in ps:
                poisons += 1
                try:
                    IC.dec(f, q, v)
                except BaseException:
                    pass
        poisons += odd_spellings()
        for (c, vn, b, f, v, d1, left1) in first:
            n += 1
            self.evaluations += 1
            try:
                d2, left2 = IC.dec(f, b, v)
            except Exception as e:
                self.findings.append(Finding(
                    "c01:decoder-remembers:%s" % c,
                    "%s under KMIP %s: bytes that were decoded a moment ago are refused (%s: %s) after the decoder was shown "
                    "near relatives of the run's messages and odd spellings of attribute names"
                    % (c, vn, type(e).__name__, str(e)[:120]),
                    {"kind": "purity", "class": c, "version": vn, "hex": b.hex(), "poisons": []}))
                continue
            if left1 != left2 or IC.diff(d1, d2):
                self.findings.append(Finding(
                    "c01:decoder-remembers:%s" % c,
                    "%s under KMIP %s: the same bytes decode to something else (%s) after the decoder was shown near "
                    "relatives of the run's messages and odd spellings of attribute names"
                    % (c, vn, str(IC.diff(d1, d2))[:160]),
                    {"kind": "purity", "class": c, "version": vn, "hex": b.hex(), "poisons": []}))
        self.stats["purity_messages"] = n
        self.stats["purity_poison_frames"] = poisons

    # -- falsy values of optional primitive fields --------------------------------------------------
    def falsy_phase(self):
        """For every class and every constructor argument that holds (or can hold) a primitive value: the same
        instance once with a truthy and once with the FALSY value of that type (False, 0, '', b'', [], enum member
        0), alone and together with the other arguments, under every version.  Wherever the truthy sibling's field
        survives decode(encode(x)), the falsy one must survive too (compared through the object's own attributes /
        properties, original against decoded)."""
        n_ex = 3 if self.tier == "quick" else 12
        combos = set()
        per_class = {}
        for key in sorted(self.lib.classes):
            cls, own = self.lib.classes[key]
            exs = self.lib.examples.get(key, [])
            if not exs or IC.factory_for_class(cls) is None:
                continue
            idx = list(range(len(exs)))
            self.rng.shuffle(idx)
            firsts, seen_masks = [], set()
            for i in idx:
                mk = presence_mask(exs[i][0])
                if mk not in seen_masks:
                    seen_masks.add(mk)
                    firsts.append(i)
            firsts.sort(key=lambda i: -presence_mask(exs[i][0]).count("1"))
            done_fields = {}
            for i in firsts[:n_ex]:
                o = exs[i][0]
                kw = IC.ctor_kwargs(o)
                if not kw:
                    continue
                for k in sorted(kw):
                    if k == "tag" or time.time() - self.t0 > self.budget_s + 20:
                        continue
                    cur = kw[k]
                    if cur is None or cur == []:
                        cur = getattr(self, "discovered", {}).get((key, k))
                    if cur is None or cur == []:
                        cur = self.kwarg_candidate(k)
                    pairs = falsy_pairs(cur)
                    if not pairs and (cur is None or cur == []):
                        # nothing known about the argument: find out by behaviour which raw types it takes (a
                        # probe counts when the constructor accepts it and it survives a round trip somewhere)
                        for probe in (True, 1, "x", b"x"):
                            try:
                                xp = cls(**dict(copy.deepcopy(kw), **{k: probe}))
                            except Exception:
                                continue
                            if any(field_survives(xp, k, v, [], cls.__name__) is True for v in IC.VERSIONS):
                                pairs += falsy_pairs(probe)
                    if not pairs:
                        continue
                    for (truthy, falsy, label) in pairs:
                        # enough once every version has been exercised twice with an encodable sibling
                        if all(done_fields.get((k, label, vv), 0) >= 2 for vv in IC.VERSIONS):
                            continue
                        for ctx_name, base in (("with-others", kw), ("alone", self.minimal_kwargs(cls, kw, k))):
                            if base is None:
                                continue
                            try:
                                xt = cls(**dict(copy.deepcopy(base), **{k: copy.deepcopy(truthy)}))
                                xf = cls(**dict(copy.deepcopy(base), **{k: copy.deepcopy(falsy)}))
                            except Exception:
                                self.stats["falsy_ctor_rejected"] = self.stats.get("falsy_ctor_rejected", 0) + 1
                                continue
                            if IC.diff(getattr(xf, k, None), falsy) and not isinstance(falsy, primitives.Base):
                                # the constructor itself normalised the falsy value away (e.g. '' -> None)
                                held = getattr(xf, "_" + k, None)
                                holds = isinstance(held, primitives.Base) and not isinstance(held, primitives.Struct) \
                                    and not IC.diff(getattr(held, "value", None), falsy)
                                if getattr(xf, k, None) is None and not holds:
                                    self.stats["falsy_normalised_by_ctor"] = \
                                        self.stats.get("falsy_normalised_by_ctor", 0) + 1
                                    continue
                            for v in IC.VERSIONS:
                                rt = field_survives(xt, k, v, self.emitted, cls.__name__)
                                rf = field_survives(xf, k, v, self.emitted, cls.__name__)
                                if rf is None:
                                    continue
                                done_fields[(k, label, v)] = done_fields.get((k, label, v), 0) + 1
                                combos.add((cls.__name__, k, label, IC.vname(v)))
                                per_class[cls.__name__] = per_class.get(cls.__name__, 0) + 1
                                self.evaluations += 1
                                if rt is True and rf is False:
                                    self.findings.append(Finding(
                                        "c01:falsy-field-dropped:%s.%s" % (defining_class(xf, "write"), k),
                                        "%s(%s=%s) under KMIP %s: the field survives decode(encode(x)) when it holds %r "
                                        "and is lost or changed when it holds the falsy value %r (%s)"
                                        % (cls.__name__, k, label, IC.vname(v), short_val(truthy), short_val(falsy),
                                           ctx_name),
                                        {"kind": "falsy", "class": key, "field": k, "label": label,
                                         "version": IC.vname(v), "context": ctx_name,
                                         "base": {kk: describe_value(vv) for kk, vv in base.items()
                                                  if kk != k and vv is not None and vv != []},
                                         "falsy": describe_value(falsy), "truthy": describe_value(truthy)}))
        self.stats["falsy_combinations"] = len(combos)
        self.falsy_combinations = len(combos)
        self.falsy_per_class = per_class

    def alias_phase(self):
        """decoded values are independent of each other: decoding a second value of a class (with a fresh instance)
        must not change a value decoded before - two values that share state through a class-level default, a cache or
        a factory show up as a different re-encoding of the first one.  Works from the BYTE strings the library was
        grown from (fixture vectors, real traffic), not from the decoded examples, which such sharing would already
        have made equal."""
        n = pairs = 0
        for key in sorted(self.lib.classes):
            cls, own = self.lib.classes[key]
            if IC.factory_for_class(cls) is None:
                continue
            name = cls.__name__
            byv = {}
            for (v, item) in self.lib.sources.get(key, []):
                lst = byv.setdefault(v, [])
                if item not in lst and len(lst) < 4:
                    lst.append(item)
            for v, items in sorted(byv.items(), key=lambda kv: str(kv[0])):
                if len(items) < 2:
                    continue
                first = []
                for b in items:
                    try:
                        o, left = IC.dec(cls, b, v)
                        first.append((b, o, IC.enc(o, v)))
                    except Exception:
                        pass
                if len(first) < 2 or len(set(r for _, _, r in first)) < 2:
                    continue
                pairs += 1
                for b in items:                       # decode them all once more, with fresh instances
                    try:
                        IC.dec(cls, b, v)
                    except Exception:
                        pass
                for (b, o, r) in first:
                    n += 1
                    try:
                        r2 = IC.enc(o, v)
                    except Exception as e:
                        r2 = "raised %s" % type(e).__name__
                    if r2 != r:
                        self.findings.append(Finding(
                            "c01:decoded-values-share-state:%s" % name,
                            "%s under KMIP %s: the value decoded from %s re-encoded as %s; after other %s values were "
                            "decoded (each with a fresh instance) the SAME object re-encodes as %s" % (
                                name, IC.vname(v), b.hex()[:120], r.hex()[:120], name,
                                r2.hex()[:120] if isinstance(r2, bytes) else r2),
                            {"kind": "alias", "class": key, "version": IC.vname(v),
                             "encodings": [x.hex() for x in items]}))
                        break
        self.stats["alias_checks"] = n
        self.stats["alias_class_versions"] = pairs
        self.evaluations += n

    def minimal_kwargs(self, cls, kw, k):
        """the other arguments reduced to what the class needs to be written at all (None when nothing works)"""
        base = {kk: (vv if kk == "tag" else None) for kk, vv in kw.items()}
        order = [kk for kk in kw if kk not in ("tag", k) and kw[kk] is not None and kw[kk] != []]
        for attempt in range(len(order) + 1):
            try:
                x = cls(**dict(copy.deepcopy(base), **{k: copy.deepcopy(kw[k]) if kw[k] is not None else None}))
                for v in (enums.KMIPVersion.KMIP_2_0, enums.KMIPVersion.KMIP_1_4, enums.KMIPVersion.KMIP_1_0):
                    try:
                        IC.enc(x, v)
                        return base
                    except Exception:
                        continue
            except Exception:
                pass
            if attempt < len(order):
                base[order[attempt]] = kw[order[attempt]]
        return None

    def run(self):
        self.collect_seeds()
        self.check_traffic()
        keys = sorted(self.lib.classes)
        for key in keys:
            cls, own = self.lib.classes[key]
            name = cls.__name__
            pc = self.per_class.setdefault(key, {})
            pc["own_read_write"] = own
            insts = self.instances_for(key, cls)
            pc["examples"] = len(self.lib.examples.get(key, []))
            pc["instances"] = len(insts)
            st = {}
            agg = {}
            for (o, strict, replay) in insts:
                if time.time() - self.t0 > self.budget_s:
                    pc["truncated_by_budget"] = True
                    break
                before = len(self.emitted)
                fs = check_instance(o, name, strict, replay, st, self.emitted, agg)
                self.evaluations += 1
                for (c, vn, b) in self.emitted[before:]:
                    self.distinct.add((name, vn, presence_mask(o), len(b) % 8))
                for f in fs:
                    self.findings.append(f)
                if len(self.samples) < 6 and self.emitted[before:]:
                    c, vn, b = self.emitted[before]
                    self.samples.append({"class": name, "version": vn, "derive": replay.get("desc") or replay.get("derive"),
                                         "hex": b.hex()[:160]})
            for f, a in sorted(agg.items()):
                if a["dropped"] and not a["preserved"] and a["all6"]:
                    self.findings.append(Finding(
                        "c01:field-dropped:%s.%s" % (defining_class(cls(), "write") if IC.factory_for_class(cls) else name, f),
                        "%s.%s: a value given to the constructor is not reproduced by decode(encode(x)) under ANY "
                        "version, in any instance (%s)" % (name, f, ", ".join(a["all6"]["paths"])), a["all6"]["replay"]))
                elif a["dropped"] and not a["preserved"]:
                    st["field_never_preserved_but_not_all_versions_encodable"] = \
                        st.get("field_never_preserved_but_not_all_versions_encodable", 0) + 1
            pc["fields"] = {f: {"preserved": sorted(a["preserved"]), "dropped": sorted(a["dropped"])}
                            for f, a in sorted(agg.items())}
            pc["stats"] = st
            for k, n in st.items():
                self.stats[k] = self.stats.get(k, 0) + n
        self.alias_phase()
        import codec_fields
        codec_fields.discover_phase(self)
        codec_fields.nested_phase(self)
        self.falsy_phase()
        self.purity_phase()
        return self


def deep_mask(o, depth=0):
    """presence mask of the fields of o and of its direct structure children"""
    m = []
    for k, v in IC.state_items(o):
        if v is None or v == []:
            m.append("0")
        elif isinstance(v, primitives.Struct) and depth < 1:
            m.append("(" + deep_mask(v, depth + 1) + ")")
        elif isinstance(v, list) and v and isinstance(v[0], primitives.Struct) and depth < 1:
            m.append("[" + deep_mask(v[0], depth + 1) + "]")
        else:
            m.append("1")
    return "".join(m)


def short_val(v):
    if isinstance(v, primitives.Base):
        return "%s(%r)" % (type(v).__name__, getattr(v, "value", None))
    return v


def falsy_of_raw(v):
    """(truthy, falsy, label) for a raw Python value, or None"""
    import enum as _enum
    if isinstance(v, bool):
        return (True, False, "False")
    if isinstance(v, _enum.Enum):
        zero = [m for m in type(v) if m.value == 0]
        if not zero:
            return None
        nonzero = [m for m in type(v) if m.value != 0]
        return (v if v.value != 0 else (nonzero[0] if nonzero else v), zero[0], "enum0")
    if isinstance(v, int):
        return (v if v != 0 else 1, 0, "0")
    if isinstance(v, str):
        return (v if v else "x", "", "''")
    if isinstance(v, bytes):
        return (v if v else b"x", b"", "b''")
    return None


def falsy_pairs(cur):
    """[(truthy value, falsy value, label)] for what a constructor argument holds"""
    if cur is None:
        return []
    if isinstance(cur, primitives.Struct):
        return []
    if isinstance(cur, primitives.Base):
        kind = IC.prim_kind(cur)
        val = cur.value
        if kind == "Enumeration":
            r = falsy_of_raw(val) if val is not None else None
        elif kind == "Boolean":
            r = (True, False, "False")
        elif kind in ("Integer", "LongInteger", "BigInteger", "Interval", "DateTime"):
            r = (val if val else 1, 0, "0")
        elif kind == "TextString":
            r = (val if val else "x", "", "''")
        elif kind == "ByteString":
            r = (val if val else b"x", b"", "b''")
        else:
            r = None
        if r is None:
            return []
        t, f = IC.rebuild_prim(cur, r[0]), IC.rebuild_prim(cur, r[1])
        if t is None or f is None:
            return []
        return [(t, f, r[2])]
    if isinstance(cur, list):
        if cur and not isinstance(cur[0], primitives.Struct):
            out = [(cur, [], "[]")]
            r = falsy_pairs(cur[0])
            for (t, f, label) in r:
                out.append(([t], [f], "[" + label + "]"))
            return out
        return []
    r = falsy_of_raw(cur)
    return [r] if r else []


def field_survives(x, k, v, emitted, cls_name):
    """True / False: attribute k of the decoded object equals the original's; None when x cannot be encoded or its
    encoding is not accepted under v"""
    xv = copy.deepcopy(x)
    set_header_version(xv, v)
    factory = IC.factory_for(xv)
    if factory is None:
        return None
    try:
        b = IC.enc(xv, v)
    except Exception:
        return None
    emitted.append((cls_name, IC.vname(v), b))
    try:
        y, left = IC.dec(factory, b, v)
    except Exception:
        return None
    if left:
        return None
    try:
        a, c = getattr(xv, k), getattr(y, k)
    except Exception:
        return None
    if IC.diff(a, c):
        return False
    # what the objects HOLD (the primitive behind the property), not only what their property getters report: a getter
    # that tests the held primitive's truthiness reports None on both sides when the value was lost on the way
    ha, hc = getattr(xv, "_" + k, None), getattr(y, "_" + k, None)
    if isinstance(ha, primitives.Base) and not isinstance(ha, primitives.Struct) and (hc is None or isinstance(hc, primitives.Base)):
        va = getattr(ha, "value", None)
        vc = None if hc is None else getattr(hc, "value", None)
        if va is not None and IC.diff(va, vc):
            return False
    return True


def presence_mask(o):
    m = []
    for k, v in IC.state_items(o):
        m.append("1" if not (v is None or v == []) else "0")
    return "".join(m)


# ---------------------------------------------------------------------------------------------------------
# M3: child-level neighbours of structure encodings (the reader's sequencing decisions)
# ---------------------------------------------------------------------------------------------------------

COMPAT = {2: (5, 10), 5: (2, 10), 10: (2, 5), 7: (8,), 8: (7,), 3: (9,), 9: (3,)}


def children_of(b):
    """(header tag bytes, [child byte strings]) of a structure encoding"""
    ln = int.from_bytes(b[4:8], "big")
    body = b[8:8 + ln]
    kids = []
    off = 0
    while off + 8 <= len(body):
        l2 = int.from_bytes(body[off + 4:off + 8], "big")
        tot = 8 + l2 + ((8 - l2 % 8) % 8)
        kids.append(body[off:off + tot])
        off += tot
    return b[:3], kids


def rebuild(tag3, kids):
    body = b"".join(kids)
    return tag3 + b"\x01" + len(body).to_bytes(4, "big") + body


def child_variants(b, rng, limit, foreign=()):
    """structure encodings that differ from b in the sequence of children only (each child stays well-formed)"""
    tag3, kids = children_of(b)
    out = []
    n = len(kids)
    for i in range(n):
        out.append(("drop%d" % i, kids[:i] + kids[i + 1:]))
        out.append(("dup%d" % i, kids[:i + 1] + kids[i:]))
        for j in range(n):
            if j != i:
                k2 = kids[:i] + kids[i + 1:]
                k2.insert(j, kids[i])
                out.append(("move%d>%d" % (i, j), k2))
        ty = kids[i][3]
        for t2 in COMPAT.get(ty, ()):
            out.append(("type%d:%d" % (i, t2), kids[:i] + [kids[i][:3] + bytes([t2]) + kids[i][4:]] + kids[i + 1:]))
    for fk in foreign:
        for j in range(n + 1):
            out.append(("ins@%d" % j, kids[:j] + [fk] + kids[j:]))
    rng.shuffle(out)
    res, seen = [], {b}
    for (d, ks) in out:
        v = rebuild(tag3, ks)
        if v not in seen:
            seen.add(v)
            res.append((d, v))
        if len(res) >= limit:
            break
    return res


MESSAGE_CLASSES = ("RequestMessage", "ResponseMessage")


def schema_cases(run, names, rng, tier):
    """[(class name, version number 10..20, description, bytes, python accepts?, python re-encode stable?)]"""
    n_ex = 4 if tier == "quick" else 30
    n_var = 30 if tier == "quick" else 200
    cases = []
    byname = {}
    for key, (c, own) in run.lib.classes.items():
        byname.setdefault(c.__name__, []).append(key)
    for name in names:
        for key in byname.get(name, []):
            cls = run.lib.classes[key][0]
            exs = run.lib.examples.get(key, [])
            idx = list(range(len(exs)))
            rng.shuffle(idx)
            # one example per presence mask, the most populated masks first (order-sensitive pairs of optional
            # fields only show when both are present), then the rest
            firsts, seen_masks = [], set()
            for i in idx:
                mk = presence_mask(exs[i][0])
                if mk not in seen_masks:
                    seen_masks.add(mk)
                    firsts.append(i)
            firsts.sort(key=lambda i: -presence_mask(exs[i][0]).count("1"))
            idx = firsts + [i for i in idx if i not in set(firsts)]
            pool_children = []
            picked = 0
            seen = set()
            for i in idx:
                o = exs[i][0]
                if picked >= n_ex:
                    break
                fresh = True
                for v in IC.VERSIONS:
                    xv = copy.deepcopy(o)
                    try:
                        xv.tag = cls().tag      # e.g. a Name held as an attribute value carries that tag
                    except Exception:
                        pass
                    set_header_version(xv, v)
                    try:
                        b = IC.enc(xv, v)
                    except Exception:
                        continue
                    if (v, b) in seen:
                        continue
                    seen.add((v, b))
                    vn = IC.VNUM[v][0] * 10 + IC.VNUM[v][1]
                    variants = [("valid", b)]
                    if name not in MESSAGE_CLASSES:
                        _, kids = children_of(b)
                        # foreign children to insert: primitives only (a structure child is read by a class that
                        # depends on the rest of the item, e.g. the payload class on the operation)
                        pool_children = (pool_children + [k for k in kids if k[3] != 1])[-12:]
                        variants += child_variants(b, rng, n_var, foreign=pool_children[:4])
                    for (d, vb) in variants:
                        if name == "ResponseBatchItem":
                            tags = [int.from_bytes(k[:3], "big") for k in children_of(vb)[1]]
                            if 0x42007C in tags and 0x42005C not in tags:
                                continue     # payload without operation: the reader does not even look for it
                        if name == "Authentication" and not children_of(vb)[1]:
                            continue         # needs at least one credential
                        acc, stable = False, None
                        try:
                            y, left = IC.dec(cls, vb, v)
                            acc = (left == 0)
                        except Exception:
                            acc = False
                        if acc:
                            try:
                                IC.repair_text_padding(y)
                                stable = (IC.enc(y, v) == vb)
                            except Exception as e:
                                stable = "raises " + type(e).__name__
                        cases.append((name, vn, d, vb, acc, stable))
                    fresh = False
                if not fresh:
                    picked += 1
    return cases


# ---------------------------------------------------------------------------------------------------------
# hand-made seeds for values no byte vector carries
# ---------------------------------------------------------------------------------------------------------

def _response_header_full():
    return messages.ResponseHeader(protocol_version=contents.ProtocolVersion(1, 4), time_stamp=contents.TimeStamp(1),
                                   batch_count=contents.BatchCount(0),
                                   server_correlation_value=contents.ServerCorrelationValue("corr"))


def _response_header_hashed():
    return messages.ResponseHeader(protocol_version=contents.ProtocolVersion(2, 0), time_stamp=contents.TimeStamp(7),
                                   batch_count=contents.BatchCount(0), server_hashed_password=b"\x01\x02\x03")


def _request_header_full():
    from kmip.core import objects
    cred = objects.Credential(credential_type=enums.CredentialType.USERNAME_AND_PASSWORD,
                              credential_value=objects.UsernamePasswordCredential(username="u", password="p"))
    return messages.RequestHeader(protocol_version=contents.ProtocolVersion(1, 2),
                                  maximum_response_size=contents.MaximumResponseSize(4096),
                                  asynchronous_indicator=contents.AsynchronousIndicator(False),
                                  authentication=contents.Authentication([cred]),
                                  batch_error_cont_option=contents.BatchErrorContinuationOption(
                                      enums.BatchErrorContinuationOption.STOP),
                                  batch_order_option=contents.BatchOrderOption(True),
                                  time_stamp=contents.TimeStamp(1234567890), batch_count=contents.BatchCount(0))


def _response_item_error():
    return messages.ResponseBatchItem(operation=contents.Operation(enums.Operation.GET),
                                      unique_batch_item_id=contents.UniqueBatchItemID(b"\x01"),
                                      result_status=contents.ResultStatus(enums.ResultStatus.OPERATION_FAILED),
                                      result_reason=contents.ResultReason(enums.ResultReason.ITEM_NOT_FOUND),
                                      result_message=contents.ResultMessage("not found"))


def _request_item_ephemeral():
    from kmip.core.messages import payloads
    return messages.RequestBatchItem(operation=contents.Operation(enums.Operation.ACTIVATE),
                                     unique_batch_item_id=contents.UniqueBatchItemID(b"\x02"),
                                     request_payload=payloads.ActivateRequestPayload(), ephemeral=True)


BUILDERS = {
    "response_header_full": _response_header_full,
    "response_header_hashed": _response_header_hashed,
    "request_header_full": _request_header_full,
    "response_item_error": _response_item_error,
    "request_item_ephemeral": _request_item_ephemeral,
}


def describe_value(v):
    """a JSON form of a constructor argument from which it can be re-created"""
    if isinstance(v, primitives.Base):
        for ver in (enums.KMIPVersion.KMIP_1_4, enums.KMIPVersion.KMIP_2_0):
            try:
                d = {"base": type(v).__module__ + "." + type(v).__name__, "hex": IC.enc(copy.deepcopy(v), ver).hex(),
                     "version": IC.vname(ver), "tag": v.tag.value}
                if IC.prim_kind(v) == "Enumeration":
                    d["enum"] = v.enum.__name__
                return d
            except Exception:
                continue
        return None
    import enum as _enum
    if isinstance(v, _enum.Enum):
        return {"enum_raw": type(v).__name__, "value": v.value}
    if isinstance(v, list):
        return {"list": [describe_value(e) for e in v]}
    if isinstance(v, bool) or isinstance(v, int) or isinstance(v, str):
        return {"py": v}
    if isinstance(v, bytes):
        return {"bytes": v.hex()}
    return None


def undescribe_value(d):
    if not d:
        return None
    if "py" in d:
        return d["py"]
    if "enum_raw" in d:
        return getattr(enums, d["enum_raw"])(d["value"])
    if "list" in d:
        return [undescribe_value(e) for e in d["list"]]
    if "bytes" in d:
        return bytes.fromhex(d["bytes"])
    import importlib
    mod, name = d["base"].rsplit(".", 1)
    c = getattr(importlib.import_module(mod), name)
    tag = enums.Tags(d["tag"])
    tries = [lambda: c(), lambda: c(tag=tag)]
    if "enum" in d:
        tries.append(lambda: primitives.Enumeration(getattr(enums, d["enum"]), None, tag))
    for t in tries:
        try:
            o = t()
            o.read(utils.BytearrayStream(bytes.fromhex(d["hex"])), kmip_version=IC.vof(d["version"]))
            IC.repair_text_padding(o)
            return o
        except Exception:
            continue
    return None


def replay_struct(rep):
    """re-create the instance a replay object describes; returns (instance, strict, class name) or None"""
    lib = IC.Library()
    key = rep["class"]
    cls, own = lib.classes[key]
    origin = rep.get("origin", "")
    if origin.startswith("builder:"):
        o = BUILDERS[origin.split(":", 1)[1]]()
        # the example may be nested inside the built object
        cands = [z for z in IC.nested_bases(o) if type(z) is cls]
        o = cands[0] if cands else o
    else:
        b = bytes.fromhex(rep["seed_hex"])
        v = IC.vof(rep["seed_version"]) if rep.get("seed_version") else enums.KMIPVersion.KMIP_1_4
        o, left = IC.dec(cls, b, v)
    d = rep.get("derive")
    strict = "strict"
    if d == "ctor":
        o = type(o)(**IC.ctor_kwargs(o))
    elif d == "ctor-drop":
        o = IC.rebuild_via_ctor(o, rep.get("drop", []))
        strict = "incomplete"
    elif d == "ctor-fill":
        cand = undescribe_value(rep.get("fill_value"))
        if cand is None:
            return None
        kw = IC.ctor_kwargs(o)
        kw[rep["fill"]] = cand
        o = type(o)(**kw)
        strict = "incomplete"
    elif isinstance(d, list):
        rs, n, j = d
        lst = IC.derive(o, random.Random(rs), n)
        desc, o = lst[j]
        strict = "incomplete" if (desc.startswith("none ") or desc.startswith("drop ")) else "strict"
    return o, strict, cls.__name__
