"""
Correspondence of M15 (lean/KmipModel/Encode.lean, Drivers/Encode.lean) with the real response encoder
(`ResponseMessage.write(stream, kmip_version)` as `KmipSession._handle_message_loop` calls it) - part of C02 / C12 / C16.

  run(ctx, rng) -> coverage dict (it calls ctx.report itself)

The REAL engine (impl_engine.ImplEngine, scripted cryptography backend) is driven with (a) generated adaptive
histories (gen_engine.Gen: all 21 dispatched operations, all 6 protocol versions plus unsupported ones, successes and
every failure class, multi-item batches with every continuation option, rejected requests, random policies, engine
restarts) and (b) a scripted scenario per protocol version that makes every operation SUCCEED on every kind of
object (objects of all 7 types with names / groups / application information / sensitive, Get plain and wrapped,
GetAttributes whole and by name, cryptographic operations incl. IV and authentication tag, attribute edits in the
1.x and 2.0 forms, Locate, Query, DiscoverVersions, Revoke, Destroy, the ID placeholder in a batch).  Every real ResponseMessage is written exactly as the session writes it (the KMIP version of the
request's protocol version; the session's error response for a request the engine rejects as a whole) and the bytes
are compared BYTE FOR BYTE with the bytes the Lean model computes from the abstraction of the SAME real results
(`impl_engine.data_of`, i.e. what Drivers/Engine.lean prints): the check isolates the ENCODER - the engine model is
tied by the engine-family checks.  What `Data` does not carry (Key Wrapping Data of a wrapped key, the split-key
fields, IV / authentication tag of Encrypt) is handed to the model as an ORACLE SUBTREE written by the real code and
counted.

Verdicts:
  * write raises  <=>  the model has no encoding (`hex` null)                 else correspondence divergence
  * bytes equal                                                              else: the monitors below are run on
    the REAL bytes; if they fail it is a finding with the request as replay, otherwise a correspondence divergence
    (`correspondence:response-encoding`, no_input=True)
  * MONITORS (implementation only; Lean executable predicates on the strict M1 parse of the real bytes):
      c02:response-not-wellformed:<op>      the real bytes are not one well-formed TTLV item
      c02:response-envelope:<fault>         `Envelope.faults` (version echoed, time stamp, batch count, status,
                                            reason+message iff not Success)
      c16:response-later-field:<tag>        `Encode.gatingFaults`: an element the request's version excludes
    For byte-equal responses the predicates are evaluated on the model's tree (the same tree: M1 decode . encode = id).
  * every compared response has `inRange` = true (the hypothesis of `server_response_wellformed` is exercised) and
    `valid` = true.
"""
import collections
import json
import logging
import multiprocessing
import os
import sys
import time
import warnings

warnings.filterwarnings("ignore")
HERE = os.path.dirname(os.path.abspath(__file__))
sys.path.insert(0, HERE)

import gen_engine  # noqa: E402
import impl_engine  # noqa: E402
from kmip.core import enums, secrets, utils  # noqa: E402
from kmip.core.messages import contents  # noqa: E402

VERSIONS = [10, 11, 12, 13, 14, 20]
RULE = ("responses of the real KmipEngine to (a) adaptive random histories over all 21 operations x 6 versions "
        "(+ unsupported versions), every failure class, multi-item batches, rejected requests, and (b) a scripted "
        "all-success scenario per version over objects of all 7 types; each written by ResponseMessage.write as the "
        "session does and compared byte for byte with Lean `Encode.responseBytes` of the abstraction "
        "(impl_engine.data_of) of the same results; oracle subtrees (Key Wrapping Data, split-key fields, IV / "
        "authentication tag) are written by the real code and counted; distinct_nontrivial = distinct real byte "
        "strings compared")
OPNAME = {1: "create", 2: "createKeyPair", 3: "register", 5: "deriveKey", 8: "locate", 10: "get", 11: "getAttributes",
          12: "getAttributeList", 14: "modifyAttribute", 15: "deleteAttribute", 18: "activate", 19: "revoke",
          20: "destroy", 24: "query", 30: "discoverVersions", 31: "encrypt", 32: "decrypt", 33: "sign",
          34: "signatureVerify", 35: "mac", 49: "setAttribute"}


class CapEngine(impl_engine.ImplEngine):
    """ImplEngine that keeps the real (ResponseMessage, max size, ProtocolVersion) of the last request."""

    def _open(self):
        super(CapEngine, self)._open()
        orig = self.engine.process_request
        me = self

        def process_request(msg, cred):
            me.last = None
            r = orig(msg, cred)
            me.last = r
            return r
        self.engine.process_request = process_request
        # the scripted backend answers Encrypt without IV / authentication tag; a script may add them
        # ({"k":"ok","t":…,"iv":hex,"tag":hex}) as the real backend does for random IVs / AEAD modes
        ce = self.engine._cryptography_engine
        enc0 = ce.encrypt

        def encrypt(*a, **kw):
            r = enc0(*a, **kw)
            sc = me.current_script() or {}
            if sc.get("iv") is not None:
                r["iv_nonce"] = bytes.fromhex(sc["iv"])
            if sc.get("tag") is not None:
                r["auth_tag"] = bytes.fromhex(sc["tag"])
            return r
        ce.encrypt = encrypt

    def request(self, now, ident, req):
        self.last = None
        return super(CapEngine, self).request(now, ident, req)


def write_items(objs, kv):
    s = utils.BytearrayStream()
    for o in objs:
        o.write(s, kmip_version=kv)
    return bytes(s.buffer).hex()


def oracle_subtrees(resp, kv):
    """{item index: hex of the TTLV items the abstraction `Data` does not carry}, written by the real code"""
    extra = {}
    for i, bi in enumerate(resp.batch_items):
        if bi.result_status.value != enums.ResultStatus.SUCCESS or bi.response_payload is None:
            continue
        op = bi.operation.value
        p = bi.response_payload
        objs = []
        if op == enums.Operation.GET:
            s = p.secret
            if isinstance(s, secrets.SplitKey):
                for f in (s._split_key_parts, s._key_part_identifier, s._split_key_threshold, s._split_key_method,
                          s._prime_field_size):
                    if f:
                        objs.append(f)
            kb = getattr(s, "key_block", None)
            if kb is not None and kb.key_wrapping_data is not None:
                objs.append(kb.key_wrapping_data)
        elif op == enums.Operation.ENCRYPT:
            # both handed over whatever the version: the version test is the model's
            if p._iv_counter_nonce:
                objs.append(p._iv_counter_nonce)
            if p._auth_tag:
                objs.append(p._auth_tag)
        if objs:
            extra[str(i)] = write_items(objs, kv)
    return extra


def exchange(E, g, j, cases):
    """send one request line to the real engine, write the real response as the session does, record the case"""
    try:
        o = E.handle(j)
    except Exception as e:       # the generator built something the harness cannot send
        cases.append({"harness_error": "%s: %s" % (type(e).__name__, e), "line": j})
        return {}
    g.observe(j, o)
    ver = j["req"]["version"]
    c = {"line": j, "ver": ver, "now": j["now"], "extra": {}, "exc": None}
    if "rejected" in o:
        # session.py l.217-222: build_error_response(request's protocol version, e.reason, str(e)), written
        # under the DEFAULT version (the engine never returned one)
        resp = E.engine.build_error_response(impl_engine.version_obj(ver), enums.ResultReason(o["rejected"]),
                                             o["msg"])
        kv = contents.protocol_version_to_kmip_version(E.engine.default_protocol_version)
        c["rejected"] = {"reason": o["rejected"], "msg": o["msg"]}
        c["results"] = None
        c["kinds"] = [("rejected", "rejected:%s" % o["rejected"])]
    else:
        resp, _max, pv = E.last
        kv = contents.protocol_version_to_kmip_version(pv)
        c["rejected"] = None
        c["results"] = o["results"]
        c["kinds"] = [(OPNAME.get(r["op"], "unsupported"), "ok" if r["status"] == "ok" else "fail:%s" % r["reason"])
                      for r in o["results"]]
        try:
            c["extra"] = oracle_subtrees(resp, kv)
        except Exception as e:
            c["extra"] = {}
            c["exc"] = "oracle:%s" % type(e).__name__
    s = utils.BytearrayStream()
    try:
        resp.write(s, kmip_version=kv)
        c["real"] = bytes(s.buffer).hex()
    except Exception as e:
        c["real"] = None
        c["exc"] = "%s: %s" % (type(e).__name__, str(e)[:120])
    cases.append(c)
    return o


def history(args):
    """Worker: one adaptive random history against the real engine -> list of cases
    case = {line, ver, now, results|rejected, extra, real: hex|None, exc, kinds: [(op, outcome)]}"""
    seed, length, profile = args
    logging.disable(logging.CRITICAL)
    g = gen_engine.Gen(seed, profile)
    E = CapEngine(scripted_crypto=True)
    cases = []
    try:
        pol = None
        if g.p(0.7):
            pol = impl_engine.policies_to_json(impl_engine.core_policy.policies) + gen_engine.random_policies(g)
            E.handle({"cmd": "policies", "policies": pol})
        for _ in range(length):
            exchange(E, g, g.line(), cases)
            if g.p(0.03):
                E.handle({"cmd": "restart"})
                if pol is not None:
                    E.handle({"cmd": "policies", "policies": pol})
    finally:
        E.close()
    return cases


# ------------------------------------------------------------------ scripted scenario: successes of every operation
MASK_ALL = 0x1 | 0x2 | 0x4 | 0x8 | 0x10 | 0x80 | 0x200


def _tmpl(g, ver, alg=None, length=None, mask=MASK_ALL, rich=True):
    """a template whose attributes all reach the object: names, groups, application info, sensitive"""
    a = []
    if alg is not None:
        a.append({"name": "Cryptographic Algorithm", "index": None, "value": {"k": "enum", "v": alg}})
    if length is not None:
        a.append({"name": "Cryptographic Length", "index": None, "value": {"k": "int", "v": length}})
    if mask is not None:
        a.append({"name": "Cryptographic Usage Mask", "index": None, "value": {"k": "int", "v": mask}})
    if rich:
        tag = "%d" % g.r.randrange(10 ** 6)
        for i in range(g.ch([0, 1, 2, 3])):
            a.append({"name": "Name", "index": i, "value": {"k": "name", "v": g.ch(["n", "clé-", "名"]) + tag + "-%d" % i,
                                                            "t": g.ch([1, 1, 2])}})
        for i in range(g.ch([0, 1, 2])):
            a.append({"name": "Object Group", "index": i, "value": {"k": "text", "v": g.ch(gen_engine.GROUPS) + str(i)}})
        for i in range(g.ch([0, 1, 2])):
            a.append({"name": "Application Specific Information", "index": i,
                      "value": {"k": "appinfo", "ns": g.ch(["ssl", "ns2", ""]) + str(i), "d": g.ch(["www", "d2"])}})
        if ver >= 14 and g.p(0.5):
            a.append({"name": "Sensitive", "index": None, "value": {"k": "bool", "v": g.p(0.6)}})
        if g.p(0.3):
            a.append({"name": "Operation Policy Name", "index": None, "value": {"k": "text", "v": "default"}})
    return {"tnames": 0, "attrs": a}


def scenario(g, ver, send):
    """successes (and the neighbouring failures) of every operation under protocol version `ver`;
    `send(items, bopt=None)` -> the implementation's abstract answer"""
    r = g.r
    hx = lambda n: gen_engine.hexof(n, rnd=r)  # noqa: E731

    def one(it, **kw):
        it.setdefault("bid", None)
        it.setdefault("crypto", None)
        o = send([it], **kw)
        res = (o.get("results") or [{}])[0]
        return res.get("data") if res.get("status") == "ok" else None

    objs = {}
    # Register one object of every type (Key Block with and without algorithm / length where the server accepts it)
    regs = [
        (1, {"otype": 1, "value": hx(r.choice([0, 5, 16, 33])), "alg": None, "len": None, "format": None, "subtype": 1}, None, None),
        (2, {"otype": 2, "value": hx(16), "alg": 3, "len": 128, "format": 1, "subtype": None}, 3, 128),
        (2, {"otype": 2, "value": hx(32), "alg": 8, "len": 256, "format": 1, "subtype": None}, 8, 256),
        (3, {"otype": 3, "value": hx(r.choice([9, 24])), "alg": 4, "len": 2048, "format": r.choice([1, 3, 5]), "subtype": None}, 4, 2048),
        (4, {"otype": 4, "value": hx(r.choice([7, 40])), "alg": 4, "len": 2048, "format": r.choice([1, 3, 4]), "subtype": None}, 4, 2048),
        (5, {"otype": 5, "value": hx(16), "alg": 3, "len": 128, "format": 1, "subtype": None}, 3, 128),
        (7, {"otype": 7, "value": hx(r.choice([1, 8, 20])), "alg": None, "len": None, "format": None, "subtype": r.choice([1, 2])}, None, None),
        (8, {"otype": 8, "value": hx(r.choice([0, 3, 64])), "alg": None, "len": None, "format": None, "subtype": 0x80000000}, None, None),
    ]
    for ot, obj, alg, ln in regs:
        t = _tmpl(g, ver, mask=None if ot == 8 else MASK_ALL)
        d = one({"op": "register", "otype": ot, "tmpl": t, "obj": obj})
        if d:
            objs.setdefault(ot, []).append(d["uid"])
    # Create / CreateKeyPair, the second through the ID placeholder in a batch
    d = one({"op": "create", "otype": 2, "tmpl": _tmpl(g, ver, 3, 128), "crypto": {"k": "ok", "t": hx(16)}})
    if d:
        objs.setdefault(2, []).append(d["uid"])
    o = send([{"op": "create", "otype": 2, "tmpl": _tmpl(g, ver, 3, 256), "crypto": {"k": "ok", "t": hx(32)}, "bid": "a"},
              {"op": "activate", "uid": None, "bid": "b", "crypto": None},
              {"op": "get", "uid": None, "format": None, "compression": False, "wrap": None, "bid": "c", "crypto": None},
              {"op": "getAttributes", "uid": None, "names": [], "bid": "d", "crypto": None}], bopt=g.ch([None, 1, 2]))
    res = o.get("results") or []
    wrapkey = res[0]["data"]["uid"] if res and res[0].get("status") == "ok" else None
    d = one({"op": "createKeyPair", "common": _tmpl(g, ver, 4, 2048, mask=None, rich=False),
             "priv": _tmpl(g, ver, mask=0x1), "pub": _tmpl(g, ver, mask=0x2),
             "crypto": {"k": "ok2", "pub": hx(10), "priv": hx(14), "pubfmt": 3, "privfmt": 4}})
    if d:
        objs.setdefault(3, []).append(d["pub"])
        objs.setdefault(4, []).append(d["priv"])
    every = [u for us in objs.values() for u in us]
    # read everything back, before and after activation
    for u in every:
        one({"op": "get", "uid": u, "format": None, "compression": False, "wrap": None})
        one({"op": "getAttributes", "uid": u, "names": []})
        one({"op": "getAttributeList", "uid": u})
    for u in every:
        if g.p(0.8):
            one({"op": "activate", "uid": u})
    names = list(gen_engine.ATTR_KIND) + ["bogus", "x-custom", "Operation Policy Name"]
    for u in every:
        one({"op": "getAttributes", "uid": u, "names": r.sample(names, r.choice([1, 1, 2, 4]))})
        if wrapkey is not None and g.p(0.7):
            one({"op": "get", "uid": u, "format": None, "compression": False,
                 "wrap": {"method": 1, "enckey": wrapkey, "encparams": True, "mackey": g.p(0.2), "attrnames": 0, "encoding": 1},
                 "crypto": {"k": "ok", "t": hx(r.choice([8, 24, 40]))}})
    if ver >= 12:
        for u in objs.get(2, []):
            one({"op": "encrypt", "uid": u, "params": True, "crypto": {"k": "ok", "t": hx(r.choice([0, 16, 31]))}})
            one({"op": "encrypt", "uid": u, "params": True,
                 "crypto": {"k": "ok", "t": hx(16), "iv": hx(12) if g.p(0.7) else None, "tag": hx(16) if g.p(0.8) else None}})
            one({"op": "decrypt", "uid": u, "params": True, "crypto": {"k": "ok", "t": hx(r.choice([1, 16]))}})
            one({"op": "mac", "uid": u, "alg": r.choice([None, 8]), "data": True, "crypto": {"k": "ok", "t": hx(20)}})
        for u in objs.get(4, []):
            one({"op": "sign", "uid": u, "params": True, "crypto": {"k": "ok", "t": hx(r.choice([64, 5]))}})
        for u in objs.get(3, []):
            one({"op": "signatureVerify", "uid": u, "params": True, "crypto": {"k": "verdict", "v": True}})
            one({"op": "signatureVerify", "uid": u, "params": True, "crypto": {"k": "verdict", "v": False}})
    for u in (objs.get(2, []) + objs.get(7, []))[:3]:
        ot = r.choice([2, 7])
        d = one({"op": "deriveKey", "otype": ot, "uids": [u],
                 "tmpl": _tmpl(g, ver, 3 if ot == 2 else None, 128, rich=g.p(0.5)), "crypto": {"k": "ok", "t": hx(16)}})
        if d:
            one({"op": "get", "uid": d["uid"], "format": None, "compression": False, "wrap": None})
    # attribute edits (each followed by reading the attributes back)
    for u in every:
        for nm, val in (("Name", {"k": "name", "v": "renamed-%d" % r.randrange(10 ** 6), "t": 1}),
                        ("Object Group", {"k": "text", "v": "grpZ"}),
                        ("Application Specific Information", {"k": "appinfo", "ns": "zz", "d": "dd"})):
            if not g.p(0.6):
                continue
            idx = r.choice([0, 0, 1])
            if ver >= 20:
                cur = one({"op": "getAttributes", "uid": u, "names": [nm]})
                cands = (cur or {}).get("attrs") or []
                if cands:
                    c0 = r.choice(cands)
                    one({"op": "modifyAttribute", "uid": u, "attr": None,
                         "current": {"name": nm, "index": None, "value": c0["value"]},
                         "new": {"name": nm, "index": None, "value": val}})
            else:
                one({"op": "modifyAttribute", "uid": u, "attr": {"name": nm, "index": idx, "value": val},
                     "current": None, "new": None})
        if ver >= 20 and g.p(0.5):
            one({"op": "setAttribute", "uid": u, "attr": {"name": "Sensitive", "index": None,
                                                          "value": {"k": "bool", "v": True}}})
        if g.p(0.7):
            nm = r.choice(["Name", "Object Group", "Application Specific Information"])
            if ver >= 20:
                cur = one({"op": "getAttributes", "uid": u, "names": [nm]})
                cands = (cur or {}).get("attrs") or []
                if cands and g.p(0.7):
                    one({"op": "deleteAttribute", "uid": u, "name": None, "index": None,
                         "current": {"name": nm, "index": None, "value": r.choice(cands)["value"]}, "reference": None})
                else:
                    one({"op": "deleteAttribute", "uid": u, "name": None, "index": None, "current": None,
                         "reference": nm})
            else:
                one({"op": "deleteAttribute", "uid": u, "name": nm, "index": r.choice([None, 0, 1]), "current": None,
                     "reference": None})
        one({"op": "getAttributes", "uid": u, "names": []})
    for _ in range(4):
        attrs = [g.tattr(r.choice(["Name", "State", "Object Type", "Object Group", "Cryptographic Algorithm"]))
                 for _ in range(r.choice([0, 0, 1]))]
        one({"op": "locate", "max": r.choice([None, None, 3, 50]), "offset": r.choice([None, 0, 1]), "attrs": attrs})
    for fs in ([1], [3], [1, 3], [1, 2, 3, 4, 5, 6], [2], r.sample([1, 2, 3, 4, 5, 6], 3)):
        one({"op": "query", "functions": fs})
    if ver >= 11:
        for vs in ([], [ver], [10, 20, 30], [9]):
            one({"op": "discoverVersions", "versions": vs})
    for u in every:
        x = r.random()
        if x < 0.4:
            one({"op": "revoke", "uid": u, "code": r.choice([1, 2, 5])})
        if x < 0.7:
            one({"op": "destroy", "uid": u})


def scenario_history(args):
    """Worker: the scripted scenario under one protocol version -> cases (same shape as `history`)"""
    seed, ver = args
    logging.disable(logging.CRITICAL)
    g = gen_engine.Gen(seed, None)
    E = CapEngine(scripted_crypto=True)
    cases = []
    ident = {"user": "alice", "groups": None}

    def send(items, bopt=None):
        if len(items) > 1:
            for i, it in enumerate(items):
                if it.get("bid") is None:
                    it["bid"] = "b%d" % i
        j = {"cmd": "req", "now": g.now, "id": ident,
             "req": {"version": ver, "ts": None, "async": None, "bopt": bopt, "maxsize": None, "items": items}}
        if g.p(0.3):
            g.now += 1
        return exchange(E, g, j, cases)
    try:
        scenario(g, ver, send)
    finally:
        E.close()
    return cases


PROFILES = [
    None,
    # retrieval-heavy: objects of every kind are registered, then read back in every form
    {"ops": {"create": 6, "createKeyPair": 3, "register": 10, "deriveKey": 3, "locate": 5, "get": 14,
             "getAttributes": 10, "getAttributeList": 5, "activate": 5, "revoke": 3, "destroy": 2, "query": 3,
             "discoverVersions": 3, "encrypt": 4, "decrypt": 3, "sign": 3, "signatureVerify": 3, "mac": 3,
             "setAttribute": 4, "modifyAttribute": 6, "deleteAttribute": 5, "unsupported": 1}},
]


def model_line(c):
    return json.dumps({"ver": c["ver"], "now": c["now"], "results": c["results"], "rejected": c["rejected"],
                       "extra": c["extra"]})


def first_diff(a, b):
    n = min(len(a), len(b))
    for i in range(0, n, 2):
        if a[i:i + 2] != b[i:i + 2]:
            return i // 2
    return n // 2


def run(ctx, rng, n_hist=None, length=None, n_scen=None):
    logging.disable(logging.CRITICAL)
    t0 = time.time()
    quick = ctx.tier == "quick"
    n_hist = n_hist or (24 if quick else 400)
    length = length or (40 if quick else 80)
    n_scen = n_scen or (2 if quick else 20)
    seeds = [rng.randrange(1 << 30) for _ in range(n_hist)]
    args = [(s, length, PROFILES[i % len(PROFILES)]) for i, s in enumerate(seeds)]
    sargs = [(rng.randrange(1 << 30), v) for _ in range(n_scen) for v in VERSIONS]
    procs = min(16, max(1, os.cpu_count() or 1))
    if procs == 1:
        hists = [history(a) for a in args] + [scenario_history(a) for a in sargs]
    else:
        with multiprocessing.get_context("fork").Pool(procs) as pool:
            r1 = pool.map_async(scenario_history, sargs, chunksize=1)
            r2 = pool.map_async(history, args, chunksize=1)
            hists = r1.get() + r2.get()
    t_impl = time.time() - t0
    cases = [c for h in hists for c in h]
    harness_errors = [c for c in cases if "harness_error" in c]
    cases = [c for c in cases if "harness_error" not in c]
    t1 = time.time()
    outs = ctx.run_model("Encode", [json.dumps({"op": "consts"})] + [model_line(c) for c in cases])
    t_model = time.time() - t1
    consts = json.loads(outs[0])
    import kmip
    vendor = "PyKMIP {0} Software Server".format(kmip.__version__)
    if consts.get("vendor") != vendor:
        ctx.report("correspondence:encode-constants", "vendor identification: model %r, server %r"
                   % (consts.get("vendor"), vendor), {"broken": "Encode.vendorIdentification vs kmip.__version__"},
                   no_input=True)

    cov = {"responses": len(cases), "compared": 0, "byte_equal": 0, "both_raise": 0, "differ": 0,
           "raise_divergences": 0, "oracle_subtrees": 0, "responses_with_oracle": 0, "items": 0,
           "not_in_range": 0, "not_valid": 0, "envelope_faults": 0, "gating_faults": 0,
           "harness_errors": len(harness_errors), "excluded": {}, "bytes_compared": 0,
           "by_op_version_outcome": {}, "by_version": {}, "write_raises": {}}
    grid = collections.Counter()
    differing = []
    for c, line in zip(cases, outs[1:]):
        if line.startswith("bad-op extra: not well-formed TTLV"):
            # the oracle subtrees are bytes the REAL encoder wrote (Key Wrapping Data of a wrapped key, split-key
            # fields, IV / tag): the model driver's strict parser refuses them - the real response is not well-formed
            ctx.report("c02:response-subtree-not-wellformed",
                       "a subtree of the real response (the part of the result the model takes from it: key wrapping "
                       "data / split-key fields / IV, tag) is not well-formed TTLV: %s"
                       % json.dumps(json.loads(model_line(c)).get("extra"))[:400],
                       {"kind": "encode", "case": {k: c.get(k) for k in ("ver", "real") if k in c},
                        "line": model_line(c)[:4000]})
            continue
        if not line.startswith("{"):
            raise RuntimeError("encode driver: %s on %s" % (line[:300], model_line(c)[:600]))
        m = json.loads(line)
        if c["exc"] and c["exc"].startswith("oracle:"):
            cov["excluded"][c["exc"]] = cov["excluded"].get(c["exc"], 0) + 1
            continue
        cov["compared"] += 1
        cov["items"] += len(c["kinds"])
        cov["by_version"][str(c["ver"])] = cov["by_version"].get(str(c["ver"]), 0) + 1
        for op, outcome in c["kinds"]:
            grid["%s|%s|%s" % (op, c["ver"], outcome.split(":")[0])] += 1
        if c["extra"]:
            cov["responses_with_oracle"] += 1
            cov["oracle_subtrees"] += len(c["extra"])
        replay = {"kind": "encode", "line": c["line"], "ver": c["ver"]}
        if c["real"] is None or m["hex"] is None:
            if c["real"] is None and m["hex"] is None:
                cov["both_raise"] += 1
                k = (c["exc"] or "?").split(":")[0]
                cov["write_raises"][k] = cov["write_raises"].get(k, 0) + 1
            else:
                cov["raise_divergences"] += 1
                ctx.report("correspondence:response-encoding-raises",
                           "ResponseMessage.write %s but the model %s (request %s)"
                           % ("raises %s" % c["exc"] if c["real"] is None else "writes %d bytes" % (len(c["real"]) // 2),
                              "has no encoding" if m["hex"] is None else "encodes %d bytes" % m["len"],
                              gen_engine.dumps(c["line"]["req"])[:300]),
                           dict(replay, broken="Encode.responseItem = none <=> write raises"), no_input=True)
            continue
        cov["bytes_compared"] += len(c["real"]) // 2
        if m["hex"] == c["real"]:
            cov["byte_equal"] += 1
            for f in m["faults"]:
                cov["envelope_faults"] += 1
                ctx.report("c02:response-envelope:%s" % f, "response of the real engine violates the envelope: %s" % f,
                           replay)
            for t in m["gating"]:
                cov["gating_faults"] += 1
                ctx.report("c16:response-later-field:%06X" % t,
                           "the response under protocol version %s carries element %06X which that version excludes"
                           % (c["ver"], t), replay)
            if not m["inRange"]:
                cov["not_in_range"] += 1
            if not m["valid"]:
                cov["not_valid"] += 1
        else:
            cov["differ"] += 1
            differing.append((c, m))
    if cov["not_in_range"] or cov["not_valid"]:
        ctx.report("correspondence:response-range",
                   "%d responses the real encoder wrote are outside `responseInRange`, %d are not `Item.Valid`"
                   % (cov["not_in_range"], cov["not_valid"]), {"broken": "DataInRange hypothesis of server_response_wellformed"},
                   no_input=True)
    # differing responses: the monitors on the REAL bytes decide between finding and model divergence
    if differing:
        chk = ctx.run_model("Encode", [json.dumps({"op": "check", "ver": c["ver"], "hex": c["real"]})
                                       for c, _ in differing])
        for (c, m), line in zip(differing, chk):
            r = json.loads(line)
            replay = {"kind": "encode", "line": c["line"], "ver": c["ver"]}
            ops = ",".join(sorted(set(k[0] for k in c["kinds"])))
            found = False
            if not r["ok"]:
                found = True
                ctx.report("c02:response-not-wellformed:%s" % ops, "the real response is not well-formed TTLV", replay)
            else:
                for f in r["faults"]:
                    found = True
                    ctx.report("c02:response-envelope:%s" % f, "response of the real engine violates the envelope: %s" % f,
                               replay)
                for t in r["gating"]:
                    found = True
                    ctx.report("c16:response-later-field:%06X" % t,
                               "the response under protocol version %s carries element %06X which that version excludes"
                               % (c["ver"], t), replay)
            if not found:
                at = first_diff(c["real"], m["hex"])
                ctx.report("correspondence:response-encoding",
                           "bytes differ at offset %d (ops %s, version %s): real …%s… model …%s…"
                           % (at, ops, c["ver"], c["real"][max(0, 2 * at - 16):2 * at + 32],
                              m["hex"][max(0, 2 * at - 16):2 * at + 32]),
                           dict(replay, broken="Encode.responseBytes vs ResponseMessage.write",
                                real=c["real"], model=m["hex"]), no_input=True)
    cov["by_op_version_outcome"] = dict(sorted(grid.items()))
    cov["evaluations"] = cov["compared"]
    cov["distinct_nontrivial"] = len(set(c["real"] for c in cases if c.get("real")))
    cov["rule"] = RULE
    cov["samples"] = [{"request": c["line"]["req"], "real_hex": c["real"][:160] + "…"}
                      for c in cases[:400:150] if c.get("real")]
    ops_seen = set(k.split("|")[0] for k in grid)
    cov["operations_seen"] = len(ops_seen & set(OPNAME.values()))
    cov["cells_op_version_outcome"] = len(grid)
    cov["byte_equality_rate"] = (cov["byte_equal"] / float(cov["compared"] - cov["both_raise"])
                                 if cov["compared"] - cov["both_raise"] else None)
    cov["seconds"] = {"implementation": round(t_impl, 1), "model": round(t_model, 1),
                      "total": round(time.time() - t0, 1)}
    if harness_errors:
        cov["harness_error_sample"] = harness_errors[0]["harness_error"]
    return cov


def replay_case(ctx, rep):
    """re-run one reported request line (fresh engine: a state-dependent case replays only its last request) under
    the monitors; True iff they hold"""
    logging.disable(logging.CRITICAL)
    E = CapEngine(scripted_crypto=True)
    try:
        j = rep["line"]
        o = E.handle(j)
        if "rejected" in o:
            return True
        resp, _m, pv = E.last
        s = utils.BytearrayStream()
        try:
            resp.write(s, kmip_version=contents.protocol_version_to_kmip_version(pv))
        except Exception:
            return True
        r = json.loads(ctx.run_model("Encode", [json.dumps({"op": "check", "ver": rep["ver"],
                                                            "hex": bytes(s.buffer).hex()})])[0])
        return bool(r["ok"]) and not r["faults"] and not r["gating"]
    finally:
        E.close()


if __name__ == "__main__":
    import random

    class _Ctx(object):
        tier = sys.argv[1] if len(sys.argv) > 1 else "quick"
        seed = int(os.environ.get("VERIF_SEED", "0"))

        def __init__(self):
            sys.path.insert(0, os.path.join(HERE, ".."))
            import vcheck
            self._c = vcheck.Ctx("C02", self.tier, self.seed, None)

        def run_model(self, *a, **k):
            return self._c.run_model(*a, **k)

        def report(self, sig, what, rep, no_input=False):
            print("REPORT", sig, what[:400])
            return True
    c = _Ctx()
    cov = run(c, random.Random("encode-%s" % c.seed))
    grid = cov.pop("by_op_version_outcome")
    print(json.dumps(cov, indent=1))
    print("cells:", len(grid))
