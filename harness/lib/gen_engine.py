"""
Seeded generator of abstract engine requests (the JSON line protocol shared by
the Lean driver and impl_engine).  Structured, mostly-valid inputs with a
separate stream of deliberately odd ones; every choice comes from one
random.Random so a history replays exactly.
"""
import json
import random

OT = dict(cert=1, sym=2, pub=3, priv=4, split=5, template=6, secret=7, opaque=8)
OPS_ALL = ["create", "createKeyPair", "register", "deriveKey", "locate", "get", "getAttributes",
           "getAttributeList", "activate", "revoke", "destroy", "query", "discoverVersions", "encrypt",
           "decrypt", "sign", "signatureVerify", "mac", "setAttribute", "modifyAttribute", "deleteAttribute"]
VERSIONS = [10, 11, 12, 13, 14, 20]
USERS = ["alice", "bob", "carol"]
LONG_USER = "user-with-a-very-long-common-name-" + "0123456789" * 3        # 64 characters
GROUPSETS = [None] * 14 + [[], ["g1"], ["g2"], ["g1", "g2"], ["g2", "g1"], ["g3"]]
MASKS = [0, 0x1, 0x2, 0x3, 0x4, 0x8, 0xC, 0x10, 0x80, 0x200, 0x3FF, 0x3FF, 0xFFFFFF, 0xFFFFFF, 0xFFFFFF, 0xFFFFFF,
         0x3FF, 0xFFFFFF, 0x1000000, 0x20C, -1, -5, -0x201, 0x200000, 0x200001, 0x200080, 0x200000]
ALGS = [3, 4, 2, 1, 8]            # AES, RSA, 3DES, DES, HMAC_SHA1
NAMES = ["n0", "n1", "n2", "key", "k"]
GROUPS = ["grpA", "grpB"]
POLICY_NAMES = ["default", "public", "custom", "nogrp", "missing", ""]
# texts that are EQUAL under some reading other than code point equality (Unicode canonical / compatibility equivalence,
# letter case, invisible or trailing characters) and unequal as strings: two users, two groups, two names of such a
# pair are two different users, groups, names
TWINS = [("Ame\u0301lie", "Am\u00e9lie"), ("\u212bke", "\u00c5ke"), ("Alice", "alice"), ("bob", "bob "),
         ("carol", "carol\u200b"), ("\ufb01ona", "fiona"), ("STRASSE", "stra\u00dfe"), ("k\uff11", "k1")]

ATTR_KIND = {
    "Unique Identifier": "text", "Name": "name", "Object Type": "enum", "Cryptographic Algorithm": "enum",
    "Cryptographic Length": "int", "Cryptographic Parameters": "other", "Certificate Type": "enum",
    "Operation Policy Name": "text", "Cryptographic Usage Mask": "int", "State": "enum", "Initial Date": "date",
    "Activation Date": "date", "Process Start Date": "date", "Deactivation Date": "date",
    "Object Group": "text", "Application Specific Information": "appinfo", "Contact Information": "text",
    "Sensitive": "bool", "Fresh": "bool", "Lease Time": "int", "Digest": "other", "Archive Date": "date",
}


def hexof(n, fill=None, rnd=None):
    if rnd is not None:
        return "".join("%02x" % rnd.randrange(256) for _ in range(n))
    return ("%02x" % (fill or 0)) * n


class Gen(object):
    def __init__(self, seed, profile=None):
        self.r = random.Random(seed)
        self.now = 1000
        self.created = 0          # upper bound on identifiers issued so far
        self.profile = profile or {}
        self.live = {}            # uid -> {otype, owner, state}  (learned from implementation responses)
        self.dead = []
        self.users, self.groups, self.names = USERS, GROUPS, NAMES
        tr = random.Random((seed if isinstance(seed, int) else hash(str(seed))) ^ 0x7717)
        if self.profile.get("twins") and tr.random() < self.profile["twins"]:
            # a history of twins: the users / groups / names of this history are pairs from TWINS (either order)
            a, b = tr.choice(TWINS)
            if tr.random() < 0.5:
                a, b = b, a
            self.users = [a, b, "alice"]
            c, d = tr.choice(TWINS)
            self.groups = [c + "-team", d + "-team"] if tr.random() < 0.5 else [d + "-team", c + "-team"]
            e, f = tr.choice(TWINS)
            self.names = [e, f, "n0", "key"] if tr.random() < 0.5 else [f, e, "n0", "key"]

    # ---- small pickers --------------------------------------------------
    def ch(self, xs):
        return xs[self.r.randrange(len(xs))]

    def p(self, prob):
        return self.r.random() < prob

    def uid(self, allow_none=True, want=None):
        x = self.r.random()
        if allow_none and x < 0.06:
            return None
        if x < 0.10:
            return self.ch(["abc", "999", "0", "-1", "1x"])
        if x < 0.10 + self.profile.get("exotic_uid", 0.03) and (self.live or self.dead):
            # another SPELLING of an identifier: what SQLite's numeric affinity reads as the same integer, what only
            # other grammars (Python int(), Unicode digits) read as one, and texts with unusual white space
            u = self.ch(list(self.live) or self.dead) if self.p(0.75) or not self.dead else self.ch(self.dead)
            fw = "".join(chr(0xFF10 + int(c)) if c.isdigit() else c for c in u)
            ar = "".join(chr(0x0660 + int(c)) if c.isdigit() else c for c in u)
            return self.ch(["0" + u, " " + u, u + " ", "+" + u, u + ".0", u + "e0", "\t" + u, u + "\n", "  " + u + "  ",
                            "0_" + u, u[0] + "_" + u[1:] if len(u) > 1 else "0_" + u, fw, ar, u + "\u00a0", "0x" + u,
                            u + "  x", "key  one", "key one ", "key\u00a0one", " ", "", ""])
        if x < 0.16 and self.dead:
            return self.ch(self.dead)
        if self.live and x < 0.95:
            cands = list(self.live)
            if want is not None and self.p(0.8):
                c2 = [u for u in cands if want(self.live[u])]
                cands = c2 or cands
            return self.ch(cands)
        hi = max(1, self.created + 1)
        return str(self.r.randint(1, hi))

    def ident(self, req=None):
        user = self.ch(self.users + [self.users[0], self.users[0]])
        if self.profile.get("long_users") and self.p(self.profile["long_users"]):
            # identities at and beyond the width the storage declares for the owner column (a certificate common name
            # may have 64 characters): a 60-character user and the user named by its first 50 characters
            user = self.ch([LONG_USER, LONG_USER, LONG_USER[:50], LONG_USER[:51]])
            gp = self.profile.get("groups")
            return {"user": user, "groups": None if gp is None or not self.p(gp) else self.ch(GROUPSETS[14:])}
        if req is not None and self.p(0.75):
            for it in req["items"]:
                u = it.get("uid") or (it.get("uids") or [None])[0]
                if u in self.live and self.live[u]["owner"] is not None:
                    user = self.live[u]["owner"]
                    break
        gp = self.profile.get("groups")
        if gp is not None:
            groups = self.ch(GROUPSETS[14:]) if self.p(gp) else None
        else:
            groups = self.ch(GROUPSETS)
        return {"user": user, "groups": groups}

    def observe(self, line, out):
        """Learn identifiers / owners / states from the implementation's answer."""
        if line.get("cmd") != "req" or not isinstance(out, dict) or "results" not in out:
            return
        user = line["id"]["user"]
        for it, r in zip(line["req"]["items"], out["results"]):
            if r.get("status") != "ok":
                continue
            d = r.get("data") or {}
            op = it["op"]
            if op in ("create", "register", "deriveKey") and "uid" in d:
                ot = it["otype"] if op != "register" else (it["obj"] or {}).get("otype", it["otype"])
                self.live[d["uid"]] = {"otype": ot, "owner": user, "state": 1}
            elif op == "createKeyPair":
                self.live[d["pub"]] = {"otype": 3, "owner": user, "state": 1}
                self.live[d["priv"]] = {"otype": 4, "owner": user, "state": 1}
            elif op == "destroy":
                import uidcanon
                u = uidcanon.canon(d.get("uid"))            # the server echoes the request's spelling
                self.live.pop(u, None)
                self.dead.append(u)
            elif op == "activate" and d.get("uid") in self.live:
                self.live[d["uid"]]["state"] = 2
            elif op == "revoke" and d.get("uid") in self.live:
                self.live[d["uid"]]["state"] = 4 if it.get("code") == 2 else 3

    def version(self):
        return self.ch(VERSIONS + [12, 12, 13, 14, 14, 14, 20, 20, 20])

    # ---- attribute values -------------------------------------------------
    def aval(self, name):
        k = ATTR_KIND.get(name, "text")
        r = self.r
        if k == "enum":
            if name == "Object Type":
                return {"k": "enum", "v": self.ch([1, 2, 3, 4, 5, 7, 8])}
            if name == "Cryptographic Algorithm":
                return {"k": "enum", "v": self.ch(ALGS)}
            if name == "Certificate Type":
                return {"k": "enum", "v": self.ch([1, 2])}
            if name == "State":
                return {"k": "enum", "v": self.ch([1, 2, 3, 4])}
        if k == "int":
            if name == "Cryptographic Usage Mask":
                return {"k": "int", "v": self.ch(MASKS)}
            if name == "Cryptographic Length":
                return {"k": "int", "v": self.ch([128, 128, 256, 64, 0, 192, 2048, 100, 128, 256, -8, -128])}
            return {"k": "int", "v": r.randrange(0, 1000)}
        if k == "text":
            if name == "Unique Identifier":
                return {"k": "text", "v": self.uid(False)}
            if self.profile.get("inject_format") and self.p(0.2):
                # client-chosen text that means something to str.format / % if the server ever uses it as a template
                return {"k": "text", "v": self.ch(INJECT)}
            if self.p(self.profile.get("long_text", 0.03)):
                # text at and beyond the lengths the storage declares for its columns (String(50), String(255))
                n = self.ch([50, 51, 64, 255, 256, 1000])
                return {"k": "text", "v": ("long-" + name.replace(" ", "")[:8] + "-" + "x" * n)[:n]}
            if name == "Operation Policy Name":
                return {"k": "text", "v": self.ch(POLICY_NAMES)}
            if name == "Object Group":
                return {"k": "text", "v": self.ch(self.groups)}
            return {"k": "text", "v": self.ch(["x", "y"])}
        if k == "bool":
            return {"k": "bool", "v": self.p(0.5)}
        if k == "name":
            if self.profile.get("inject_format") and self.p(0.1):
                return {"k": "name", "v": self.ch(INJECT), "t": 1}
            return {"k": "name", "v": self.ch(self.names), "t": 1 if self.p(0.9) else 2}
        if k == "appinfo":
            if self.p(0.08):
                # empty text strings are legal TTLV: the decoder accepts them whatever the constructors think
                return {"k": "appinfo", "ns": self.ch(["ssl", ""]), "d": self.ch(["", "www", ""])}
            if self.p(0.12):
                v = self.ch(["ssl", "ns2", "vault"])          # data equal to the namespace
                return {"k": "appinfo", "ns": v, "d": v}
            return {"k": "appinfo", "ns": self.ch(["ssl", "ns2"]), "d": self.ch(["www", "d2"])}
        if k == "date":
            if self.p(0.12):
                # the whole signed 64-bit range is a legal Date-Time (beyond what time.gmtime can render)
                return {"k": "date", "v": self.ch([2 ** 62, -2 ** 62, 2 ** 63 - 1, -2 ** 63, 253402300800, -62135596801,
                                                     67768036191676799, 67768036191676800, -1])}
            return {"k": "date", "v": self.ch([self.now, self.now - 1, self.now - 5, 1000, 1003, 0, self.now + 3])}
        return {"k": "other"}

    def tattr(self, name, index="auto"):
        if index == "auto":
            index = None
        return {"name": name, "index": index, "value": self.aval(name)}

    def template(self, must=("Cryptographic Algorithm", "Cryptographic Length", "Cryptographic Usage Mask"),
                 alg=None, length=None):
        r = self.r
        attrs = []
        for m in must:
            if self.p(0.93):
                a = self.tattr(m)
                if m == "Cryptographic Algorithm" and alg is not None and self.p(0.9):
                    a["value"]["v"] = alg
                if m == "Cryptographic Length" and length is not None and self.p(0.9):
                    a["value"]["v"] = length
                if self.p(0.05):
                    a["index"] = self.ch([0, 0, 1])
                attrs.append(a)
        nnames = self.ch([0, 0, 1, 1, 2, 3])
        names = r.sample(self.names, min(nnames, len(self.names))) if self.p(0.9) else [self.ch(self.names) for _ in range(nnames)]
        for i, n in enumerate(names):
            idx = i if self.p(0.9) else None
            attrs.append({"name": "Name", "index": idx, "value": {"k": "name", "v": n, "t": 1}})
        if self.p(0.35):
            attrs.append(self.tattr("Operation Policy Name"))
        if self.p(0.25):
            attrs.append({"name": "Sensitive", "index": None, "value": {"k": "bool", "v": self.p(0.6)}})
        for i in range(self.ch([0, 0, 0, 1, 2])):
            attrs.append({"name": "Object Group", "index": i, "value": {"k": "text", "v": self.ch(self.groups)}})
        for i in range(self.ch([0, 0, 0, 1, 2])):
            a = self.tattr("Application Specific Information")
            a["index"] = i
            attrs.append(a)
        if self.p(self.profile.get("late_fail", 0.06)):
            # attributes that pass template processing but are refused when set on the object ("fail late")
            attrs.append(self.tattr(self.ch(["State", "Initial Date", "Object Type", "Unique Identifier",
                                             "Certificate Type", "Contact Information", "Fresh", "Lease Time",
                                             "Cryptographic Parameters", "Activation Date"])))
        if self.profile.get("template_uid") and self.dead and self.p(self.profile["template_uid"]):
            # a client trying to choose the identifier of the new object: one that a destroyed object had
            attrs.append({"name": "Unique Identifier", "index": None,
                          "value": {"k": "text", "v": str(self.ch([d for d in self.dead if d is not None] or ["1"]))}})
        if self.p(0.15):
            r.shuffle(attrs)
        return {"tnames": 1 if self.p(0.02) else 0, "attrs": attrs}

    # ---- payloads -----------------------------------------------------------
    def crypto_for_len(self, length):
        if isinstance(length, int) and length >= 0 and length % 8 == 0 and length <= 4096:
            x = self.r.random()
            if x < 0.9:
                return {"k": "ok", "t": hexof(length // 8, rnd=self.r)}
            if x < 0.95:
                return {"k": "kmip", "reason": self.ch([7, 10])}
            return {"k": "internal"}
        return {"k": "kmip", "reason": 7}

    def item(self, op=None, version=12):
        it = self._item(op, version)
        if self.profile.get("no_internal_script") and (it.get("crypto") or {}).get("k") == "internal":
            it["crypto"] = {"k": "kmip", "reason": 10}
        if self.profile.get("no_internal_script"):
            if it["op"] == "query" and not it["functions"]:
                it["functions"] = [1]
            if it["op"] == "deriveKey" and not it["uids"]:
                it["uids"] = [self.uid(False)]
        return it

    def _item(self, op=None, version=12):
        r = self.r
        if op is None:
            op = self.pick_op()
        it = {"op": op, "bid": None, "crypto": None}
        if op == "create":
            length = self.ch([128, 128, 256, 64, 192])
            t = self.template(alg=self.ch([3, 3, 3, 2, 8]), length=length) if self.p(0.97) else None
            it.update(otype=2 if self.p(0.95) else self.ch([1, 3, 7, 8]), tmpl=t)
            ln = None
            if t is not None:
                for a in t["attrs"]:
                    if a["name"] == "Cryptographic Length":
                        ln = a["value"]["v"]
                        break
            it["crypto"] = self.crypto_for_len(ln if ln is not None else 128)
            self.created += 1
        elif op == "createKeyPair":
            def kt():
                if self.p(0.15):
                    return None
                return self.template(must=("Cryptographic Usage Mask",) if self.p(0.7) else
                                     ("Cryptographic Algorithm", "Cryptographic Length", "Cryptographic Usage Mask"),
                                     alg=4, length=2048)
            common = self.template(must=("Cryptographic Algorithm", "Cryptographic Length"), alg=4, length=2048) \
                if self.p(0.85) else None
            it.update(common=common, priv=kt(), pub=kt())
            x = r.random()
            lens = [a["value"].get("v") for t in (it["common"], it["priv"], it["pub"]) if t for a in t["attrs"]
                    if a["name"] == "Cryptographic Length"]
            if any(isinstance(v, int) and v <= 0 for v in lens):
                x = 0.92            # no backend produces a key pair of non-positive length
            if x < 0.9:
                it["crypto"] = {"k": "ok2", "pub": hexof(8, rnd=r), "priv": hexof(12, rnd=r), "pubfmt": 3, "privfmt": 4}
            elif x < 0.95:
                it["crypto"] = {"k": "kmip", "reason": 7}
            else:
                it["crypto"] = {"k": "internal"}
            self.created += 2
        elif op == "register":
            ot = self.ch([1, 2, 2, 3, 4, 5, 7, 8])
            obj = {"otype": ot, "value": hexof(self.ch([1, 4, 16]), rnd=r), "alg": None, "len": None,
                   "format": None, "subtype": None}
            if ot == 2:
                n = self.ch([16, 32, 8])
                obj.update(value=hexof(n, rnd=r), alg=self.ch([3, 2, 8]), len=n * 8, format=1)
            elif ot in (3, 4):
                obj.update(alg=4, len=2048, format=3 if ot == 3 else self.ch([3, 4]))
            elif ot == 5:
                obj.update(alg=3, len=128, format=1, value=hexof(16, rnd=r))
            elif ot == 1:
                obj.update(subtype=1)
            elif ot == 7:
                obj.update(subtype=self.ch([1, 2]))
            elif ot == 8:
                obj.update(subtype=0x80000000)
            if self.p(0.12):
                # an object the pie classes refuse (inconsistent length, format the class does not list, PGP cert)
                if ot == 2:
                    if self.p(0.5):
                        obj["len"] = self.ch([obj["len"] + 8, 0, 256, 64])
                    else:
                        obj["format"] = self.ch([2, 3, 5, 7])
                elif ot in (3, 4):
                    obj["format"] = self.ch([1, 2, 3, 4, 5, 6])
                elif ot == 1:
                    obj["subtype"] = 2
                if ot in (2, 3, 4) and self.p(0.3):
                    # key block without algorithm / length (optional on the wire)
                    obj[self.ch(["alg", "len"])] = None
            must = ("Cryptographic Usage Mask",) if ot != 8 else ()
            if ot in (2, 3, 4, 5) and self.p(0.2):
                must = must + ("Cryptographic Algorithm", "Cryptographic Length")
            t = self.template(must=must, alg=obj["alg"], length=obj["len"]) if self.p(0.95) else None
            it.update(otype=ot if self.p(0.97) else 6, tmpl=t, obj=obj if self.p(0.97) else None)
            self.created += 1
        elif op == "deriveKey":
            ot = self.ch([2, 2, 7, 7, 1])
            n = self.ch([16, 32, 16, 8])
            must = ("Cryptographic Length",) + (("Cryptographic Algorithm",) if ot == 2 or self.p(0.2) else ()) \
                + (("Cryptographic Usage Mask",) if self.p(0.8) else ())
            t = self.template(must=must, alg=3, length=n * 8 if self.p(0.93) else self.ch([0, -8, -64, 12, -3]))
            us = [self.uid(False) for _ in range(self.ch([1, 1, 1, 2, 0]))]
            if self.dead and self.p(0.25):
                # a destroyed identifier among the derivation objects, in any position
                live_ok = [u for u in self.live if self.live[u].get("otype") in (2, 7)]
                us = ([self.ch(live_ok)] if live_ok and self.p(0.7) else []) + [self.ch(self.dead)] + \
                     ([self.ch(live_ok)] if live_ok and self.p(0.3) else [])
            it.update(otype=ot, uids=us, tmpl=t)
            x = r.random()
            if x < 0.85:
                it["crypto"] = {"k": "ok", "t": hexof(self.ch([n, n, 32, 8]), rnd=r)}
            elif x < 0.93:
                it["crypto"] = {"k": "kmip", "reason": self.ch([7, 10])}
            else:
                it["crypto"] = {"k": "internal"}
            if self.p(0.06):
                # Derivation Parameters without Cryptographic Parameters (optional on the wire): refused by the engine
                # before the backend is asked; handed to the model as the backend's refusal (see impl_engine)
                it["cp"] = "absent"
                it["crypto"] = {"k": "kmip", "reason": 7}
            self.created += 1
        elif op == "locate":
            attrs = []
            for _ in range(self.ch([0, 0, 1, 1, 2, 3])):
                names = ["Name", "State", "Object Type", "Cryptographic Algorithm", "Cryptographic Length",
                         "Cryptographic Usage Mask", "Operation Policy Name", "Object Group",
                         "Application Specific Information", "Certificate Type", "Unique Identifier",
                         "Sensitive", "Initial Date", "Initial Date"]
                if not self.profile.get("locate_listed_only"):
                    names += ["Contact Information", "Activation Date"]
                nm = self.ch(names)
                attrs.append(self.tattr(nm))
            it.update(max=self.ch([None, None, 0, 1, 2, 5, -1, -2]), offset=self.ch([None, None, 0, 1, 2, 7, -1, -3]),
                      attrs=attrs)
            if self.profile.get("locate_extras") and self.p(self.profile["locate_extras"]):
                # optional fields of the Locate request the server does not act on: Storage Status Mask (on-line /
                # archival / destroyed storage) and Object Group Member
                if self.p(0.6):
                    it["ssm"] = self.ch([1, 2, 3, 4, 7, 0])
                if self.p(0.5):
                    it["ogm"] = self.ch([1, 2])
        elif op == "get":
            w = None
            if self.p(0.25):
                w = {"method": 1 if self.p(0.9) else 2, "enckey": self.uid(False) if self.p(0.85) else None,
                     "encparams": self.p(0.93), "mackey": self.p(0.2), "attrnames": 1 if self.p(0.07) else 0,
                     "encoding": self.ch([1, 1, 1, 1, 2, None])}
                x = r.random()
                it["crypto"] = {"k": "ok", "t": hexof(24, rnd=r)} if x < 0.9 else \
                    ({"k": "kmip", "reason": 7} if x < 0.95 else {"k": "internal"})
            it.update(uid=self.uid(), format=self.ch([None, None, None, 1, 3, 4]), compression=self.p(0.03), wrap=w)
        elif op == "getAttributes":
            names = []
            if self.p(0.5):
                names = [self.ch(list(ATTR_KIND) + ["bogus", "x-custom"]) for _ in range(self.ch([1, 2, 3]))]
                names = [n for i, n in enumerate(names) if n not in names[:i]]
            it.update(uid=self.uid(), names=names)
        elif op == "activate":
            it.update(uid=self.uid(want=lambda o: o["state"] == 1))
        elif op == "destroy":
            it.update(uid=self.uid(want=lambda o: o["state"] != 2))
        elif op == "getAttributeList":
            it.update(uid=self.uid())
        elif op == "revoke":
            it.update(uid=self.uid(want=lambda o: o["state"] == 2), code=self.ch([1, 2, 2, 3, 6, 5]))
            if self.profile.get("revoke_date") and self.p(self.profile["revoke_date"]):
                # the optional Compromise Occurrence Date (the server reads nothing from it): past, present, far future
                it["cdate"] = self.ch([0, 1000, self.now - 5, self.now, self.now + 10 ** 6, 2 ** 40, 2 ** 62])
        elif op == "query":
            it.update(functions=r.sample([1, 2, 3, 4, 5, 6], self.ch([0, 1, 2, 3])))
        elif op == "discoverVersions":
            it.update(versions=[self.ch([10, 11, 12, 13, 14, 20, 21, 30, 9]) for _ in range(self.ch([0, 0, 1, 2, 3]))])
        elif op in ("encrypt", "decrypt", "sign"):
            x = r.random()
            kind = 4 if op == "sign" else 2
            it.update(uid=self.uid(want=lambda o: o["otype"] == kind and o["state"] == 2), params=self.p(0.93))
            it["crypto"] = {"k": "ok", "t": hexof(16, rnd=r)} if x < 0.85 else \
                ({"k": "kmip", "reason": self.ch([7, 10])} if x < 0.93 else {"k": "internal"})
        elif op == "signatureVerify":
            x = r.random()
            it.update(uid=self.uid(want=lambda o: o["otype"] == 3 and o["state"] == 2), params=self.p(0.93))
            it["crypto"] = {"k": "verdict", "v": self.p(0.5)} if x < 0.85 else \
                ({"k": "kmip", "reason": 7} if x < 0.93 else {"k": "internal"})
        elif op == "mac":
            x = r.random()
            it.update(uid=self.uid(want=lambda o: o["state"] == 2), alg=self.ch([None, 8, 9]), data=self.p(0.93))
            it["crypto"] = {"k": "ok", "t": hexof(20, rnd=r)} if x < 0.85 else \
                ({"k": "kmip", "reason": 7} if x < 0.93 else {"k": "internal"})
        elif op == "setAttribute":
            nm = self.ch(["Sensitive", "Sensitive", "Operation Policy Name", "Cryptographic Length", "State",
                          "Name", "Object Group", "Contact Information", "Activation Date", "Cryptographic Usage Mask",
                          "Cryptographic Algorithm", "Initial Date", "Object Type", "Unique Identifier"])
            it.update(uid=self.uid(), attr=self.tattr(nm))
        elif op == "modifyAttribute":
            nm = self.ch(["Name", "Name", "Object Group", "Application Specific Information", "Sensitive",
                          "Sensitive", "Operation Policy Name", "State", "Cryptographic Usage Mask",
                          "Cryptographic Length", "Contact Information", "Activation Date", "Initial Date",
                          "Cryptographic Algorithm", "Object Type", "Unique Identifier"])
            a = self.tattr(nm)
            if self.p(0.6):
                a["index"] = self.ch([0, 0, 1, 2, 5, -1, -1, -2, -3])
            cur = self.tattr(nm) if self.p(0.75) else None
            if cur is not None and self.p(0.15):
                # a current attribute of another kind than the new one (2.0 form)
                cur = self.tattr(self.ch(["Name", "Object Group", "Application Specific Information", "Sensitive",
                                          "Contact Information", "State"]))
            it.update(uid=self.uid(), attr=a, current=cur, new=self.tattr(nm))
        elif op == "deleteAttribute":
            nm = self.ch(["Name", "Name", "Object Group", "Application Specific Information", "Sensitive", "State",
                          "Operation Policy Name", "Cryptographic Usage Mask", "Contact Information",
                          "Cryptographic Length", "Initial Date", "Object Type", "Unique Identifier"])
            cur = None
            if self.p(0.6):
                cur = self.tattr(self.ch(["Object Group", "Application Specific Information", "Object Group",
                                          "Sensitive", "State", "Contact Information", "Operation Policy Name"]))
            it.update(uid=self.uid(), name=nm if self.p(0.97) else None,
                      index=self.ch([None, 0, 0, 1, 2, 5, -1, -1, -2]), current=cur,
                      reference=nm if (cur is None and self.p(0.9)) else None)
        elif op == "unsupported":
            it.update(code=self.ch([4, 6, 9, 13, 16, 21, 25, 29, 36]))
        return it

    def pick_op(self):
        w = self.profile.get("ops")
        if w:
            ops, ws = zip(*w.items())
            return self.r.choices(ops, ws)[0]
        return self.r.choices(
            OPS_ALL + ["unsupported"],
            [10, 3, 8, 3, 6, 6, 5, 2, 6, 5, 4, 1, 1, 3, 3, 2, 2, 2, 3, 5, 5, 1])[0]

    def request(self, nitems=None, version=None, ops=None):
        r = self.r
        v = version if version is not None else self.version()
        if nitems is None:
            nitems = self.ch([1, 1, 1, 1, 2, 3, 4])
        items = []
        for i in range(nitems):
            it = self.item(op=None if ops is None else ops[i], version=v)
            if nitems > 1:
                it["bid"] = None if self.p(self.profile.get("missing_bid", 0.03)) else "b%d" % i
            else:
                it["bid"] = None if self.p(0.7) else "only"
            items.append(it)
        if nitems > 1 and self.p(self.profile.get("duplicate_bid", 0.05)):
            # the Unique Batch Item ID is an opaque correlation value: nothing obliges a client to make them distinct
            k = self.r.randrange(1, nitems)
            items[k]["bid"] = items[self.r.randrange(0, k)]["bid"]
        req = {"version": v if self.p(0.985) else self.ch([9, 21, 30]), "ts": None, "async": None, "bopt": None,
               "maxsize": None, "items": items}
        if self.profile.get("header_extras") and self.p(self.profile["header_extras"]):
            # optional header fields the server reads but must not act on: Batch Order Option, and an Authentication
            # that names another user than the certificate does
            if self.p(0.5):
                req["border"] = self.p(0.5)
            if self.p(0.6):
                req["cred"] = {"u": self.ch(USERS + ["admin", "root", ""]), "p": self.ch([None, "hunter2-" + hexof(8, rnd=self.r)])}
        if self.p(0.06):
            req["ts"] = self.now - self.ch([0, 1, 59, 0, 1, 5, 60, 61, -1, 1000])
        elif self.p(0.02):
            # any signed 64-bit Date-Time is a legal header Time Stamp (far beyond what time.gmtime renders)
            req["ts"] = self.ch([2 ** 60, -2 ** 60, 2 ** 63 - 1, -2 ** 63, 2 ** 56, 253402300800, -62135596801])
        if self.p(0.04):
            req["async"] = self.p(0.3)
        if nitems > 1 or self.p(0.1):
            req["bopt"] = self.ch([None, 1, 1, 2, 2, 3 if self.p(0.1) else 2])
        return req

    def line(self, **kw):
        if self.p(0.3):
            self.now += self.ch([0, 1, 1, 2, 10])
        req = self.request(**kw)
        return {"cmd": "req", "now": self.now, "id": self.ident(req), "req": req}


def random_policies(g):
    """A policy set: built-ins plus generated ones with missing entries."""
    r = g.r
    perms = ["ALLOW_ALL", "ALLOW_OWNER", "DISALLOW_ALL"]
    ops = [1, 2, 3, 5, 8, 10, 11, 12, 14, 15, 18, 19, 20, 49]

    def table(full):
        t = []
        for ot in [1, 2, 3, 4, 5, 7, 8]:
            if not full and g.p(0.15):
                continue
            row = []
            for op in ops:
                if not full and g.p(0.12):
                    continue
                row.append([op, r.choices(perms, [5, 4, 1])[0]])
            t.append([ot, row])
        return t
    pol = []
    pol.append(["custom", {"preset": table(False), "groups": [["g1", table(False)], ["g2", table(False)]]
                           if g.p(0.8) else None}])
    pol.append(["nogrp", {"preset": table(True) if g.p(0.8) else None,
                          "groups": [["g1", table(True)]] if g.p(0.3) else None}])
    if g.p(0.2):
        pol.append(["missing", {"preset": None, "groups": None}])
    return pol


INJECT = ["{0}", "{1}", "{2}", "{1.value}", "{0.value}", "{1!r}", "{}", "{managed_object}", "%s", "%(value)s", "%r %r"]


def dumps(x):
    return json.dumps(x, sort_keys=True, separators=(",", ":"))
