"""
End-to-end loopback: real ProxyKmipClient -> encoded request bytes -> server-side decode ->
real KmipEngine (real cryptography, SQLite file) -> encoded response bytes -> client decode.
No sockets: the client's protocol object is replaced by an in-process transport.
"""
import copy
import logging
import os
import shutil
import tempfile
import warnings

warnings.filterwarnings("ignore")

from kmip.core import enums, utils  # noqa: E402
from kmip.core import policy as core_policy  # noqa: E402
from kmip.core.messages import contents, messages  # noqa: E402
from kmip.pie.client import ProxyKmipClient  # noqa: E402
from kmip.services.server import engine as engine_mod  # noqa: E402

VERSIONS = {10: enums.KMIPVersion.KMIP_1_0, 11: enums.KMIPVersion.KMIP_1_1, 12: enums.KMIPVersion.KMIP_1_2,
            13: enums.KMIPVersion.KMIP_1_3, 14: enums.KMIPVersion.KMIP_1_4, 20: enums.KMIPVersion.KMIP_2_0}


class Transport(object):
    def __init__(self, server):
        self.server = server
        self.pending = None

    def write(self, data):
        self.pending = bytes(data)
        self.server.sent_requests.append(self.pending)

    def read(self):
        resp = self.server.handle(self.pending)
        self.server.sent_responses.append(resp)
        return utils.BytearrayStream(resp)


class Loopback(object):
    def __init__(self, user="alice"):
        logging.disable(logging.CRITICAL)
        self.dir = tempfile.mkdtemp(prefix="ve2e")
        self.db = os.path.join(self.dir, "db.sqlite")
        self.user = user
        self.sent_requests = []
        self.sent_responses = []
        self.engine = None
        self.open()

    def open(self):
        self.engine = engine_mod.KmipEngine(policies=copy.deepcopy(core_policy.policies), database_path=self.db)

    def restart(self):
        self.engine._data_store.dispose()
        self.open()

    def close(self):
        try:
            self.engine._data_store.dispose()
        except Exception:
            pass
        shutil.rmtree(self.dir, ignore_errors=True)

    def handle(self, data):
        """what KmipSession does between receive and send (without TLS/authentication)"""
        req = messages.RequestMessage()
        kv = contents.protocol_version_to_kmip_version(self.engine.default_protocol_version)
        req.read(utils.BytearrayStream(data), kmip_version=kv)
        resp, max_size, pv = self.engine.process_request(req, (self.user, None))
        out = utils.BytearrayStream()
        resp.write(out, kmip_version=contents.protocol_version_to_kmip_version(pv))
        return bytes(out.buffer)

    def client(self, version):
        c = ProxyKmipClient(kmip_version=VERSIONS[version])
        c._is_open = True
        c.proxy.protocol = Transport(self)
        return c
