#!/venv/bin/python
"""
vcheck — entry point of every property check.

    ./check Cxx --tier quick|thorough [--replay path]

One run: (1) regenerate the tables from /repo's working tree, (2) build the
Lean model + the property's theorems, (3) audit (no sorry / foreign axioms),
(4) property-specific correspondence + monitors (harness/props/cxx.py),
(5) failing-input search when (2) or (4) broke, (6) evidence, (7) verdict.

Exit codes: 0 property held on everything explored (KNOWN-FINDING lines allowed),
1 violation (a `VIOLATION property=<id> replay=<path>` line was printed),
2 harness error / timeout (never a verdict).
"""
import argparse
import fcntl
import hashlib
import importlib
import json
import os
import re
import subprocess
import sys
import time
import traceback

HERE = os.path.dirname(os.path.abspath(__file__))
VERIF = os.path.dirname(HERE)
LEAN = os.path.join(VERIF, "lean")
REPO = os.environ.get("VERIF_REPO", "/repo")
sys.path.insert(0, HERE)
# the implementation under check is REPO's working tree (also for child processes)
sys.path.insert(0, REPO)
os.environ["PYTHONPATH"] = REPO + os.pathsep + os.environ.get("PYTHONPATH", "")

ALLOWED_AXIOMS = {"propext", "Classical.choice", "Quot.sound"}
FORBIDDEN = re.compile(
    r"\b(sorry|admit|native_decide|bv_decide|implemented_by|unsafe)\b|^\s*axiom\s|maxHeartbeats\s+0\b",
    re.M)

os.environ.setdefault("PYKMIP_VERIF", "1")


def sh(cmd, cwd=None, timeout=None, env=None, input=None):
    p = subprocess.run(cmd, cwd=cwd, timeout=timeout, env=env, input=input,
                       stdout=subprocess.PIPE, stderr=subprocess.STDOUT, text=True)
    return p.returncode, p.stdout


class BuildLock:
    def __enter__(self):
        os.makedirs(os.path.join(LEAN, ".lake"), exist_ok=True)
        self.f = open(os.path.join(LEAN, ".lake", "verif.build.lock"), "w")
        fcntl.flock(self.f, fcntl.LOCK_EX)
        return self

    def __exit__(self, *a):
        fcntl.flock(self.f, fcntl.LOCK_UN)
        self.f.close()


def strip_comments(src):
    """Remove Lean block comments (nested) and line comments."""
    out = []
    i, n, depth = 0, len(src), 0
    while i < n:
        if src.startswith("/-", i):
            depth += 1
            i += 2
        elif depth and src.startswith("-/", i):
            depth -= 1
            i += 2
        elif depth:
            if src[i] == "\n":
                out.append("\n")
            i += 1
        elif src.startswith("--", i):
            while i < n and src[i] != "\n":
                i += 1
        else:
            out.append(src[i])
            i += 1
    return "".join(out)


def lean_sources():
    res = []
    for root, _, files in os.walk(os.path.join(LEAN, "KmipModel")):
        for f in files:
            if f.endswith(".lean"):
                res.append(os.path.join(root, f))
    for root, _, files in os.walk(os.path.join(LEAN, "Drivers")):
        for f in files:
            if f.endswith(".lean"):
                res.append(os.path.join(root, f))
    return sorted(res)


def theorems_of(path):
    """Names (with namespace) of theorems declared in a Props file."""
    src = strip_comments(open(path).read())
    names = []
    ns = []
    for line in src.splitlines():
        m = re.match(r"\s*namespace\s+(\S+)", line)
        if m:
            ns.append(m.group(1))
            continue
        m = re.match(r"\s*end\s+(\S+)", line)
        if m and ns and ns[-1] == m.group(1):
            ns.pop()
            continue
        m = re.match(r"\s*(?:@\[[^\]]*\]\s*)?(?:private\s+|protected\s+)?theorem\s+([^\s:({\[]+)", line)
        if m:
            names.append(".".join(ns + [m.group(1)]))
    return names


class Ctx:
    """Everything a property module needs."""

    def __init__(self, pid, tier, seed, replay):
        self.pid = pid
        self.tier = tier
        self.seed = seed
        self.replay = replay
        self.t0 = time.time()
        self.violations = []      # (what, replay_path, no_input_found)
        self.known = []           # strings
        self.notes = []
        self.coverage = {}
        self.assumptions = []
        self.obligations = 0
        self.discharged = 0
        self.axioms = {}
        self.checker_cmds = []
        self.broken_theorems = []
        self.build_log = ""
        self.findings = load_known_findings()

    # -- paths ------------------------------------------------------------
    def replay_path(self, tag):
        os.makedirs(os.path.join(VERIF, "replays"), exist_ok=True)
        h = hashlib.sha1(tag.encode()).hexdigest()[:10]
        return os.path.join("replays", "%s-%s.json" % (self.pid, h))

    # -- verdicts ---------------------------------------------------------
    def known_match(self, signature):
        """Return the known-finding entry whose signature equals `signature`."""
        for e in self.findings:
            if e.get("property") == self.pid and e.get("status") == "finding" \
                    and e.get("signature") == signature:
                return e
        return None

    def report(self, signature, what, replay_obj, no_input=False):
        """A monitor failed.  Known finding → KNOWN-FINDING line; else violation."""
        e = None if no_input else self.known_match(signature)
        if e is not None:
            line = "KNOWN-FINDING: property=%s %s [%s]" % (self.pid, e.get("what", what), signature)
            if line not in self.known:
                self.known.append(line)
            return False
        for v in self.violations:
            if v["signature"] == signature:
                v["count"] += 1
                return True
        path = self.replay_path(signature)
        with open(os.path.join(VERIF, path), "w") as f:
            json.dump({"property": self.pid, "signature": signature, "what": what,
                       "seed": self.seed, "tier": self.tier,
                       "no_failing_input_found": no_input,
                       "replay": replay_obj}, f, indent=1, default=str)
        self.violations.append({"signature": signature, "what": what, "path": path,
                                "no_input": no_input, "count": 1})
        return True

    # -- Lean -------------------------------------------------------------
    def lake_build(self, targets):
        with BuildLock():
            cmd = ["lake", "build"] + targets
            self.checker_cmds.append("cd lean && " + " ".join(cmd))
            rc, out = sh(cmd, cwd=LEAN, timeout=3000)
        self.build_log += out
        return rc, out

    def run_model(self, driver, lines, timeout=1200):
        """Run a driver (Drivers/<driver>.lean) on the given input lines; return output lines."""
        data = "\n".join(lines) + "\n"
        cmd = ["lake", "env", "lean", "--run", os.path.join("Drivers", driver + ".lean")]
        for attempt in range(3):
            p = subprocess.run(cmd, cwd=LEAN, input=data, text=True, timeout=timeout,
                               stdout=subprocess.PIPE, stderr=subprocess.PIPE)
            # a driver process that dies without saying anything was killed from outside (memory pressure, an
            # .olean being replaced by a concurrent build): the run is deterministic, so it is simply repeated
            if p.returncode == 0 or p.stderr.strip() or attempt == 2:
                break
            time.sleep(3 + 5 * attempt)
        if p.returncode != 0:
            raise RuntimeError("model driver %s failed (rc=%s): %s\n%s"
                               % (driver, p.returncode, p.stderr[-2000:], p.stdout[-2000:]))
        out = p.stdout.split("\n")
        if out and out[-1] == "":
            out.pop()
        if len(out) != len(lines):
            raise RuntimeError("model driver %s: %d lines in, %d out; stderr=%s"
                               % (driver, len(lines), len(out), p.stderr[-2000:]))
        return out

    def lean_eval(self, imports, body, timeout=600):
        """Run a scratch Lean file (for #eval searches / #print axioms); returns (rc, output)."""
        d = os.path.join(LEAN, ".lake", "scratch")
        os.makedirs(d, exist_ok=True)
        path = os.path.join(d, "s_%s_%d.lean" % (self.pid, os.getpid()))
        with open(path, "w") as f:
            f.write("".join("import %s\n" % i for i in imports) + body)
        try:
            return sh(["lake", "env", "lean", path], cwd=LEAN, timeout=timeout)
        finally:
            try:
                os.remove(path)
            except OSError:
                pass


def load_known_findings():
    p = os.path.join(VERIF, "known_findings.json")
    if not os.path.exists(p):
        return []
    return json.load(open(p)).get("entries", [])


def regenerate_tables(ctx):
    import gen_tables
    import gen_schemas
    with BuildLock():
        changed = gen_tables.write_all(REPO, os.path.join(LEAN, "KmipModel", "Gen"))
        # the translator of the structure codec: read()/write() of every Struct class -> Gen/SchemasGen.lean
        changed = gen_schemas.write_all(REPO, os.path.join(LEAN, "KmipModel", "Gen")) or changed
        # key sizes / asymmetric algorithms / wrapping enums of the cryptography engine -> Gen/CryptoTables.lean
        import gen_crypto_tables
        changed = gen_crypto_tables.write_all(REPO, os.path.join(LEAN, "KmipModel", "Gen")) or changed
    return changed


def audit(ctx, props_modules, extra_theorem_files=()):
    """Source grep + #print axioms on every property theorem."""
    problems = []
    for path in lean_sources():
        src = strip_comments(open(path).read())
        m = FORBIDDEN.search(src)
        if m:
            problems.append("%s: forbidden construct %r" % (os.path.relpath(path, LEAN), m.group(0).strip()))
    thms = []
    for mod in props_modules:
        path = os.path.join(LEAN, mod.replace(".", "/") + ".lean")
        thms += theorems_of(path)
    ctx.obligations = len(thms)
    if not thms:
        problems.append("no theorems found in %s" % props_modules)
        return problems
    body = "\n".join("#print axioms %s" % t for t in thms) + "\n"
    ctx.checker_cmds.append("cd lean && lake env lean <audit: #print axioms of %d theorems in %s>"
                            % (len(thms), ",".join(props_modules)))
    rc, out = ctx.lean_eval(props_modules, body)
    # parse:  'T' depends on axioms: [a, b]   |   'T' does not depend on any axioms
    seen = {}
    for m in re.finditer(r"'(\S+)' depends on axioms: \[([^\]]*)\]", out, re.S):
        seen[m.group(1)] = [a.strip() for a in m.group(2).replace("\n", " ").split(",") if a.strip()]
    for m in re.finditer(r"'(\S+)' does not depend on any axioms", out):
        seen[m.group(1)] = []
    ok = 0
    for t in thms:
        key = t
        if key not in seen:
            # lean prints names as declared (full name)
            cands = [k for k in seen if k.endswith("." + t) or k == t]
            key = cands[0] if cands else None
        if key is None:
            problems.append("audit: theorem %s not reported (rc=%s): %s" % (t, rc, out[-400:]))
            continue
        bad = [a for a in seen[key] if a not in ALLOWED_AXIOMS]
        ctx.axioms[t] = seen[key]
        if bad:
            problems.append("audit: theorem %s depends on axioms %s" % (t, bad))
        else:
            ok += 1
    ctx.discharged = ok
    return problems


def broken_theorems_from_log(log):
    """Names of declarations lake reported errors in (best effort)."""
    names = []
    for m in re.finditer(r"error: ([^\s:]+\.lean):(\d+):(\d+)", log):
        path, line = m.group(1), int(m.group(2))
        full = path if os.path.isabs(path) else os.path.join(LEAN, path)
        try:
            src = open(full).read().splitlines()
        except OSError:
            continue
        for i in range(min(line, len(src)) - 1, -1, -1):
            mm = re.match(r"\s*(?:@\[[^\]]*\]\s*)?(?:private\s+|protected\s+)?(theorem|def|example|lemma|instance|abbrev)\s*([^\s:({\[]*)", src[i])
            if mm:
                names.append("%s:%s %s" % (os.path.relpath(full, LEAN), mm.group(1), mm.group(2) or "<anonymous>"))
                break
    return sorted(set(names))


def write_evidence(ctx, mod):
    cov = dict(ctx.coverage)
    cov.setdefault("obligations", ctx.obligations)
    cov.setdefault("discharged", ctx.discharged)
    cov.setdefault("checker_cmd", " ; ".join(ctx.checker_cmds) or "none")
    tb = [
        "Lean 4 kernel (lean %s)" % LEAN_VERSION,
        "axioms used by the property theorems on this run: %s"
        % sorted({a for v in ctx.axioms.values() for a in v}),
        "translator harness/gen_tables.py (tables regenerated from /repo on this run)",
        "hand-written Lean model tied to /repo only by the correspondence run reported here",
        "harness generators / observation functions / monitors (harness/props/%s.py)" % ctx.pid.lower(),
    ] + list(getattr(mod, "TRUSTED", []))
    cov.setdefault("trusted_base", tb)
    cov.setdefault("evaluations", 0)
    cov.setdefault("distinct_nontrivial", 0)
    cov.setdefault("rule", getattr(mod, "RULE", ""))
    cov.setdefault("samples", [])
    cov["theorems"] = ctx.axioms
    cov["known_findings_reported"] = ctx.known
    cov["notes"] = ctx.notes
    ev = {
        "property_id": ctx.pid,
        "tier": ctx.tier,
        "seed": ctx.seed,
        "level": "proof",
        "coverage": cov,
        "assumptions": list(getattr(mod, "ASSUMPTIONS", [])) + ctx.assumptions,
        "wall_s": round(time.time() - ctx.t0, 2),
        "violations": len(ctx.violations),
    }
    os.makedirs(os.path.join(VERIF, "evidence"), exist_ok=True)
    tmp = os.path.join(VERIF, "evidence", ".%s.json.%d" % (ctx.pid, os.getpid()))
    with open(tmp, "w") as f:
        json.dump(ev, f, indent=1, default=str)
    os.replace(tmp, os.path.join(VERIF, "evidence", "%s.json" % ctx.pid))


LEAN_VERSION = "4.33.0"


def main():
    ap = argparse.ArgumentParser()
    ap.add_argument("pid")
    ap.add_argument("--tier", default=os.environ.get("VERIF_TIER", "quick"))
    ap.add_argument("--replay", default=None)
    ap.add_argument("--no-build", action="store_true", help="debug: skip lake build/audit")
    a = ap.parse_args()
    pid = a.pid.upper()
    tier = a.tier if a.tier in ("quick", "thorough") else "quick"
    try:
        seed = int(os.environ.get("VERIF_SEED", "0") or 0)
    except ValueError:
        seed = 0
    ctx = Ctx(pid, tier, seed, a.replay)
    if not os.path.exists(os.path.join(HERE, "props", pid.lower() + ".py")):
        print("no check for %s" % pid)
        return 2
    try:
        # 1. tables - BEFORE the property module is imported: the generators import /repo's kmip package afresh
        # (purging sys.modules); a property module imported earlier would keep the purged module objects while
        # everything imported later gets new ones (two copies of kmip.core.enums in one process)
        regenerate_tables(ctx)
    except Exception:
        traceback.print_exc()
        print("HARNESS-ERROR (exit 2): the check itself failed; no verdict")
        return 2
    try:
        mod = importlib.import_module("props." + pid.lower())
    except ImportError:
        traceback.print_exc()
        print("no check for %s" % pid)
        return 2

    try:
        # 2. build
        props_modules = list(getattr(mod, "LEAN_MODULES", ["KmipModel.Props." + pid]))
        build_ok = True
        if not a.no_build:
            # KmipModel.Engine.Wire: the JSON line protocol the engine drivers import
            rc, out = ctx.lake_build(props_modules + ["KmipModel.Engine.Wire"])
            if rc != 0:
                build_ok = False
                ctx.broken_theorems = broken_theorems_from_log(out) or ["<build failed>"]
                ctx.notes.append("lake build failed: " + out[-3000:])
            # 3. audit
            if build_ok:
                problems = audit(ctx, props_modules)
                if problems:
                    # audit failure = the proof is not a proof: harness-level error
                    for p in problems:
                        print("AUDIT: " + p)
                    ctx.notes += problems
                    build_ok = False
                    ctx.broken_theorems += ["audit: " + p for p in problems]
        # 4. property-specific work (replay mode: only the replay)
        if a.replay:
            ok = mod.replay(ctx, json.load(open(a.replay)))
            print("replay: %s" % ("property holds on this input" if ok else "property FAILS on this input"))
            return 0 if ok else 1
        if build_ok:
            mod.run(ctx)
        else:
            # 5. a proof obligation broke: look for a concrete failing input
            print("proof obligations broken: %s" % ctx.broken_theorems)
            mod.search(ctx, ctx.broken_theorems)
            if not ctx.violations:
                ctx.report("proof-broken:" + ";".join(ctx.broken_theorems)[:200],
                           "theorems no longer check: %s" % ctx.broken_theorems,
                           {"broken": ctx.broken_theorems, "build_log_tail": ctx.build_log[-4000:]},
                           no_input=True)
        if tier == "thorough" and build_ok and not a.no_build and getattr(mod, "LEANCHECKER", True):
            with BuildLock():
                ctx.checker_cmds.append("cd lean && lake env leanchecker " + " ".join(props_modules))
                rc, out = sh(["lake", "env", "leanchecker"] + props_modules, cwd=LEAN, timeout=3000)
            if rc != 0:
                ctx.report("leanchecker", "leanchecker rejected the compiled theorems",
                           {"out": out[-3000:]}, no_input=True)
            else:
                ctx.notes.append("leanchecker accepted " + " ".join(props_modules))
        write_evidence(ctx, mod)
    except subprocess.TimeoutExpired as e:
        print("TIMEOUT: %s" % e)
        return 2
    except Exception:
        traceback.print_exc()
        print("HARNESS-ERROR (exit 2): the check itself failed; no verdict")
        return 2

    for line in ctx.known:
        print(line)
    for v in ctx.violations:
        print("VIOLATION property=%s replay=%s%s" % (
            ctx.pid, v["path"], " no-failing-input-found" if v["no_input"] else ""))
        print("  detail: %s (x%d)" % (v["what"][:500].replace("\n", " "), v["count"]))
    print("%s tier=%s seed=%d obligations=%d discharged=%d evaluations=%s violations=%d known=%d wall=%.1fs" % (
        ctx.pid, tier, seed, ctx.obligations, ctx.discharged, ctx.coverage.get("evaluations"),
        len(ctx.violations), len(ctx.known), time.time() - ctx.t0))
    return 1 if ctx.violations else 0


if __name__ == "__main__":
    sys.exit(main())
