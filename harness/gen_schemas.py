"""
Translator for the structure codec: re-derives, on every run, one field list from the `read()` method and one from
the `write()` method of every Struct class under kmip/core/ of the given repo root, and writes them as Lean
definitions to lean/KmipModel/Gen/SchemasGen.lean (plus lean/KmipModel/Gen/schemas_report.json).

    /venv/bin/python harness/gen_schemas.py <repo-root>        (default /repo; honours VERIF_REPO)

What is read from where
  * STRUCTURE (order of the children, mandatory / optional / repeated, version ranges, which attribute a child is
    stored in / taken from): the `ast` of read() and of write(), each interpreted on its own by a small abstract
    interpreter that knows the handful of statement forms the codec uses (Reader / Writer below).  Anything else
    that touches the stream makes the CLASS unrecognised: it is left out of the tables and named, with the reason
    and the source line, in `genUnrecognised` / schemas_report.json.  Nothing is guessed.
  * TAG and ITEM TYPE of a child: the constructor expression found in the source (`primitives.TextString(tag=
    enums.Tags.X)`, `attributes.UniqueIdentifier()`, `objects.TemplateAttribute(tag=...)`) is evaluated against the
    LIVE classes imported from the same repo root and the instance is asked for `.tag` / `.type`.
    For write() the object written is an attribute the caller filled; its tag / type come, in this order, from
    a constructor in the method itself, a constructor in a setter / __init__ of the class ("setter"), the
    attribute of a default instance ("default"), an isinstance check (type only, "isinstance"), and finally from
    the field read() stores in the same attribute under the same versions ("read-slot").  The provenance of every
    write field is in the report.
  * Approximations (class listed in `genApprox` with the reason, always in the LENIENT direction: the Lean reader
    accepts a superset of what the code accepts): "at least one" of a repeated field, value-dependent rejections
    (`if a == b: raise`), a child whose class is chosen by a value read earlier and whose type therefore is `any`.

Harmless rewrites.  Before interpretation each method is NORMALISED (class Normaliser): helper functions of the same
module, helper methods of the same class (or inherited from a kmip module) that touch the stream are inlined at
their call sites (statement calls, `x = helper(...)`, one-expression helpers in conditions such as `_is_2_0(v)`;
positional / keyword / default parameters substituted, locals renamed, `return` turned into assignment; depth <= 3,
no recursion), and equivalent guard forms are brought to the canonical ones (`if v: raise else: A`, version tests with
swapped operands or under `not`, `if X is None: ... else: write`, `if not self.is_tag_next(T, s): raise` + read,
`for a in self._xs or []`, a loop over a list literal of fields, a local list built from an attribute by a
comprehension / append loop / extend and then written in a loop).  Tags may be given through module constants or
class attributes.  A helper that cannot be inlined makes the class unrecognised with the helper and the reason named.
The generated Lean file carries NO source line numbers (a pure line shift leaves it byte-identical, no rebuild); the
lines of every field, approximation and unrecognised construct are in schemas_report.json.
notes/selftest_schema_translator.py holds the rewrites that must stay quiet and the changes that must be caught.

The translator interprets; it does not execute read()/write().  It is deterministic and imports nothing from
/verif/harness/lib.
"""
import ast
import copy
import importlib
import json
import os
import re
import sys

VERS = [10, 11, 12, 13, 14, 20]
VERSION_NAMES = {"KMIP_1_0": 10, "KMIP_1_1": 11, "KMIP_1_2": 12, "KMIP_1_3": 13, "KMIP_1_4": 14, "KMIP_2_0": 20}
SKIP_FILES = ("kmip/core/primitives.py", "kmip/core/utils.py")


class Unrecognised(Exception):
    def __init__(self, reason, node=None):
        Exception.__init__(self, reason)
        self.reason = reason
        self.line = getattr(node, "lineno", None)


def fresh_import(repo):
    """Import kmip from `repo` (the working tree) freshly."""
    for k in [k for k in sys.modules if k == "kmip" or k.startswith("kmip.")]:
        del sys.modules[k]
    if repo not in sys.path:
        sys.path.insert(0, repo)
    import warnings
    import logging
    warnings.filterwarnings("ignore")
    logging.disable(logging.CRITICAL)
    import kmip  # noqa
    root = os.path.dirname(os.path.dirname(os.path.abspath(kmip.__file__)))
    if os.path.realpath(root) != os.path.realpath(repo):
        raise RuntimeError("kmip imported from %s, expected %s" % (root, repo))
    return kmip


# ---------------------------------------------------------------------------------------------------------
# small ast helpers
# ---------------------------------------------------------------------------------------------------------

def src(node):
    return ast.unparse(node)


def strip_doc(body):
    if body and isinstance(body[0], ast.Expr) and isinstance(body[0].value, ast.Constant) \
            and isinstance(body[0].value.value, str):
        return body[1:]
    return body


def call_of(st):
    """the Call of an expression statement, or None"""
    if isinstance(st, ast.Expr) and isinstance(st.value, ast.Call):
        return st.value
    return None


def method_call(call, attr):
    """call is `<recv>.<attr>(...)`: return recv, else None"""
    if isinstance(call, ast.Call) and isinstance(call.func, ast.Attribute) and call.func.attr == attr:
        return call.func.value
    return None


def is_self(node):
    return isinstance(node, ast.Name) and node.id == "self"


def self_attr(node):
    """`self.x` -> 'x'"""
    if isinstance(node, ast.Attribute) and is_self(node.value):
        return node.attr
    return None


def names_in(node):
    return {n.id for n in ast.walk(node) if isinstance(n, ast.Name)}


def self_attrs_in(node):
    return [n.attr for n in ast.walk(node) if isinstance(n, ast.Attribute) and is_self(n.value)]


def norm_slot(s):
    return s.lstrip("_") if s else s


NEGATED = {ast.Lt: ast.GtE, ast.GtE: ast.Lt, ast.Gt: ast.LtE, ast.LtE: ast.Gt, ast.Eq: ast.NotEq, ast.NotEq: ast.Eq}
MIRRORED = {ast.Lt: ast.Gt, ast.Gt: ast.Lt, ast.LtE: ast.GtE, ast.GtE: ast.LtE, ast.Eq: ast.Eq, ast.NotEq: ast.NotEq}


def _version_constant(node):
    if isinstance(node, ast.Attribute) and node.attr in VERSION_NAMES and src(node).endswith("KMIPVersion." + node.attr):
        return VERSION_NAMES[node.attr]
    return None


def version_test(test):
    """`kmip_version <op> enums.KMIPVersion.KMIP_x_y` -> (op class, version number); also with the operands swapped
    (`KMIP_2_0 <= kmip_version`) and under `not (...)`"""
    if isinstance(test, ast.UnaryOp) and isinstance(test.op, ast.Not):
        inner = version_test(test.operand)
        return (NEGATED[inner[0]], inner[1]) if inner else None
    if isinstance(test, ast.Compare) and len(test.ops) == 1 and type(test.ops[0]) in NEGATED:
        a, b, op = test.left, test.comparators[0], type(test.ops[0])
        if isinstance(a, ast.Name) and a.id == "kmip_version" and _version_constant(b) is not None:
            return op, _version_constant(b)
        if isinstance(b, ast.Name) and b.id == "kmip_version" and _version_constant(a) is not None:
            return MIRRORED[op], _version_constant(a)
    return None


def mentions_version(node):
    return "kmip_version" in names_in(node)


def split_range(ver, op, v):
    """(range where the test holds, range where it does not) inside ver = (lo, hi); None = empty"""
    lo, hi = ver
    inside = [x for x in VERS if lo <= x <= hi]
    if op is ast.Lt:
        t = [x for x in inside if x < v]
    elif op is ast.LtE:
        t = [x for x in inside if x <= v]
    elif op is ast.Gt:
        t = [x for x in inside if x > v]
    elif op is ast.GtE:
        t = [x for x in inside if x >= v]
    elif op is ast.Eq:
        t = [x for x in inside if x == v]
    elif op is ast.NotEq:
        t = [x for x in inside if x != v]
    else:
        raise Unrecognised("version comparison with operator %s" % op.__name__)
    f = [x for x in inside if x not in t]

    def rng(xs):
        if not xs:
            return None
        idx = [VERS.index(x) for x in xs]
        if idx != list(range(idx[0], idx[0] + len(idx))):
            raise Unrecognised("version condition selects a non-contiguous set of versions")
        return (xs[0], xs[-1])
    return rng(t), rng(f)


ALLOWED_STATEMENTS = (ast.Expr, ast.Assign, ast.AugAssign, ast.If, ast.While, ast.For, ast.Raise, ast.Try, ast.Pass,
                      ast.ExceptHandler)


def check_statement_kinds(fn):
    """control flow the interpreter does not model (return / break / continue / with / nested definitions ...)
    anywhere in the method makes the class unrecognised"""
    for n in ast.walk(fn):
        if n is fn:
            continue
        if isinstance(n, (ast.stmt, ast.ExceptHandler)) and not isinstance(n, ALLOWED_STATEMENTS):
            raise Unrecognised("%s statement in %s()" % (type(n).__name__.lower(), fn.name), n)
        if isinstance(n, (ast.Lambda, ast.Yield, ast.YieldFrom, ast.Await, ast.NamedExpr)):
            raise Unrecognised("%s expression in %s()" % (type(n).__name__.lower(), fn.name), n)


def emptiness_test(test):
    """('empty' | 'nonempty', source of X) for `len(X) == 0`, `not X`, `X`, `len(X) > 0`, `len(X) != 0`; else None"""
    def length_of(node):
        if isinstance(node, ast.Call) and isinstance(node.func, ast.Name) and node.func.id == "len" and len(node.args) == 1:
            return node.args[0]
        return None
    if isinstance(test, ast.UnaryOp) and isinstance(test.op, ast.Not) and isinstance(test.operand, (ast.Name, ast.Attribute)):
        return "empty", src(test.operand)
    if isinstance(test, (ast.Name, ast.Attribute)):
        return "nonempty", src(test)
    if isinstance(test, ast.Compare) and len(test.ops) == 1 and length_of(test.left) is not None \
            and isinstance(test.comparators[0], ast.Constant):
        x, k, op = src(length_of(test.left)), test.comparators[0].value, type(test.ops[0])
        if (op is ast.Eq and k == 0) or (op is ast.Lt and k == 1) or (op is ast.LtE and k == 0):
            return "empty", x
        if (op is ast.Gt and k == 0) or (op is ast.NotEq and k == 0) or (op is ast.GtE and k == 1):
            return "nonempty", x
    return None


def requires_nonempty(st):
    """the if-statement raises exactly when X is empty: returns the source of X, else None"""
    e = emptiness_test(st.test)
    if e is None:
        return None
    if e[0] == "empty" and only_raise(st.body) and not contains_raise(st.orelse):
        return e[1]
    if e[0] == "nonempty" and only_raise(st.orelse) and not contains_raise(st.body):
        return e[1]
    return None


def only_raise(stmts):
    """the statement list raises unconditionally: straight-line assignments / expression statements that do not
    touch a stream (building the message), then `raise`"""
    if not stmts or not isinstance(stmts[-1], ast.Raise):
        return False
    for s in stmts[:-1]:
        if not isinstance(s, (ast.Assign, ast.Expr)):
            return False
        for n in ast.walk(s):
            if isinstance(n, ast.Call) and isinstance(n.func, ast.Attribute) and n.func.attr in (
                    "read", "write", "is_tag_next", "is_type_next", "peek", "is_oversized"):
                return False
            if isinstance(n, ast.Attribute) and is_self(n.value) and isinstance(n.ctx, ast.Store):
                return False
    return True


def contains_raise(stmts):
    return any(isinstance(n, ast.Raise) for s in stmts for n in ast.walk(s))


KIND_OF_TYPE = {1: "struct", 2: "prim 2", 3: "prim 3", 4: "prim 4", 5: "prim 5", 6: "prim 6", 7: "prim 7",
                8: "prim 8", 9: "prim 9", 10: "prim 10"}
TYPE_NAME_KIND = {"STRUCTURE": "struct", "INTEGER": "prim 2", "LONG_INTEGER": "prim 3", "BIG_INTEGER": "prim 4",
                  "ENUMERATION": "prim 5", "BOOLEAN": "prim 6", "TEXT_STRING": "prim 7", "BYTE_STRING": "prim 8",
                  "DATE_TIME": "prim 9", "INTERVAL": "prim 10"}


def kind_of_set(kinds):
    """(Kind, exact?) for the set of item types a field accepts"""
    ks = sorted(set(kinds))
    if len(ks) == 1:
        return ks[0], True
    if ks == ["prim 5", "struct"]:
        return "enumOrStruct", True
    return "any", False


class Field(object):
    def __init__(self, tag, kind, card, ver, line, slot=None, min1=False, prov=None):
        self.tag = tag
        self.kind = kind
        self.card = card
        self.vmin, self.vmax = ver
        self.line = line
        self.slot = slot
        self.min1 = min1
        self.prov = prov
        self.listvars = set()

    def key(self):
        return (self.tag, self.kind, self.card, self.vmin, self.vmax)

    def as_json(self, tagnames):
        d = {"tag": "0x%06X" % self.tag if self.tag is not None else None, "tag_name": tagnames.get(self.tag),
             "kind": self.kind, "card": self.card, "vmin": self.vmin, "vmax": self.vmax, "line": self.line,
             "slot": self.slot, "at_least_one": self.min1}
        if self.prov:
            d["tag_kind_from"] = self.prov
        return d


# ---------------------------------------------------------------------------------------------------------
# live-class oracle: tag and item type of what a constructor expression builds
# ---------------------------------------------------------------------------------------------------------

class Oracle(object):
    def __init__(self, module, live_cls, primitives, enums):
        self.ns = dict(vars(module))
        self.ns.setdefault(live_cls.__name__, live_cls)
        self.cls = live_cls
        self.primitives = primitives
        self.enums = enums
        self._default = None

    def ev(self, node):
        return eval(compile(ast.Expression(body=node), "<gen_schemas>", "eval"), dict(self.ns))

    def ev_class_constant(self, node):
        """`self.NAME` where NAME is an attribute of the CLASS (not of the instance) holding a Tags / Types member"""
        a = self_attr(node)
        if a is not None and a in {k for c in self.cls.__mro__ for k in vars(c)}:
            v = getattr(self.cls, a)
            if isinstance(v, (self.enums.Tags, self.enums.Types)):
                return v
        raise KeyError(src(node))

    def tag_value(self, node):
        try:
            t = self.ev(node)
        except Exception:
            try:
                t = self.ev_class_constant(node)
            except Exception:
                raise Unrecognised("the tag tested / used (%s) is computed at run time" % src(node), node)
        if not isinstance(t, self.enums.Tags):
            raise Unrecognised("%s is not a member of enums.Tags" % src(node), node)
        return t.value

    def describe(self, obj):
        if isinstance(obj, self.primitives.Base) and isinstance(obj.tag, self.enums.Tags) \
                and isinstance(obj.type, self.enums.Types) and obj.type.value in KIND_OF_TYPE:
            return obj.tag.value, KIND_OF_TYPE[obj.type.value]
        return None

    def ctor(self, call):
        """(tag, kind) of the object a constructor call builds, or None when `call` is not a constructor of an
        encodable class / cannot be evaluated without the method's local state"""
        if not isinstance(call, ast.Call):
            return None
        try:
            c = self.ev(call.func)
        except Exception:
            return None
        if not (isinstance(c, type) and issubclass(c, self.primitives.Base)):
            return None
        args, kwargs = [], {}
        for a in call.args:
            try:
                args.append(self.ev(a))
            except Exception:
                args.append(None)
        for kw in call.keywords:
            if kw.arg is None:
                return None
            try:
                kwargs[kw.arg] = self.ev(kw.value)
            except Exception:
                if kw.arg == "tag":
                    try:
                        kwargs[kw.arg] = self.ev_class_constant(kw.value)
                        continue
                    except Exception:
                        return None      # the tag itself is computed at run time
                kwargs[kw.arg] = None
        for attempt in ((args, kwargs), (args, {k: v for k, v in kwargs.items() if k in ("tag", "enum")}),
                        ([], {k: v for k, v in kwargs.items() if k in ("tag", "enum")})):
            try:
                o = c(*attempt[0], **attempt[1])
            except Exception:
                continue
            d = self.describe(o)
            if d:
                return d
        return None

    def default_instance(self):
        if self._default is None:
            try:
                self._default = self.cls()
            except Exception:
                self._default = False
        return self._default or None

    def default_attr(self, attr):
        o = self.default_instance()
        if o is None:
            return None
        try:
            v = getattr(o, attr)
        except Exception:
            return None
        return self.describe(v)

    def factory(self, call):
        """`self.<x>_factory.create(<value>)`: the set of (tag, kind) the factory of a default instance can return,
        found by calling it with every member of the one enumeration it dispatches on"""
        recv = method_call(call, "create")
        a = self_attr(recv) if recv is not None else None
        if a is None or not a.endswith("factory"):
            return None
        o = self.default_instance()
        fac = getattr(o, a, None) if o is not None else None
        if fac is None:
            return None
        import enum as _enum
        domains = {}
        for name in sorted(vars(self.enums)):
            E = getattr(self.enums, name)
            if not (isinstance(E, type) and issubclass(E, _enum.Enum)) or name in ("Tags", "Types"):
                continue
            res = set()
            for m in E:
                try:
                    r = fac.create(m)
                except Exception:
                    continue
                d = self.describe(r)
                if d:
                    res.add(d)
            if res:
                domains[name] = res
        if len(domains) != 1:
            return None
        return sorted(list(domains.values())[0])


# ---------------------------------------------------------------------------------------------------------
# normalisation: behaviour-preserving rewrites of read()/write() into the forms the interpreters know
# ---------------------------------------------------------------------------------------------------------

STREAM_OPS = ("read", "write", "is_tag_next", "is_type_next", "peek", "is_oversized")
NOT_INLINED = ("read", "write", "validate", "is_tag_next", "is_type_next", "is_oversized", "__init__", "length")
MAX_INLINE_DEPTH = 3


class NotInlinable(Exception):
    pass


def _stream_ops_in(node):
    return any(isinstance(n, ast.Call) and isinstance(n.func, ast.Attribute) and n.func.attr in STREAM_OPS
               for n in ast.walk(node))


def _ends_with_return(stmts):
    return bool(stmts) and isinstance(stmts[-1], ast.Return)


def _has_return(stmts):
    return any(isinstance(n, ast.Return) for s in stmts for n in ast.walk(s))


def eliminate_returns(stmts, target):
    """rewrite a statement list in which `return` only occurs as the last statement of a branch of (nested) if-
    statements into one without `return`: `if c: A; return x` followed by B becomes `if c: A; target = x else: B`.
    target = None: the returned value is dropped."""
    out = []
    for i, st in enumerate(stmts):
        if isinstance(st, ast.Return):
            if target is not None:
                out.append(ast.Assign(targets=[copy.deepcopy(target)], value=st.value or ast.Constant(value=None)))
            elif st.value is not None and not isinstance(st.value, (ast.Constant, ast.Name)):
                out.append(ast.Expr(value=st.value))
            return out, True
        if isinstance(st, ast.If) and (_has_return(st.body) or _has_return(st.orelse)):
            rest = stmts[i + 1:]
            body, b_ret = eliminate_returns(st.body + ([] if _ends_with_return(st.body) else rest), target)
            orelse, o_ret = eliminate_returns(st.orelse + ([] if _ends_with_return(st.orelse) else rest), target)
            if rest and not (_ends_with_return(st.body) or _ends_with_return(st.orelse)):
                raise NotInlinable("`return` nested below an if-statement that is followed by more statements")
            out.append(ast.If(test=st.test, body=body or [ast.Pass()], orelse=orelse))
            return out, b_ret and o_ret
        if _has_return([st]):
            raise NotInlinable("`return` inside a %s statement" % type(st).__name__.lower())
        out.append(st)
    if out and isinstance(out[-1], ast.Raise):
        return out, True                 # control never falls off the end
    if target is not None:
        out.append(ast.Assign(targets=[copy.deepcopy(target)], value=ast.Constant(value=None)))
    return out, False


class Normaliser(object):
    """AST -> AST.  (1) helper functions of the same module / methods of the same class (or inherited from a kmip
    module) that touch the stream are inlined at their call sites: statement calls, `x = helper(...)`, and
    one-expression helpers inside conditions; parameters are substituted, the helper's locals renamed, `return`
    turned into assignment; depth <= 3, no recursion.  (2) guard forms are brought to the canonical ones:
    `if v: raise else: A`, `if X is None: ... else: write`, `if not self.is_tag_next(T, s): raise` + read,
    `for a in self._xs or []`, a list built from an attribute and then written in a loop."""

    def __init__(self, tree, cls_node, oracle):
        self.module_funcs = {n.name: n for n in tree.body if isinstance(n, ast.FunctionDef)}
        self.methods = {n.name: n for n in cls_node.body if isinstance(n, ast.FunctionDef)}
        self.o = oracle
        self.counter = 0
        self.notes = []

    # -- helpers ----------------------------------------------------------------------------------------
    def find_helper(self, call):
        """(FunctionDef, takes self?, display name) of the function a call refers to, or None"""
        if not isinstance(call, ast.Call):
            return None
        f = call.func
        if isinstance(f, ast.Name) and f.id in self.module_funcs:
            return self.module_funcs[f.id], False, f.id
        if isinstance(f, ast.Attribute) and is_self(f.value):
            if f.attr in NOT_INLINED:
                return None
            fd = self.methods.get(f.attr)
            if fd is not None:
                decos = [src(d) for d in fd.decorator_list]
                if "staticmethod" in decos:
                    return fd, False, "self." + f.attr
                if decos:
                    return None
                return fd, True, "self." + f.attr
            live = getattr(self.o.cls, f.attr, None)
            return self.live_function(live, True, "self." + f.attr)
        if isinstance(f, (ast.Name, ast.Attribute)) and not src(f).startswith("self."):
            try:
                live = self.o.ev(f)
            except Exception:
                return None
            return self.live_function(live, False, src(f))
        return None

    def live_function(self, live, takes_self, name):
        import inspect
        import textwrap
        if not inspect.isfunction(live) or not getattr(live, "__module__", "").startswith("kmip.") \
                or live.__module__ in ("kmip.core.primitives", "kmip.core.utils", "kmip.core.enums"):
            return None
        try:
            tree = ast.parse(textwrap.dedent(inspect.getsource(live)))
        except Exception:
            return None
        fd = tree.body[0] if tree.body and isinstance(tree.body[0], ast.FunctionDef) else None
        if fd is None:
            return None
        return fd, takes_self, name

    def bind(self, fd, takes_self, call):
        a = fd.args
        if a.vararg or a.kwarg or a.kwonlyargs:
            raise NotInlinable("*args / **kwargs / keyword-only parameters")
        params = [p.arg for p in list(getattr(a, "posonlyargs", [])) + list(a.args)]
        if takes_self:
            params = params[1:]
        defaults = dict(zip(params[len(params) - len(a.defaults):], a.defaults)) if a.defaults else {}
        if any(isinstance(x, ast.Starred) for x in call.args) or any(kw.arg is None for kw in call.keywords):
            raise NotInlinable("call with * / ** arguments")
        if len(call.args) > len(params):
            raise NotInlinable("more arguments than parameters")
        m = dict(zip(params, call.args))
        for kw in call.keywords:
            if kw.arg not in params or kw.arg in m:
                raise NotInlinable("keyword argument %s does not match a free parameter" % kw.arg)
            m[kw.arg] = kw.value
        for p in params:
            if p not in m:
                if p not in defaults:
                    raise NotInlinable("parameter %s is not given" % p)
                m[p] = defaults[p]
        return m

    def substitute(self, nodes, mapping, call):
        self.counter += 1
        suffix = "__h%d" % self.counter
        local = set()
        for n in nodes:
            for x in ast.walk(n):
                if isinstance(x, ast.Name) and isinstance(x.ctx, ast.Store):
                    if x.id in mapping:
                        raise NotInlinable("the helper assigns to its parameter %s" % x.id)
                    local.add(x.id)

        class T(ast.NodeTransformer):
            def visit_Name(self, node):
                if node.id in mapping and isinstance(node.ctx, ast.Load):
                    return copy.deepcopy(mapping[node.id])
                if node.id in local:
                    return ast.Name(id=node.id + suffix, ctx=node.ctx)
                return node
        out = [T().visit(copy.deepcopy(n)) for n in nodes]
        for n in out:
            for x in ast.walk(n):
                x.lineno = call.lineno
                x.col_offset = call.col_offset
                x.end_lineno = getattr(call, "end_lineno", call.lineno)
                x.end_col_offset = getattr(call, "end_col_offset", call.col_offset)
        return out

    def relevant(self, fd, call, streams):
        args = list(call.args) + [kw.value for kw in call.keywords]
        return any(isinstance(x, ast.Name) and x.id in streams for x in args) or _stream_ops_in(fd)

    def instantiate(self, fd, takes_self, call, target):
        mapping = self.bind(fd, takes_self, call)
        body = strip_doc(copy.deepcopy(fd.body))
        body, _ = eliminate_returns(body, target)
        return self.substitute(body, mapping, call)

    def expression_helper(self, call):
        """a helper whose body is `return <expression>` (e.g. `_is_2_0(v)`): the expression at the call site"""
        h = self.find_helper(call)
        if h is None:
            return None
        fd, takes_self, name = h
        body = strip_doc(fd.body)
        if len(body) != 1 or not isinstance(body[0], ast.Return) or body[0].value is None:
            return None
        try:
            mapping = self.bind(fd, takes_self, call)
            return self.substitute([body[0].value], mapping, call)[0]
        except NotInlinable:
            return None

    def inline_in_test(self, test, depth=0):
        norm = self

        class T(ast.NodeTransformer):
            def visit_Call(self, node):
                self.generic_visit(node)
                if depth < MAX_INLINE_DEPTH:
                    e = norm.expression_helper(node)
                    if e is not None:
                        norm.notes.append("inlined %s in a condition (line %d)" % (src(node.func), node.lineno))
                        return norm.inline_in_test(e, depth + 1)
                return node
        return T().visit(test)

    def expand(self, stmts, streams, depth, stack):
        out = []
        for st in stmts:
            if isinstance(st, (ast.If, ast.While)):
                st.test = self.inline_in_test(st.test)
            call, target = call_of(st), None
            if call is None and isinstance(st, ast.Assign) and len(st.targets) == 1 and isinstance(st.value, ast.Call):
                call, target = st.value, st.targets[0]
            h = self.find_helper(call) if call is not None else None
            if h is not None and self.relevant(h[0], call, streams):
                fd, takes_self, name = h
                if name in stack:
                    raise Unrecognised("helper %s is recursive" % name, st)
                if depth >= MAX_INLINE_DEPTH:
                    raise Unrecognised("helpers nested deeper than %d (%s)" % (MAX_INLINE_DEPTH, " > ".join(stack + [name])), st)
                try:
                    body = self.instantiate(fd, takes_self, call, target)
                except NotInlinable as e:
                    raise Unrecognised("helper %s (defined at line %d) cannot be inlined: %s" % (name, fd.lineno, e), st)
                self.notes.append("inlined %s (line %d)" % (name, st.lineno))
                out.extend(self.expand(body, streams, depth + 1, stack + [name]))
                continue
            for field in ("body", "orelse", "finalbody"):
                if isinstance(getattr(st, field, None), list):
                    setattr(st, field, self.expand(getattr(st, field), streams, depth, stack))
            for hd in getattr(st, "handlers", []) or []:
                hd.body = self.expand(hd.body, streams, depth, stack)
            out.append(st)
        return out

    # -- canonical forms --------------------------------------------------------------------------------
    def canonical(self, stmts, streams):
        out = []
        i = 0
        while i < len(stmts):
            st = stmts[i]
            i += 1
            # `if <version test>: raise ... else: A`  ==  `if <version test>: raise ...` ; A      (and mirrored)
            if isinstance(st, ast.If) and version_test(st.test) and st.orelse:
                if only_raise(st.body):
                    rest, st = st.orelse, ast.copy_location(ast.If(test=st.test, body=st.body, orelse=[]), st)
                    out.append(st)
                    out.extend(self.canonical(rest, streams))
                    continue
                if only_raise(st.orelse):
                    neg = ast.copy_location(ast.UnaryOp(op=ast.Not(), operand=st.test), st)
                    rest, st = st.body, ast.copy_location(ast.If(test=neg, body=st.orelse, orelse=[]), st)
                    out.append(st)
                    out.extend(self.canonical(rest, streams))
                    continue
            # `if not self.is_tag_next(T, s): raise ...` ; x = C() ; x.read(s)   ==   `if self.is_tag_next(T, s): x = C(); x.read(s) else: raise`
            if isinstance(st, ast.If) and isinstance(st.test, ast.UnaryOp) and isinstance(st.test.op, ast.Not) \
                    and isinstance(st.test.operand, ast.Call) and isinstance(st.test.operand.func, ast.Attribute) \
                    and st.test.operand.func.attr == "is_tag_next" and only_raise(st.body) and not st.orelse:
                j = i
                while j < len(stmts) and isinstance(stmts[j], ast.Assign) and not _stream_ops_in(stmts[j]):
                    j += 1
                c = call_of(stmts[j]) if j < len(stmts) else None
                if c is not None and method_call(c, "read") is not None:
                    out.append(ast.copy_location(ast.If(test=st.test.operand, body=stmts[i:j + 1], orelse=st.body), st))
                    i = j + 1
                    continue
            # `if X is None: A else: B`  /  `if not X: A else: B`  with the stream used in B only
            if isinstance(st, ast.If) and st.orelse and not _stream_ops_in(ast.Module(body=st.body, type_ignores=[])) \
                    and _stream_ops_in(ast.Module(body=st.orelse, type_ignores=[])) and not version_test(st.test):
                t = st.test
                pos = None
                if isinstance(t, ast.Compare) and len(t.ops) == 1 and isinstance(t.ops[0], ast.Is) \
                        and isinstance(t.comparators[0], ast.Constant) and t.comparators[0].value is None:
                    pos = ast.copy_location(ast.Compare(left=t.left, ops=[ast.IsNot()], comparators=t.comparators), t)
                elif isinstance(t, ast.UnaryOp) and isinstance(t.op, ast.Not):
                    pos = t.operand
                if pos is not None:
                    body = [] if all(isinstance(x, ast.Pass) for x in st.body) else st.body
                    st = ast.copy_location(ast.If(test=pos, body=st.orelse, orelse=body), st)
            # loops
            if isinstance(st, ast.For) and isinstance(st.iter, (ast.List, ast.Tuple)) and isinstance(st.target, ast.Name) \
                    and not st.orelse and 0 < len(st.iter.elts) <= 32 \
                    and not any(isinstance(n, (ast.Break, ast.Continue)) for n in ast.walk(st)) \
                    and not any(isinstance(n, ast.Name) and n.id == st.target.id and isinstance(n.ctx, ast.Store)
                                for b in st.body for n in ast.walk(b)):
                # `for f in [a, b]: body`  ==  body[f := a] ; body[f := b]
                unrolled = []
                for e in st.iter.elts:
                    unrolled.extend(self.substitute(st.body, {st.target.id: e}, st))
                self.notes.append("loop over a list literal unrolled (line %d)" % st.lineno)
                out.extend(self.canonical(unrolled, streams))
                continue
            if isinstance(st, ast.For):
                st.iter = self.plain_iter(st.iter)
                if isinstance(st.iter, ast.Name) and isinstance(st.target, ast.Name):
                    st = self.fuse_list_loop(st, out)
            for field in ("body", "orelse", "finalbody"):
                if isinstance(getattr(st, field, None), list) and getattr(st, field):
                    setattr(st, field, self.canonical(getattr(st, field), streams))
            out.append(st)
        return out

    @staticmethod
    def plain_iter(it):
        """`X or []`, `list(X)`, `tuple(X)`, `X[:]` -> X"""
        while True:
            if isinstance(it, ast.BoolOp) and isinstance(it.op, ast.Or) and len(it.values) == 2 \
                    and isinstance(it.values[1], (ast.List, ast.Tuple)) and not it.values[1].elts:
                it = it.values[0]
            elif isinstance(it, ast.Call) and isinstance(it.func, ast.Name) and it.func.id in ("list", "tuple") \
                    and len(it.args) == 1 and not it.keywords:
                it = it.args[0]
            else:
                return it

    def fuse_list_loop(self, loop, before):
        """`L = [E(n) for n in self._xs]` (or `L = []` + a loop appending / `L.extend(...)`) ... `for e in L: e.write(s)`
        ==  `for n in self._xs: e = E(n); e.write(s)`; `before` are the statements preceding the loop in its block"""
        name = loop.iter.id
        defs = []
        for k, s in enumerate(before):
            if isinstance(s, ast.Assign) and len(s.targets) == 1 and isinstance(s.targets[0], ast.Name) \
                    and s.targets[0].id == name:
                defs.append((k, "assign", s))
            elif isinstance(s, ast.For) and any(isinstance(c, ast.Call) and isinstance(c.func, ast.Attribute)
                                               and c.func.attr in ("append", "extend") and isinstance(c.func.value, ast.Name)
                                               and c.func.value.id == name for c in ast.walk(s)):
                defs.append((k, "fill", s))
            elif call_of(s) is not None and isinstance(call_of(s).func, ast.Attribute) and call_of(s).func.attr == "extend" \
                    and isinstance(call_of(s).func.value, ast.Name) and call_of(s).func.value.id == name:
                defs.append((k, "extend", s))
            elif name in names_in(s):
                return loop                      # used in some other way: leave it to the interpreter
        source = None                            # (target name | None, iterable, element expression | None)
        for k, kind, s in defs:
            v = s.value if kind == "assign" else None
            empty = v is not None and ((isinstance(v, (ast.List, ast.Tuple)) and not v.elts) or src(v) == "list()")
            if kind == "assign" and empty:
                continue
            if source is not None:
                return loop
            if kind == "assign" and isinstance(v, ast.ListComp):
                source = self.comprehension(v)
            elif kind == "assign":
                source = (None, self.plain_iter(v), None)
            elif kind == "extend":
                a = call_of(s).args[0] if len(call_of(s).args) == 1 else None
                source = self.comprehension(a) if isinstance(a, (ast.ListComp, ast.GeneratorExp)) else \
                    (None, self.plain_iter(a), None) if a is not None else None
            elif kind == "fill":
                c = call_of(s.body[0]) if len(s.body) == 1 else None
                if not s.orelse and isinstance(s.target, ast.Name) and c is not None and c.func.attr == "append" \
                        and len(c.args) == 1:
                    source = (s.target.id, self.plain_iter(s.iter), c.args[0])
            if source is None:
                return loop
        if source is None or self_attr(source[1]) is None:
            return loop
        tgt, it, elt = source
        if elt is None or (isinstance(elt, ast.Name) and elt.id == tgt):
            new = ast.For(target=loop.target, iter=it, body=loop.body, orelse=[])
        else:
            bind = ast.Assign(targets=[ast.Name(id=loop.target.id, ctx=ast.Store())], value=elt)
            new = ast.For(target=ast.Name(id=tgt, ctx=ast.Store()), iter=it, body=[bind] + loop.body, orelse=[])
        for x in ast.walk(new):
            if not hasattr(x, "lineno"):
                x.lineno, x.col_offset = loop.lineno, loop.col_offset
        self.notes.append("loop over the local list %s (line %d) read as a loop over %s" % (name, loop.lineno, src(it)))
        return ast.copy_location(new, loop)

    @staticmethod
    def comprehension(v):
        if len(v.generators) == 1 and not v.generators[0].ifs and isinstance(v.generators[0].target, ast.Name):
            g = v.generators[0]
            return (g.target.id, Normaliser.plain_iter(g.iter), v.elt)
        return None

    # -- entry ------------------------------------------------------------------------------------------
    def method(self, fn):
        fn = copy.deepcopy(fn)
        params = [a.arg for a in fn.args.args]
        streams = {params[1]} if len(params) > 1 else set()
        for n in ast.walk(fn):
            if isinstance(n, ast.Assign) and len(n.targets) == 1 and isinstance(n.targets[0], ast.Name) \
                    and isinstance(n.value, ast.Call) and src(n.value.func).endswith("BytearrayStream"):
                streams.add(n.targets[0].id)
        body = strip_doc(fn.body)
        body = self.expand(body, streams, 0, [])
        if _has_return(body):
            try:
                body, _ = eliminate_returns(body, None)
            except NotInlinable as e:
                raise Unrecognised("%s() uses `return` in a way that cannot be rewritten: %s" % (fn.name, e), fn)
        fn.body = self.canonical(body, streams) or [ast.Pass()]
        for n in ast.walk(fn):
            if isinstance(n, (ast.stmt, ast.expr)) and not hasattr(n, "lineno"):
                n.lineno, n.col_offset = fn.lineno, 0
        return fn


# ---------------------------------------------------------------------------------------------------------
# read()
# ---------------------------------------------------------------------------------------------------------

class Common(object):
    def __init__(self, fn, oracle, cls_node):
        self.fn = fn
        self.o = oracle
        self.cls_node = cls_node
        self.fields = []
        self.approx = []
        self.approx_lines = []
        self.notes = []
        self.class_range = (10, 20)
        self.streams = set()
        self.env = {}            # unparse(target) -> Call | [Call, ...]
        self.param_stream = fn.args.args[1].arg if len(fn.args.args) > 1 else None

    def add_approx(self, why, node=None):
        """reasons go to the Lean file without source lines (a pure line shift must not change it); the report has
        them with the line"""
        line = node.lineno if node is not None and hasattr(node, "lineno") else None
        if why not in self.approx:
            self.approx.append(why)
        s = why + (" (line %d)" % line if line else "")
        if s not in self.approx_lines:
            self.approx_lines.append(s)

    def note(self, s):
        if s not in self.notes:
            self.notes.append(s)

    def touches_stream(self, node):
        for n in ast.walk(node):
            if isinstance(n, ast.Name) and (n.id in self.streams or n.id == self.param_stream):
                return True
            if isinstance(n, ast.Call) and isinstance(n.func, ast.Attribute) and n.func.attr in (
                    "read", "write", "is_tag_next", "is_type_next", "peek", "is_oversized"):
                return True
        return False

    def pure(self, st):
        return not self.touches_stream(st) and not mentions_version(st)

    def record_assign(self, st):
        """remember constructor (or any call) assignments; True when the statement is such an assignment"""
        if isinstance(st, ast.Assign) and len(st.targets) == 1:
            t = st.targets[0]
            if isinstance(st.value, ast.Call):
                self.env[src(t)] = st.value
                return True
            if isinstance(st.value, ast.Name) and st.value.id in self.env and (self_attr(t) or isinstance(t, ast.Name)):
                self.env[src(t)] = self.env[st.value.id]          # `self.x = value` after `value = f(...)`
                return True
            if isinstance(t, ast.Attribute) and t.attr == "tag" and not is_self(t.value):
                self.env[src(t.value) + ".tag!"] = self.o.tag_value(st.value)   # `x.tag = enums.Tags.T`
                return True
        return False

    def class_guard(self, st, ver):
        """`if kmip_version < V: raise VersionNotSupported(...)`"""
        if isinstance(st, ast.If) and version_test(st.test) and only_raise(st.body) and not st.orelse:
            op, v = version_test(st.test)
            t, f = split_range(ver, op, v)
            if f is None:
                raise Unrecognised("the class raises under every version", st)
            return f
        return None


class Reader(Common):
    def __init__(self, fn, oracle, cls_node):
        Common.__init__(self, fn, oracle, cls_node)
        self.done = False
        self.header = False
        self.validate = False
        self.pending_min1 = []

    def run(self):
        body = strip_doc(self.fn.body)
        self.block(body, (10, 20), top=True)
        check_statement_kinds(self.fn)
        if not self.header:
            raise Unrecognised("read() does not start with the structure header (super().read)", self.fn)
        if not self.streams:
            raise Unrecognised("read() takes its children from the enclosing stream, not from a stream cut to the "
                               "structure's length (and never checks for trailing data)", self.fn)
        if not self.done:
            raise Unrecognised("read() never calls is_oversized: children after the known fields are accepted and "
                               "dropped (the reader is more lenient than any field list)", self.fn)
        self.finish()
        return self.fields

    # -- statements -------------------------------------------------------------------------------------
    def block(self, stmts, ver, top=False):
        for st in stmts:
            if self.done:
                c = call_of(st)
                if c is not None and is_self(method_call(c, "validate") or 0):
                    self.validate = True
                    continue
                if self.pure(st):
                    continue
                raise Unrecognised("the stream is used after is_oversized", st)
            self.statement(st, ver, top)

    def statement(self, st, ver, top):
        c = call_of(st)
        # header
        if c is not None and method_call(c, "read") is not None and isinstance(method_call(c, "read"), ast.Call) \
                and isinstance(method_call(c, "read").func, ast.Name) and method_call(c, "read").func.id == "super":
            self.header = True
            return
        # local stream
        if isinstance(st, ast.Assign) and len(st.targets) == 1 and isinstance(st.targets[0], ast.Name) \
                and isinstance(st.value, ast.Call) and src(st.value.func).endswith("BytearrayStream") \
                and len(st.value.args) == 1 and src(st.value.args[0]) == "%s.read(self.length)" % self.param_stream:
            self.streams.add(st.targets[0].id)
            return
        g = self.class_guard(st, ver)
        if g is not None:
            if self.fields:
                raise Unrecognised("version guard after the first field", st)
            self.class_range = g
            self.note("the class exists under KMIP %s..%s only (line %d)" % (g[0], g[1], st.lineno))
            self._narrow = g
            return
        ver = self.narrow(ver)
        if isinstance(st, ast.Assign) and len(st.targets) == 1 and src(st.targets[0]) == "kmip_version":
            if "protocol_version_to_kmip_version(self.protocol_version)" in src(st.value) and not any(
                    f.vmin != 10 or f.vmax != 20 for f in self.fields):
                self.note("version-from-own-header: kmip_version is rebound to the structure's own ProtocolVersion "
                          "(line %d); the schema's version is that version" % st.lineno)
                return
            raise Unrecognised("kmip_version is reassigned", st)
        if c is not None and is_self(method_call(c, "is_oversized") or 0):
            if len(c.args) != 1 or src(c.args[0]) not in self.streams:
                raise Unrecognised("is_oversized on something else than the local stream", st)
            if not top:
                raise Unrecognised("is_oversized inside a branch", st)
            self.done = True
            return
        if c is not None and is_self(method_call(c, "validate") or 0):
            self.validate = True
            return
        if isinstance(st, ast.If):
            vt = version_test(st.test)
            if vt:
                t, f = split_range(ver, vt[0], vt[1])
                if t is not None:
                    self.block(st.body, t)
                elif self.touches_stream(ast.Module(body=st.body, type_ignores=[])):
                    self.note("dead branch under the class's versions (line %d)" % st.lineno)
                if f is not None:
                    self.block(st.orelse, f)
                return
            tn = self.tag_next(st.test)
            if tn:
                self.tagged_if(st, tn, ver)
                return
            ty = self.type_next(st.test)
            if ty:
                kinds, tags, rd, line = self.type_chain(st, None)
                if len(set(tags)) != 1:
                    raise Unrecognised("alternatives selected by item type carry different tags", st)
                kind, exact = kind_of_set(kinds)
                if not exact:
                    self.add_approx("field 0x%06X accepts the item types %s exactly; Kind.any is more lenient"
                                    % (tags[0], sorted(set(kinds))), st)
                self.fields.append(self.mk(tags[0], kind, "one", ver, st, rd))
                return
            if self.pure(st):
                self.pure_if(st)
                return
            raise Unrecognised("if-statement mixes a stream test with other conditions: %s" % src(st.test)[:80], st)
        if isinstance(st, ast.While):
            tn = self.tag_next(st.test)
            if tn and not st.orelse:
                tag = self.o.tag_value(tn)
                kind, rd, lv = self.field_body(st.body, tag, st)
                f = self.mk(tag, kind, "many", ver, st, rd)
                f.listvars = lv
                self.fields.append(f)
                return
            raise Unrecognised("loop that is not `while self.is_tag_next(T, stream)`: %s" % src(st.test)[:80], st)
        if isinstance(st, ast.For):
            if self.touches_stream(st):
                raise Unrecognised("for-loop reading from the stream (%s): the number of children is taken from a "
                                   "value read earlier" % src(st.iter)[:60], st)
            return
        if c is not None and method_call(c, "read") is not None:
            recv = method_call(c, "read")
            self.check_read_args(c, st)
            tag, kind = self.resolve_read(recv, st)
            self.fields.append(self.mk(tag, kind, "one", ver, st, recv))
            return
        if self.record_assign(st) and not self.touches_stream(st):
            return
        if self.pure(st):
            if contains_raise([st]):
                self.add_approx("value-dependent rejection", st)
            return
        if isinstance(st, ast.Assign) and any(src(st.value).endswith("(%s.read())" % s) for s in self.streams):
            raise Unrecognised("the content of the structure is kept as raw bytes, not read as children: %s"
                               % src(st)[:70], st)
        raise Unrecognised("statement not understood: %s" % src(st).split("\n")[0][:90], st)

    _narrow = None

    def narrow(self, ver):
        if self._narrow:
            return (max(ver[0], self._narrow[0]), min(ver[1], self._narrow[1]))
        return ver

    def tag_next(self, test):
        if isinstance(test, ast.Call) and isinstance(test.func, ast.Attribute) and test.func.attr == "is_tag_next" \
                and len(test.args) == 2 and src(test.args[1]) in self.streams:
            return test.args[0]
        return None

    def type_next(self, test):
        if isinstance(test, ast.Call) and isinstance(test.func, ast.Attribute) and test.func.attr == "is_type_next" \
                and len(test.args) == 2 and src(test.args[1]) in self.streams \
                and isinstance(test.args[0], ast.Attribute) and test.args[0].attr in TYPE_NAME_KIND:
            return TYPE_NAME_KIND[test.args[0].attr]
        return None

    def check_read_args(self, c, st):
        if c.args and src(c.args[0]) == self.param_stream:
            raise Unrecognised("children are read from the enclosing stream, not from a stream cut to the structure's "
                               "length (no trailing-data check; the number of children comes from a value read "
                               "earlier): %s" % src(c)[:60], st)
        if not c.args or src(c.args[0]) not in self.streams:
            raise Unrecognised("read from something else than the local stream: %s" % src(c)[:80], st)

    def resolve_read(self, recv, st):
        """(tag, kind) of the object `recv.read(stream)` fills"""
        key = src(recv)
        v = self.env.get(key)
        if v is None:
            a = self_attr(recv)
            d = self.o.default_attr(a) if a else None
            if d is None:
                raise Unrecognised("%s.read(...): the object is not constructed in read() and a default instance "
                                   "does not hold one" % key, st)
            return d
        calls = v if isinstance(v, list) else [v]
        res = []
        forced = self.env.get(key + ".tag!")
        for call in calls:
            d = self.o.ctor(call)
            if d is None:
                fs = self.o.factory(call)
                if fs is None and forced is not None:
                    # the class is chosen at run time, the tag is assigned explicitly: any item type
                    self.add_approx("field 0x%06X: the class read is produced by %s (chosen by a value read earlier); "
                                    "Kind.any is more lenient" % (forced, src(call.func)), st)
                    return forced, "any"
                if fs is not None and len(fs) == 1:
                    self.note("%s is produced by %s: every object that factory returns has tag 0x%06X and is a %s"
                              % (key, src(call.func), fs[0][0], fs[0][1]))
                    d = fs[0]
                elif fs is not None:
                    raise Unrecognised("%s is produced by %s, whose results carry %d different tags: the child's tag "
                                       "is chosen by a value read earlier" % (key, src(call.func), len(fs)), st)
                else:
                    raise Unrecognised("%s is produced by %s, not by a constructor" % (key, src(call)[:60]), st)
            res.append(d)
        # an explicit `X.tag = Tags.T` before the read overrides the constructor's tag
        if forced is not None:
            res = [(forced, k) for (_, k) in res]
        tags = {t for t, _ in res}
        if len(tags) != 1:
            raise Unrecognised("alternatives for %s carry different tags" % key, st)
        kind, exact = kind_of_set([k for _, k in res])
        if not exact:
            self.add_approx("field 0x%06X: the class read is chosen by a value read earlier (types %s); Kind.any is "
                            "more lenient" % (list(tags)[0], sorted({k for _, k in res})), st)
        return list(tags)[0], kind

    def mk(self, tag, kind, card, ver, st, recv):
        f = Field(tag, kind, card, ver, st.lineno)
        f.recv = recv
        return f

    def env_get(self, key):
        if key in self.env:
            return self.env[key]
        if key.startswith("self."):
            for k, v in self.env.items():
                if k.startswith("self.") and norm_slot(k[5:]) == norm_slot(key[5:]):
                    return v            # `self.secret = ...` goes through the setter to `self._secret`
        return None

    def alternatives_if(self, st, obj, ver):
        """`X = self.<f>_factory.create(v)` ... `if self.is_tag_next(X.tag, s): X.read(s) else: raise`: the child's
        class and tag are chosen by a value read earlier; one optional field per class the factory can return (exactly
        one of them is required: more lenient, marked)"""
        call = self.env_get(src(obj))
        fs = self.o.factory(call) if isinstance(call, ast.Call) else None
        if not fs or len(fs) < 2 or len({t for t, _ in fs}) != len(fs):
            return False
        rd = None
        for s in st.body:
            c = call_of(s)
            if c is not None and method_call(c, "read") is not None:
                self.check_read_args(c, s)
                if rd is not None or self.env_get(src(method_call(c, "read"))) is not call:
                    raise Unrecognised("the object read under the test is not the one whose tag was tested", s)
                rd = method_call(c, "read")
            elif self.record_assign(s) and not self.touches_stream(s):
                continue
            elif not self.pure(s):
                raise Unrecognised("statement not understood inside a field: %s" % src(s).split("\n")[0][:80], s)
        if rd is None:
            raise Unrecognised("is_tag_next test whose body reads nothing", st)
        if st.orelse and not only_raise(st.orelse):
            raise Unrecognised("else-branch of a run-time tag test is not a plain raise", st.orelse[0])
        group = "alt@%d" % st.lineno
        for (tag, kind) in fs:
            f = self.mk(tag, kind, "opt", ver, st, rd)
            f.alt = group
            self.fields.append(f)
        self.add_approx("fields %s: the child is one of %d classes chosen by %s; %s of them is read; %d optional "
                        "fields are more lenient" % (", ".join("0x%06X" % t for t, _ in fs), len(fs), src(call.func),
                                                     "exactly one" if st.orelse else "at most one", len(fs)), st)
        return True

    def tagged_if(self, st, tagexpr, ver):
        if isinstance(tagexpr, ast.Attribute) and tagexpr.attr == "tag" and self.alternatives_if(st, tagexpr.value, ver):
            return
        tag = self.o.tag_value(tagexpr)
        kind, rd, _ = self.field_body(st.body, tag, st)
        card = "opt"
        if st.orelse:
            if self.touches_stream(ast.Module(body=st.orelse, type_ignores=[])):
                raise Unrecognised("the else-branch of an is_tag_next test reads from the stream", st.orelse[0])
            if only_raise(st.orelse):
                card = "one"
            elif contains_raise(st.orelse):
                self.add_approx("field 0x%06X is required when a value read earlier says so" % tag, st.orelse[0])
        self.fields.append(self.mk(tag, kind, card, ver, st, rd))

    def type_chain(self, st, tag):
        """`if self.is_type_next(T1, s): ... elif self.is_type_next(T2, s): ... else: raise | read`"""
        kinds, tags, rd = [], [], None
        cur = st
        while True:
            want = self.type_next(cur.test)
            if want is None:
                raise Unrecognised("type test not understood: %s" % src(cur.test)[:80], cur)
            k, r, t = self.one_read(cur.body, cur)
            if k != want:
                raise Unrecognised("branch for item type %s reads a %s" % (want, k), cur)
            kinds.append(k)
            tags.append(t)
            rd = rd or r
            if len(cur.orelse) == 1 and isinstance(cur.orelse[0], ast.If) and self.type_next(cur.orelse[0].test):
                cur = cur.orelse[0]
                continue
            if only_raise(cur.orelse):
                break
            if not cur.orelse:
                raise Unrecognised("type test without else: an item of another type is silently left in the "
                                   "stream", cur)
            k, r, t = self.one_read(cur.orelse, cur.orelse[0])
            kinds.append(k)
            tags.append(t)
            break
        return kinds, tags, rd, st.lineno

    def one_read(self, stmts, where):
        """a statement list that constructs one object and reads it: (kind, receiver, tag)"""
        found = None
        for s in stmts:
            c = call_of(s)
            if c is not None and method_call(c, "read") is not None:
                if found:
                    raise Unrecognised("two reads in one branch", s)
                self.check_read_args(c, s)
                recv = method_call(c, "read")
                t, k = self.resolve_read(recv, s)
                found = (k, recv, t)
            elif self.record_assign(s) and not self.touches_stream(s):
                continue
            elif self.pure(s):
                if contains_raise([s]):
                    self.add_approx("value-dependent rejection", s)
            else:
                raise Unrecognised("statement not understood inside a field: %s" % src(s).split("\n")[0][:80], s)
        if not found:
            raise Unrecognised("branch guarded by a stream test reads nothing", where)
        return found

    def field_body(self, stmts, tag, where):
        """body of `if/while self.is_tag_next(tag, s)`: exactly one item with that tag is consumed"""
        kinds, rd, listvars = None, None, set()
        for s in stmts:
            c = call_of(s)
            if c is not None and method_call(c, "read") is not None:
                if kinds is not None:
                    raise Unrecognised("two reads under one is_tag_next test", s)
                self.check_read_args(c, s)
                rd = method_call(c, "read")
                t, k = self.resolve_read(rd, s)
                if t != tag:
                    raise Unrecognised("the test looks for tag 0x%06X and the object read carries 0x%06X" % (tag, t), s)
                kinds = [k]
            elif isinstance(s, ast.If) and self.type_next(s.test):
                if kinds is not None:
                    raise Unrecognised("two reads under one is_tag_next test", s)
                kinds, tags, rd, _ = self.type_chain(s, tag)
                if set(tags) != {tag}:
                    raise Unrecognised("the test looks for tag 0x%06X and a branch reads another tag" % tag, s)
            elif isinstance(s, ast.If) and self.pure(s):
                self.pure_if(s)
            elif self.record_assign(s) and not self.touches_stream(s):
                pass
            elif self.pure(s):
                if contains_raise([s]):
                    self.add_approx("value-dependent rejection", s)
            else:
                raise Unrecognised("statement not understood inside a field: %s" % src(s).split("\n")[0][:80], s)
            if c is not None and method_call(c, "append") is not None:
                listvars.add(src(method_call(c, "append")))
        if kinds is None:
            raise Unrecognised("is_tag_next test whose body reads nothing", where)
        kind, exact = kind_of_set(kinds)
        if not exact:
            self.add_approx("field 0x%06X accepts the item types %s exactly; Kind.any is more lenient"
                            % (tag, sorted(set(kinds))), where)
        return kind, rd, listvars

    def pure_if(self, st):
        """an if-statement that does not touch the stream: alternatives for a constructor, or a rejection"""
        alts = {}
        has_raise = False
        for n in ast.walk(st):
            if isinstance(n, ast.Assign) and len(n.targets) == 1 and isinstance(n.value, ast.Call):
                alts.setdefault(src(n.targets[0]), []).append(n.value)
            if isinstance(n, ast.Raise):
                has_raise = True
        for k, calls in alts.items():
            self.env[k] = calls if len(calls) > 1 else calls[0]
        if has_raise:
            self.pending_min1.append(st)

    # -- after the walk ---------------------------------------------------------------------------------
    def finish(self):
        # the attribute each field is stored in
        for f in self.fields:
            f.slot = self.slot_of(f)
        # `if len(xs) == 0: raise` after a loop that collects into xs: at least one
        for st in self.pending_min1:
            x = requires_nonempty(st)
            hit = [f for f in self.fields if f.card == "many" and x is not None and x in f.listvars]
            if len(hit) == 1:
                hit[0].min1 = True
            else:
                self.add_approx("value-dependent rejection", st)
        # `x = C(); x.read(); while is_tag_next(T): x = C(); x.read()`: one + many of the same item = at least one
        out = []
        for f in self.fields:
            if out and out[-1].card == "one" and f.card == "many" and not out[-1].min1 and \
                    (out[-1].tag, out[-1].kind, out[-1].vmin, out[-1].vmax) == (f.tag, f.kind, f.vmin, f.vmax):
                f.min1 = True
                f.line = out[-1].line
                self.note("mandatory item followed by a loop over the same tag (line %d) = repeated, at least one"
                          % f.line)
                out[-1] = f
            else:
                out.append(f)
        self.fields = out
        for f in self.fields:
            if f.min1:
                self.add_approx("field 0x%06X: at least one item is required; `many` is more lenient" % f.tag)

    def slot_of(self, f):
        recv = f.recv
        a = self_attr(recv)
        if a:
            return norm_slot(a)
        if not isinstance(recv, ast.Name):
            return None
        derived = {recv.id}
        started = False
        for n in self.linear():
            if not started:
                c = call_of(n)
                if c is not None and method_call(c, "read") is recv:
                    started = True
                continue
            if isinstance(n, ast.Assign) and len(n.targets) == 1:
                t = n.targets[0]
                if isinstance(t, ast.Name) and t.id == recv.id and isinstance(n.value, ast.Call) \
                        and not (names_in(n.value) & derived):
                    if self.exclusive(n, recv):
                        continue       # the other branch of the same if-statement
                    return None        # the variable is reused for the next object
                if names_in(n.value) & derived:
                    if self_attr(t):
                        return norm_slot(self_attr(t))
                    if isinstance(t, ast.Name):
                        derived.add(t.id)
            c = call_of(n)
            if c is not None and method_call(c, "append") is not None and c.args and (names_in(c.args[0]) & derived):
                r = method_call(c, "append")
                if self_attr(r):
                    return norm_slot(self_attr(r))
                if isinstance(r, ast.Name):
                    derived.add(r.id)
        return None

    def branches(self, node):
        """{id(if-statement): 'body' | 'orelse'} for every if-statement around node"""
        if not hasattr(self, "_parents"):
            self._parents = {}
            for p in ast.walk(self.fn):
                for fname, val in ast.iter_fields(p):
                    for ch in (val if isinstance(val, list) else [val]):
                        if isinstance(ch, ast.AST):
                            self._parents[id(ch)] = (p, fname)
        out = {}
        cur = node
        while id(cur) in self._parents:
            p, fname = self._parents[id(cur)]
            if isinstance(p, ast.If) and fname in ("body", "orelse"):
                out[id(p)] = fname
            cur = p
        return out

    def exclusive(self, a, b):
        ba, bb = self.branches(a), self.branches(b)
        return any(k in bb and bb[k] != v for k, v in ba.items())

    def linear(self):
        """simple statements of the method in source order"""
        out = []

        def visit(n):
            if isinstance(n, (ast.Assign, ast.Expr)):
                out.append(n)
            for ch in ast.iter_child_nodes(n):
                visit(ch)
        visit(self.fn)          # pre-order = source order (inlined helper bodies carry the call's line number)
        return out


# ---------------------------------------------------------------------------------------------------------
# write()
# ---------------------------------------------------------------------------------------------------------

class Writer(Common):
    def __init__(self, fn, oracle, cls_node):
        Common.__init__(self, fn, oracle, cls_node)
        self.trailer = set()
        self.pending = []
        self._narrow = None

    def run(self):
        self.block(strip_doc(self.fn.body), (10, 20))
        check_statement_kinds(self.fn)
        if self.trailer != {"length", "super", "flush"}:
            raise Unrecognised("write() does not end with length / header / buffer (found %s)" % sorted(self.trailer),
                               self.fn)
        for st in self.pending:
            x = requires_nonempty(st)
            slot = norm_slot(x[5:]) if x is not None and x.startswith("self.") and "." not in x[5:] else None
            hit = [f for f in self.fields if f.card == "many" and slot is not None and f.slot == slot]
            if len(hit) == 1:
                hit[0].min1 = True
            else:
                self.add_approx("value-dependent refusal to write", st)
        for f in self.fields:
            if f.min1:
                self.add_approx("field slot %s: the writer insists on at least one item; `many` is more lenient"
                                % f.slot)
        return self.fields

    def narrow(self, ver):
        if self._narrow:
            return (max(ver[0], self._narrow[0]), min(ver[1], self._narrow[1]))
        return ver

    depth = 0

    def block(self, stmts, ver):
        self.depth += 1
        try:
            for st in stmts:
                self.statement(st, ver)
        finally:
            self.depth -= 1

    def write_call(self, st):
        c = call_of(st)
        if c is not None and method_call(c, "write") is not None and c.args and src(c.args[0]) in self.streams \
                and any(kw.arg == "kmip_version" for kw in c.keywords):
            return method_call(c, "write")
        return None

    def statement(self, st, ver):
        c = call_of(st)
        if isinstance(st, ast.Assign) and len(st.targets) == 1 and isinstance(st.targets[0], ast.Name) \
                and isinstance(st.value, ast.Call) and src(st.value.func).endswith("BytearrayStream") \
                and not st.value.args and not st.value.keywords:
            self.streams.add(st.targets[0].id)
            return
        g = self.class_guard(st, ver)
        if g is not None:
            if self.fields:
                raise Unrecognised("version guard after the first field", st)
            self.class_range = g
            self._narrow = g
            return
        ver = self.narrow(ver)
        # trailer
        if self.depth > 1 and (src(st).startswith("self.length =") or
                               (c is not None and src(c.func) == "%s.write" % self.param_stream)):
            raise Unrecognised("the structure header / buffer is written inside a branch", st)
        if isinstance(st, ast.Assign) and src(st.targets[0]) == "self.length" and \
                any(src(st.value) == "%s.length()" % s for s in self.streams):
            self.trailer.add("length")
            return
        if c is not None and isinstance(method_call(c, "write"), ast.Call) and \
                src(method_call(c, "write").func) == "super" and src(c.args[0]) == self.param_stream:
            self.trailer.add("super")
            return
        if c is not None and method_call(c, "write") is not None and src(method_call(c, "write")) == self.param_stream \
                and len(c.args) == 1 and any(src(c.args[0]) == "%s.buffer" % s for s in self.streams):
            self.trailer.add("flush")
            return
        if self.trailer:
            raise Unrecognised("statement between the parts of the trailer", st)
        w = self.write_call(st)
        if w is not None:
            self.fields.append(self.mk(w, "one", ver, st))
            return
        if isinstance(st, ast.If):
            vt = version_test(st.test)
            if vt:
                t, f = split_range(ver, vt[0], vt[1])
                if t is not None:
                    self.block(st.body, t)
                if f is not None:
                    self.block(st.orelse, f)
                return
            if mentions_version(st.test) or self.touches_stream(st.test):
                raise Unrecognised("condition not understood: %s" % src(st.test)[:80], st)
            body_writes = self.touches_stream(ast.Module(body=st.body, type_ignores=[]))
            else_writes = self.touches_stream(ast.Module(body=st.orelse, type_ignores=[]))
            if not body_writes and not else_writes:
                if contains_raise([st]):
                    self.pending.append(st)
                return
            if else_writes:
                raise Unrecognised("both branches of a presence test write", st)
            self.presence_if(st, ver)
            return
        if isinstance(st, ast.For):
            self.loop(st, ver)
            return
        if self.record_assign(st) and not self.touches_stream(st):
            return
        if self.pure(st):
            if contains_raise([st]):
                self.add_approx("value-dependent refusal to write", st)
            return
        raise Unrecognised("statement not understood: %s" % src(st).split("\n")[0][:90], st)

    def presence_if(self, st, ver):
        attrs = {norm_slot(a) for a in self_attrs_in(st.test)}
        if not attrs:
            raise Unrecognised("presence test on something else than an attribute: %s" % src(st.test)[:80], st)
        # accepted forms of the test: X, X is not None, not-empty; anything else is a value condition
        t = st.test
        simple = self_attr(t) or (isinstance(t, ast.Compare) and len(t.ops) == 1 and isinstance(t.ops[0], ast.IsNot)
                                  and self_attr(t.left) and isinstance(t.comparators[0], ast.Constant)
                                  and t.comparators[0].value is None)
        if not simple:
            raise Unrecognised("a field is written under a condition that is not a presence test: %s"
                               % src(t)[:80], st)
        before = len(self.fields)
        self.block(st.body, ver)
        new = self.fields[before:]
        mandatory = only_raise(st.orelse)
        if st.orelse and not mandatory:
            if contains_raise(st.orelse):
                self.add_approx("field slot %s must be present when another value says so" % sorted(attrs)[0],
                                st.orelse[0])
        for f in new:
            if f.slot not in attrs:
                raise Unrecognised("the presence of %s is tested and %s is written" % (sorted(attrs), f.slot), st)
            if f.card == "one":
                f.card = "one" if mandatory else "opt"
            elif f.card == "many":
                f.min1 = f.min1 or mandatory
            elif f.card == "opt":
                raise Unrecognised("nested presence tests", st)

    def loop(self, st, ver):
        if st.orelse or not isinstance(st.target, ast.Name):
            raise Unrecognised("for-loop form not understood", st)
        iter_attr = self_attr(st.iter)
        if iter_attr is None:
            raise Unrecognised("loop over something else than an attribute: %s" % src(st.iter)[:60], st)
        written = None
        for s in st.body:
            w = self.write_call(s)
            if w is not None:
                if written is not None:
                    raise Unrecognised("two writes in one loop body", s)
                written = (w, s)
            elif self.record_assign(s) and not self.touches_stream(s):
                continue
            elif self.pure(s):
                if contains_raise([s]):
                    self.add_approx("value-dependent refusal to write", s)
            else:
                raise Unrecognised("statement not understood inside a loop: %s" % src(s).split("\n")[0][:80], s)
        if written is None:
            raise Unrecognised("loop that writes nothing", st)
        w, s = written
        if not isinstance(w, ast.Name):
            raise Unrecognised("loop writes %s, not the loop variable or an object built from it" % src(w), s)
        if w.id != st.target.id:
            call = self.env.get(w.id)
            if call is None or not self.flows_from(call, st.target.id):
                raise Unrecognised("loop writes %s, which is not built from the loop variable" % w.id, s)
        f = self.mk(w, "many", ver, st, loop_attr=iter_attr)
        self.fields.append(f)

    def flows_from(self, call, name, depth=0):
        ns = names_in(call)
        if name in ns:
            return True
        if depth > 4:
            return False
        return any(isinstance(self.env.get(n), ast.Call) and self.flows_from(self.env[n], name, depth + 1) for n in ns)

    def mk(self, w, card, ver, st, loop_attr=None):
        f = Field(None, None, card, ver, st.lineno)
        f.expr = w
        f.loop_attr = loop_attr
        f.slot = norm_slot(loop_attr) if loop_attr else self.slot_of(w, st)
        f.local_ctor = None
        if isinstance(w, ast.Name):
            call = self.env.get(w.id)
            if isinstance(call, ast.Call):
                d = self.o.ctor(call)
                if d is not None:
                    f.local_ctor = d
        return f

    def slot_of(self, w, st, depth=0):
        a = self_attr(w)
        if a:
            return norm_slot(a)
        if isinstance(w, ast.Name) and depth < 5:
            call = self.env.get(w.id)
            if isinstance(call, ast.Call):
                attrs = [x for x in self_attrs_in(call) if not x.endswith("factory")]
                if attrs:
                    return norm_slot(attrs[0])
                for n in sorted(names_in(call)):
                    if n != w.id and isinstance(self.env.get(n), ast.Call):
                        s = self.slot_of(ast.Name(id=n, ctx=ast.Load()), st, depth + 1)
                        if s:
                            return s
        return None


# ---------------------------------------------------------------------------------------------------------
# tag / kind of what write() emits
# ---------------------------------------------------------------------------------------------------------

def class_facts(cls_node, oracle):
    """per attribute (normalised): constructor calls assigned to it and classes it is isinstance-checked against,
    in every method of the class except read()"""
    ctors, insts, opaque = {}, {}, set()
    props = {fn.name for fn in cls_node.body if isinstance(fn, ast.FunctionDef) and fn.decorator_list}
    for fn in cls_node.body:
        if not isinstance(fn, ast.FunctionDef) or fn.name in ("read", "write"):
            continue
        is_setter = any(isinstance(d, ast.Attribute) and d.attr == "setter" for d in fn.decorator_list)
        param = fn.args.args[1].arg if is_setter and len(fn.args.args) > 1 else None
        # which attributes the setter's parameter (or variables built from its elements) ends up in
        targets = set()
        for n in ast.walk(fn):
            if isinstance(n, ast.Assign) and len(n.targets) == 1 and self_attr(n.targets[0]) \
                    and self_attr(n.targets[0]) not in props:       # `self.prop = v` goes through the setter
                a = norm_slot(self_attr(n.targets[0]))
                targets.add(a)
                found = False
                for c in ast.walk(n.value):
                    if isinstance(c, ast.Call) and oracle.ctor(c) is not None:
                        ctors.setdefault(a, []).append(oracle.ctor(c))
                        found = True
                v = n.value
                empty = (isinstance(v, ast.Constant) and v.value is None) or \
                    (isinstance(v, (ast.List, ast.Tuple)) and not v.elts) or src(v) in ("list()", "[]")
                if not found and not empty:
                    opaque.add(a)          # the caller's own object (or something computed) is stored
            if isinstance(n, ast.Call) and isinstance(n.func, ast.Attribute) and n.func.attr == "append" \
                    and self_attr(n.func.value) and n.args:
                a = norm_slot(self_attr(n.func.value))
                for c in ast.walk(n.args[0]):
                    if isinstance(c, ast.Call) and oracle.ctor(c) is not None:
                        ctors.setdefault(a, []).append(oracle.ctor(c))
        if is_setter and len(targets) != 1:
            targets_for_param = set()
        else:
            targets_for_param = targets if is_setter else set()
        # list comprehension / loop building a local list later assigned: constructors anywhere in a setter whose
        # result can only end in its one target
        if is_setter and len(targets) == 1:
            a = list(targets)[0]
            for c in ast.walk(fn):
                if isinstance(c, ast.Call) and oracle.ctor(c) is not None:
                    d = oracle.ctor(c)
                    if d not in ctors.get(a, []):
                        ctors.setdefault(a, []).append(d)
        for n in ast.walk(fn):
            if isinstance(n, ast.Call) and isinstance(n.func, ast.Name) and n.func.id == "isinstance" and len(n.args) == 2:
                subj, klass = n.args
                attr = self_attr(subj)
                names = []
                if attr:
                    names = [norm_slot(attr)]
                elif isinstance(subj, ast.Name) and targets_for_param:
                    names = list(targets_for_param)      # the parameter or one of its elements
                if not names:
                    continue
                ks = klass.elts if isinstance(klass, ast.Tuple) else [klass]
                for k in ks:
                    try:
                        c = oracle.ev(k)
                    except Exception:
                        continue
                    if isinstance(c, type) and issubclass(c, oracle.primitives.Base):
                        try:
                            d = oracle.describe(c())
                        except Exception:
                            d = None
                        if d:
                            for a in names:
                                insts.setdefault(a, []).append(d)
    return ctors, insts, opaque


def resolve_written(wfields, rfields, cls_node, oracle):
    ctors, insts, opaque = class_facts(cls_node, oracle)
    out = []
    for f in wfields:
        prov = {}
        tag = kind = None
        if f.local_ctor:
            tag, kind = f.local_ctor
            prov = {"tag": "constructor in write()", "kind": "constructor in write()"}
        else:
            cs = sorted(set(ctors.get(f.slot, [])))
            if f.slot in opaque:
                cs = []                     # a setter also stores objects it did not build
            if len(cs) == 1:
                tag, kind = cs[0]
                prov = {"tag": "setter", "kind": "setter"}
            elif len({k for _, k in cs}) == 1 and cs:
                kind = cs[0][1]
                prov["kind"] = "setter"
            if tag is None and f.loop_attr is None and self_attr(f.expr) and f.slot not in opaque:
                d = oracle.default_attr(self_attr(f.expr))
                if d:
                    tag, kind = d
                    prov = {"tag": "default instance", "kind": "default instance"}
            if kind is None:
                ks = sorted({k for _, k in insts.get(f.slot, [])})
                if len(ks) == 1:
                    kind = ks[0]
                    prov["kind"] = "isinstance"
        if tag is None or kind is None:
            cands = [r for r in rfields if r.slot == f.slot and f.slot is not None]
            if len(cands) > 1 and not getattr(cands[0], "alt", None):
                # the attribute is filled by different fields under different versions (Template Attribute below 2.0,
                # Attributes from 2.0): the one with the writer's range, else the one whose range overlaps
                same = [r for r in cands if (r.vmin, r.vmax) == (f.vmin, f.vmax)]
                cands = same or [r for r in cands if r.vmin <= f.vmax and f.vmin <= r.vmax]
            if len(cands) > 1 and len({getattr(r, "alt", None) for r in cands}) == 1 and getattr(cands[0], "alt", None) \
                    and f.card in ("one", "opt"):
                # one of several classes chosen by a value: the writer emits whichever the attribute holds
                for r in cands:
                    g = Field(r.tag, r.kind, "opt", (f.vmin, f.vmax), f.line, slot=f.slot,
                              prov={"tag": "read-slot (alternatives)", "kind": "read-slot (alternatives)"})
                    out.append(g)
                continue
            if len(cands) != 1:
                raise Unrecognised("write(): tag / item type of what is written from %s cannot be determined (no "
                                   "constructor, no default, and read() fills %d fields of that attribute under KMIP "
                                   "%s..%s)" % (src(f.expr), len(cands), f.vmin, f.vmax), f.expr)
            r = cands[0]
            if tag is None:
                tag = r.tag
                prov["tag"] = "read-slot"
            if kind is None:
                kind = r.kind
                prov["kind"] = "read-slot"
        f.tag, f.kind, f.prov = tag, kind, prov
        out.append(f)
    return out


# ---------------------------------------------------------------------------------------------------------
# driver
# ---------------------------------------------------------------------------------------------------------

def core_files(repo):
    out = []
    base = os.path.join(repo, "kmip", "core")
    for root, dirs, files in os.walk(base):
        dirs.sort()
        if "tests" in root.split(os.sep):
            continue
        for f in sorted(files):
            if f.endswith(".py"):
                rel = os.path.relpath(os.path.join(root, f), repo)
                if rel not in SKIP_FILES:
                    out.append(rel)
    return out


def translate(repo):
    fresh_import(repo)
    primitives = importlib.import_module("kmip.core.primitives")
    enums = importlib.import_module("kmip.core.enums")
    tagnames = {m.value: m.name for m in enums.Tags}
    classes, unrec = [], []
    for rel in core_files(repo):
        tree = ast.parse(open(os.path.join(repo, rel)).read())
        modname = rel[:-3].replace(os.sep, ".")
        if modname.endswith(".__init__"):
            modname = modname[:-9]
        module = None
        for node in tree.body:
            if not isinstance(node, ast.ClassDef):
                continue
            ms = {m.name: m for m in node.body if isinstance(m, ast.FunctionDef)}
            if "read" not in ms or "write" not in ms:
                continue
            if module is None:
                module = importlib.import_module(modname)
            live = getattr(module, node.name, None)
            if not (isinstance(live, type) and issubclass(live, primitives.Struct)):
                continue
            entry = {"name": node.name, "file": rel, "read_line": ms["read"].lineno, "write_line": ms["write"].lineno}
            try:
                oracle = Oracle(module, live, primitives, enums)
                inst = oracle.default_instance()
                if inst is None or oracle.describe(inst) is None or oracle.describe(inst)[1] != "struct":
                    raise Unrecognised("the class cannot be instantiated without arguments to learn its tag", node)
                entry["tag"] = oracle.describe(inst)[0]
                norm = Normaliser(tree, node, oracle)
                try:
                    R = Reader(norm.method(ms["read"]), oracle, node)
                    rf = R.run()
                except Unrecognised as e:
                    e.reason = "read(): " + e.reason
                    if ".peek(" in src(ms["read"]):
                        e.reason += " [read() peeks the next tag itself and looks the child's class up by it: the " \
                                    "child may carry any tag the factory knows, no fixed field list describes that]"
                    raise
                try:
                    W = Writer(norm.method(ms["write"]), oracle, node)
                    wf = W.run()
                    wf = resolve_written(wf, rf, node, oracle)
                except Unrecognised as e:
                    if not e.reason.startswith("write()"):
                        e.reason = "write(): " + e.reason
                    raise
                if R.class_range != W.class_range:
                    R.note("read() supports KMIP %s..%s and write() %s..%s" % (R.class_range + W.class_range))
                entry.update(R=rf, W=wf, approx=R.approx + [a for a in W.approx if a not in R.approx],
                             approx_lines=R.approx_lines + [a for a in W.approx_lines if a not in R.approx_lines],
                             notes=R.notes + [n for n in W.notes if n not in R.notes] + norm.notes,
                             rmin=R.class_range[0], wmin=W.class_range[0], validate=R.validate)
                classes.append(entry)
            except Unrecognised as e:
                entry["reason"] = e.reason
                entry["line"] = e.line
                unrec.append(entry)
    names = [c["name"] for c in classes] + [u["name"] for u in unrec]
    dup = sorted({n for n in names if names.count(n) > 1})
    if dup:
        raise RuntimeError("class names are not unique: %s" % dup)
    return classes, unrec, tagnames


def lean_str(s):
    out = ['"']
    for ch in s:
        if ch == '"':
            out.append('\\"')
        elif ch == '\\':
            out.append('\\\\')
        elif ch == '\n':
            out.append('\\n')
        elif 32 <= ord(ch) < 127:
            out.append(ch)
        else:
            out.append('\\u{%x}' % ord(ch))
    out.append('"')
    return ''.join(out)


def lean_field(f, tagnames):
    parts = ["tag := 0x%06X" % f.tag, "kind := .%s" % f.kind, "card := .%s" % f.card]
    if f.vmin != 10:
        parts.append("vmin := %d" % f.vmin)
    if f.vmax != 20:
        parts.append("vmax := %d" % f.vmax)
    return "{ %s }" % ", ".join(parts)


def lean_schema(c, which, tagnames):
    fs = c[which]
    lines = []
    for i, f in enumerate(fs):
        sep = "," if i + 1 < len(fs) else "]⟩"
        lines.append("  %s%s  -- %s%s%s" % (lean_field(f, tagnames), sep, tagnames.get(f.tag, "?"),
                                            " -> " + f.slot if f.slot else "", ", at least one" if f.min1 else ""))
    head = "def %s.%s : Schema := ⟨%s, 0x%06X, [" % (c["name"], which.lower(), lean_str(c["name"]), c["tag"])
    if not fs:
        return head + "]⟩\n"
    return head + "\n" + "\n".join(lines) + "\n"


def lean_list(items, per_line=4, indent=2):
    if not items:
        return "[]"
    pad = " " * indent
    rows = [pad + ", ".join(items[i:i + per_line]) for i in range(0, len(items), per_line)]
    return "[\n" + ",\n".join(rows) + "]"


def generate(repo):
    classes, unrec, tagnames = translate(repo)
    o = []
    w = o.append
    w("/- GENERATED by harness/gen_schemas.py from the read()/write() methods of /repo's working tree. Do not edit.\n"
      "   `X.r` is what X.read() accepts, `X.w` what X.write() emits, each derived from its own method. -/\n")
    w("import KmipModel.Schema\nnamespace Kmip.SchemaGen\nopen Kmip.Schema\n\n")
    for c in classes:
        w("/-- %s (source lines of every field: schemas_report.json) -/\n" % c["file"])
        w(lean_schema(c, "R", tagnames))
        w(lean_schema(c, "W", tagnames))
        w("\n")
    w("def genNames : List String := %s\n\n" % lean_list([lean_str(c["name"]) for c in classes]))
    w("def genRead : List Schema := %s\n\n" % lean_list([c["name"] + ".r" for c in classes]))
    w("def genWrite : List Schema := %s\n\n" % lean_list([c["name"] + ".w" for c in classes]))
    w("/-- attribute each field is stored in by read() / taken from by write() (\"?\" = not determined) -/\n")
    w("def genReadSlots : List (List String) := %s\n\n" % lean_list(
        ["[%s]" % ", ".join(lean_str(f.slot or "?") for f in c["R"]) for c in classes], 1))
    w("def genWriteSlots : List (List String) := %s\n\n" % lean_list(
        ["[%s]" % ", ".join(lean_str(f.slot or "?") for f in c["W"]) for c in classes], 1))
    w("/-- (class, tag) of repeated fields of which the reader / the writer requires at least one item -/\n")
    w("def genReadMin1 : List (String × Nat) := %s\n\n" % lean_list(
        ["(%s, 0x%06X)" % (lean_str(c["name"]), f.tag) for c in classes for f in c["R"] if f.min1], 2))
    w("def genWriteMin1 : List (String × Nat) := %s\n\n" % lean_list(
        ["(%s, 0x%06X)" % (lean_str(c["name"]), f.tag) for c in classes for f in c["W"] if f.min1], 2))
    w("/-- first version under which read() / write() of the class do not raise VersionNotSupported -/\n")
    w("def genReadClassMin : List (String × Nat) := %s\n\n" % lean_list(
        ["(%s, %d)" % (lean_str(c["name"]), c["rmin"]) for c in classes if c["rmin"] != 10], 3))
    w("def genWriteClassMin : List (String × Nat) := %s\n\n" % lean_list(
        ["(%s, %d)" % (lean_str(c["name"]), c["wmin"]) for c in classes if c["wmin"] != 10], 3))
    w("/-- classes whose Lean reader is MORE LENIENT than read() (reasons in genApproxWhy) -/\n")
    w("def genApprox : List String := %s\n\n" % lean_list([lean_str(c["name"]) for c in classes if c["approx"]]))
    w("def genApproxWhy : List (String × String) := %s\n\n" % lean_list(
        ["(%s, %s)" % (lean_str(c["name"]), lean_str(a)) for c in classes for a in c["approx"]], 1))
    w("/-- classes whose version is taken from their own header on read -/\n")
    w("def genVersionFromHeader : List String := %s\n\n" % lean_list(
        [lean_str(c["name"]) for c in classes if any(n.startswith("version-from-own-header") for n in c["notes"])]))
    w("/-- classes left out: read()/write() contain a construct the translator does not classify -/\n")
    w("def genUnrecognised : List String := %s\n\n" % lean_list([lean_str(u["name"]) for u in unrec]))
    w("def genUnrecognisedWhy : List (String × String) := %s\n\n" % lean_list(
        ["(%s, %s)" % (lean_str(u["name"]), lean_str("%s: %s" % (u["file"], re.sub(r"\s*\((?:defined at )?line \d+\)", "", u["reason"])))) for u in unrec], 1))
    w("end Kmip.SchemaGen\n")
    prov = {}
    for c in classes:
        for f in c["W"]:
            for k in ("tag", "kind"):
                key = "%s:%s" % (k, f.prov.get(k))
                prov[key] = prov.get(key, 0) + 1
    report = {
        "repo": os.path.realpath(repo),
        "translated": len(classes),
        "approximated": len([c for c in classes if c["approx"]]),
        "exact": len([c for c in classes if not c["approx"]]),
        "unrecognised": len(unrec),
        "fields_read": sum(len(c["R"]) for c in classes),
        "fields_write": sum(len(c["W"]) for c in classes),
        "write_tag_kind_provenance": dict(sorted(prov.items())),
        "version_gates": [{"class": c["name"], "tag": "0x%06X" % f.tag, "tag_name": tagnames.get(f.tag),
                           "vmin": f.vmin, "vmax": f.vmax} for c in classes for f in c["R"]
                          if (f.vmin, f.vmax) != (10, 20)],
        "classes": [{"name": c["name"], "file": c["file"], "tag": "0x%06X" % c["tag"],
                     "read_line": c["read_line"], "write_line": c["write_line"],
                     "read_class_min": c["rmin"], "write_class_min": c["wmin"], "calls_validate": c["validate"],
                     "approx": c["approx_lines"], "notes": c["notes"],
                     "R": [f.as_json(tagnames) for f in c["R"]], "W": [f.as_json(tagnames) for f in c["W"]]}
                    for c in classes],
        "unrecognised_classes": [{"name": u["name"], "file": u["file"], "line": u["line"], "reason": u["reason"]}
                                 for u in unrec],
    }
    return "".join(o), json.dumps(report, indent=1, sort_keys=True) + "\n"


def write_if_changed(path, text):
    old = open(path).read() if os.path.exists(path) else None
    if old == text:
        return False
    tmp = path + ".tmp%d" % os.getpid()
    with open(tmp, "w") as f:
        f.write(text)
    os.replace(tmp, path)
    return True


def write_all(repo, outdir):
    lean, report = generate(repo)
    os.makedirs(outdir, exist_ok=True)
    changed = write_if_changed(os.path.join(outdir, "SchemasGen.lean"), lean)
    write_if_changed(os.path.join(outdir, "schemas_report.json"), report)
    return changed


if __name__ == "__main__":
    repo = sys.argv[1] if len(sys.argv) > 1 else os.environ.get("VERIF_REPO", "/repo")
    out = os.path.join(os.path.dirname(os.path.dirname(os.path.abspath(__file__))), "lean", "KmipModel", "Gen")
    if len(sys.argv) > 2:
        out = sys.argv[2]
    print("changed" if write_all(os.path.abspath(repo), out) else "unchanged")
