"""
Translator: re-extracts everything in /repo that is *data* and writes it as
Lean definitions to lean/KmipModel/Gen/Tables.lean.  Run on every check.

Sources (live modules imported from the working tree + a few `ast` queries):
  * kmip.core.enums                   : enum members used by the models
  * kmip.core.policy.policies         : built-in `default` / `public` policies
  * kmip.services.server.policy       : attribute rule table (AttributePolicy)
  * kmip.services.server.engine       : supported versions, per-operation minimum
                                        version (decorator closure), dispatch table,
                                        Query answer per version, `@_synchronize`d
                                        methods, query()/commit() sites, logger sites
  * kmip.services.server.monitor      : reserved policy names
The translator only dumps values; it interprets nothing.
"""
import ast
import importlib
import io
import os
import sys


def lean_str(s):
    out = ['"']
    for ch in s:
        if ch == '"':
            out.append('\\"')
        elif ch == '\\':
            out.append('\\\\')
        elif ch == '\n':
            out.append('\\n')
        elif 32 <= ord(ch) < 127:
            out.append(ch)
        else:
            out.append('\\u{%x}' % ord(ch))
    out.append('"')
    return ''.join(out)


def lean_list(items, per_line=6, indent=2):
    if not items:
        return "[]"
    pad = " " * indent
    rows = []
    for i in range(0, len(items), per_line):
        rows.append(pad + ", ".join(items[i:i + per_line]))
    return "[\n" + ",\n".join(rows) + "]"


def lean_bool(b):
    return "true" if b else "false"


def fresh_import(repo):
    """Import kmip from `repo` (the working tree) freshly."""
    for k in [k for k in sys.modules if k == "kmip" or k.startswith("kmip.")]:
        del sys.modules[k]
    if repo not in sys.path:
        sys.path.insert(0, repo)
    import warnings
    warnings.filterwarnings("ignore")
    import kmip  # noqa
    root = os.path.dirname(os.path.dirname(os.path.abspath(kmip.__file__)))
    if os.path.realpath(root) != os.path.realpath(repo):
        raise RuntimeError("kmip imported from %s, expected %s" % (root, repo))
    return kmip


def perm_name(p, enums):
    if p == enums.Policy.ALLOW_ALL:
        return ".allowAll"
    if p == enums.Policy.ALLOW_OWNER:
        return ".allowOwner"
    if p == enums.Policy.DISALLOW_ALL:
        return ".disallowAll"
    return ".other"


def objtable(tbl, enums):
    rows = []
    for ot, ops in tbl.items():
        ops_l = ["(%d, %s)" % (op.value, perm_name(p, enums)) for op, p in ops.items()]
        rows.append("(%d, %s)" % (ot.value, lean_list(ops_l, 8, 6)))
    return lean_list(rows, 1, 4)


def bundle(b, enums):
    pre = b.get('preset')
    grp = b.get('groups')
    ps = "none" if pre is None else "some " + objtable(pre, enums)
    if grp is None:
        gs = "none"
    else:
        gs = "some " + lean_list(["(%s, %s)" % (lean_str(g), objtable(t, enums)) for g, t in grp.items()], 1, 4)
    return "Bundle.mk (%s)\n    (%s)" % (ps, gs)


def version_num(v):
    return v.major * 10 + v.minor


def engine_ast_facts(repo):
    path = os.path.join(repo, "kmip/services/server/engine.py")
    src = open(path).read()
    tree = ast.parse(src)
    cls = [n for n in tree.body if isinstance(n, ast.ClassDef) and n.name == "KmipEngine"][0]
    methods = {}
    for fn in cls.body:
        if not isinstance(fn, ast.FunctionDef):
            continue
        decos = []
        for d in fn.decorator_list:
            if isinstance(d, ast.Name):
                decos.append(d.id)
            elif isinstance(d, ast.Call) and isinstance(d.func, ast.Name):
                arg = d.args[0].value if d.args and isinstance(d.args[0], ast.Constant) else None
                decos.append("%s(%s)" % (d.func.id, arg))
        writes, calls, queries, commits = set(), set(), 0, 0
        for n in ast.walk(fn):
            if isinstance(n, (ast.Assign, ast.AugAssign, ast.AnnAssign)):
                tgts = n.targets if isinstance(n, ast.Assign) else [n.target]
                for t in tgts:
                    for tt in ast.walk(t):
                        if isinstance(tt, ast.Attribute) and isinstance(tt.value, ast.Name) \
                                and tt.value.id == "self" and isinstance(tt.ctx, ast.Store):
                            writes.add(tt.attr)
            if isinstance(n, ast.Call) and isinstance(n.func, ast.Attribute):
                f = n.func
                if isinstance(f.value, ast.Name) and f.value.id == "self":
                    calls.add(f.attr)
                if f.attr == "query" and isinstance(f.value, ast.Attribute) and f.value.attr == "_data_session":
                    queries += 1
                if f.attr == "commit" and isinstance(f.value, ast.Attribute) and f.value.attr == "_data_session":
                    commits += 1
            if isinstance(n, ast.With):
                for it in n.items:
                    if it.optional_vars is not None:
                        pass
        methods[fn.name] = dict(decos=decos, writes=sorted(writes), calls=sorted(calls),
                                queries=queries, commits=commits, lineno=fn.lineno)
    return methods


def session_engine_calls(repo):
    """engine methods called from session.py / server.py (self._engine.X(...))"""
    names = set()
    for rel in ("kmip/services/server/session.py", "kmip/services/server/server.py"):
        tree = ast.parse(open(os.path.join(repo, rel)).read())
        for n in ast.walk(tree):
            if isinstance(n, ast.Call) and isinstance(n.func, ast.Attribute):
                v = n.func.value
                if isinstance(v, ast.Attribute) and v.attr in ("_engine",):
                    names.add(n.func.attr)
    return sorted(names)


LOG_LEVELS = {"debug": 10, "info": 20, "warning": 30, "error": 40, "exception": 40, "critical": 50}


# provenance classes of logged values; codes >= 10 may carry secrets
LOG_CLASS_CODE = {"const": 0, "id": 1, "enumname": 2, "time": 3, "exception": 4, "config": 5, "tainted": 10, "unknown": 11}


def classify_log_arg(node):
    """Provenance class of one formatted argument of a logger call (conservative)."""
    src = ast.unparse(node)
    s = src.replace(" ", "")
    config_exact = {"filenames", "self.host", "conf.DEFAULT_TIMEOUT", "path", "length", "public_exponent",
                    "self.config.settings.get('hostname')", "self.config.settings.get('port')", "address[0]",
                    "address[1]", "session_name", "self._max_buffer_size", "timeout", "host", "self.port"}
    if s in config_exact:
        return "config"
    safe_exact = {
        "self.name", "name", "plugin_name", "f", "p", "policy", "then", "now", "operation",
        "attribute_name", "encryption_key_uuid", "unique_identifier", "protocol_version",
        "self._protocol_version", "header.protocol_version", "len(existing_objects)",
        "self._max_response_size", "len(response_data)", "len(shared_ciphers)", "date_type",
        "client_identity[0]", "client_identity", "object_type", "group", "policy_name", "uid",
        "self.config.settings.get('policy_path')", "self._session_id", "address", "port",
    }
    if s in safe_exact:
        return "id"
    if isinstance(node, ast.Constant):
        return "const"
    if s.endswith(".unique_identifier") or "unique_identifier" in s and "value" not in s.split("unique_identifier")[-1]:
        return "id"
    if s.startswith("''.join([x.capitalize()") or "_get_enum_string" in s or s.endswith(".name"):
        return "enumname"
    if s.startswith("time.strftime") or s.startswith("time.asctime"):
        return "time"
    if s in ("e", "err", "exc") or s.startswith("str(e"):
        return "exception"
    if "hexlify" in s or s in ("message", "data", "request_data", "response_data", "partial_message"):
        return "tainted:encoding"
    if ".value" in s or "key" in s.lower() and "uuid" not in s.lower() and "identifier" not in s.lower():
        return "tainted:value"
    if "repr(" in s or s in ("managed_object", "obj", "secret", "payload"):
        return "tainted:repr"
    if "password" in s.lower() or "credential" in s.lower():
        return "tainted:credential"
    return "unknown:" + s[:40]


def logger_sites(repo):
    """Every logger call in the package: (file, line, level, [arg classes])."""
    sites = []
    for root, _, files in os.walk(os.path.join(repo, "kmip")):
        if "/tests" in root or "/demos" in root:
            continue
        for fn in files:
            if not fn.endswith(".py"):
                continue
            path = os.path.join(root, fn)
            rel = os.path.relpath(path, repo)
            try:
                tree = ast.parse(open(path).read())
            except SyntaxError:
                continue
            for n in ast.walk(tree):
                if not (isinstance(n, ast.Call) and isinstance(n.func, ast.Attribute)):
                    continue
                if n.func.attr not in LOG_LEVELS:
                    continue
                recv = ast.unparse(n.func.value)
                if "logger" not in recv.lower() and "log" != recv:
                    continue
                level = LOG_LEVELS[n.func.attr]
                classes = []
                for a in n.args:
                    # "...".format(x, y) / "..." % x / plain expr
                    if isinstance(a, ast.Call) and isinstance(a.func, ast.Attribute) and a.func.attr == "format":
                        for fa in a.args:
                            classes.append(classify_log_arg(fa))
                        for kw in a.keywords:
                            classes.append(classify_log_arg(kw.value))
                    elif isinstance(a, ast.BinOp) and isinstance(a.op, ast.Mod):
                        rhs = a.right
                        elts = rhs.elts if isinstance(rhs, ast.Tuple) else [rhs]
                        for fa in elts:
                            classes.append(classify_log_arg(fa))
                    elif isinstance(a, ast.Constant):
                        pass
                    elif isinstance(a, ast.JoinedStr):
                        for v in a.values:
                            if isinstance(v, ast.FormattedValue):
                                classes.append(classify_log_arg(v.value))
                    else:
                        classes.append(classify_log_arg(a))
                sites.append((rel, n.lineno, n.func.attr, level, classes))
    return sorted(sites)


def generate(repo):
    fresh_import(repo)
    enums = importlib.import_module("kmip.core.enums")
    core_policy = importlib.import_module("kmip.core.policy")
    contents = importlib.import_module("kmip.core.messages.contents")
    srv_policy = importlib.import_module("kmip.services.server.policy")
    engine_mod = importlib.import_module("kmip.services.server.engine")
    monitor_mod_src = open(os.path.join(repo, "kmip/services/server/monitor.py")).read()

    o = io.StringIO()
    w = o.write
    w("/- GENERATED by harness/gen_tables.py from /repo's working tree. Do not edit. -/\n")
    w("import KmipModel.Policy\nimport KmipModel.TableTypes\nnamespace Kmip.Gen\nopen Kmip\n\n")

    # --- enums ----------------------------------------------------------
    def dump_enum(name, E):
        rows = ["(%s, %d)" % (lean_str(m.name), m.value) for m in E if isinstance(m.value, int)]
        w("def enum%s : List (String × Nat) := %s\n\n" % (name, lean_list(rows, 3)))
    for nm in ("Operation", "ObjectType", "Policy", "State", "ResultReason", "ResultStatus",
               "CryptographicUsageMask", "RevocationReasonCode", "BatchErrorContinuationOption",
               "KeyFormatType", "CryptographicAlgorithm", "BlockCipherMode", "PaddingMethod",
               "HashingAlgorithm", "DigitalSignatureAlgorithm", "DerivationMethod", "Types", "QueryFunction"):
        dump_enum(nm, getattr(enums, nm))
    rows = ["(%s, %d)" % (lean_str(m.name), m.value) for m in enums.Tags]
    w("def enumTags : List (String × Nat) := %s\n\n" % lean_list(rows, 3))

    # --- built-in policies ---------------------------------------------
    rows = ["(%s, %s)" % (lean_str(n), bundle(b, enums)) for n, b in core_policy.policies.items()]
    w("def builtinPolicies : Policies := %s\n\n" % lean_list(rows, 1))

    # --- reserved names (monitor) --------------------------------------
    tree = ast.parse(monitor_mod_src)
    reserved = None
    for n in ast.walk(tree):
        if isinstance(n, ast.Assign) and any(isinstance(t, ast.Attribute) and t.attr == "reserved_policies"
                                             for t in n.targets):
            reserved = ast.literal_eval(n.value)
    w("def reservedPolicies : List String := %s\n\n" % lean_list([lean_str(s) for s in (reserved or [])]))

    # --- attribute rules -----------------------------------------------
    ap = srv_policy.AttributePolicy(contents.ProtocolVersion(2, 0))
    rows = []
    for name, rs in ap._attribute_rule_sets.items():
        rows.append("{ name := %s, alwaysHasValue := %s, modifiableByServer := %s, modifiableByClient := %s,\n"
                    "    deletableByClient := %s, multivalued := %s, appliesTo := %s,\n"
                    "    versionAdded := %d, versionDeprecated := %s }" % (
                        lean_str(name), lean_bool(rs.always_has_value), lean_bool(rs.modifiable_by_server),
                        lean_bool(rs.modifiable_by_client), lean_bool(rs.deletable_by_client),
                        lean_bool(rs.multiple_instances_permitted),
                        "[" + ", ".join(str(t.value) for t in rs.applies_to_object_types) + "]",
                        version_num(rs.version_added),
                        "none" if not rs.version_deprecated else "some %d" % version_num(rs.version_deprecated)))
    w("def attrRules : List AttrRule := %s\n\n" % lean_list(rows, 1))

    # --- engine: versions, dispatch, min versions, Query ----------------
    import tempfile
    import copy as _copy
    import logging
    logging.disable(logging.CRITICAL)
    with tempfile.TemporaryDirectory() as td:
        eng = engine_mod.KmipEngine(policies=_copy.deepcopy(core_policy.policies),
                                    database_path=os.path.join(td, "t.db"))
        vers = [version_num(v) for v in eng._protocol_versions]
        w("def supportedVersions : List Nat := %s\n\n" % lean_list([str(v) for v in vers]))
        w("def defaultVersion : Nat := %d\n\n" % version_num(eng.default_protocol_version))
        # dispatch + min version: probe _process_operation under each version with payload None
        disp = []
        for op in enums.Operation:
            minv = None
            dispatched = True
            for v in sorted(eng._protocol_versions, key=version_num):
                eng._protocol_version = v
                try:
                    eng._process_operation(op, None)
                except Exception as e:  # noqa
                    nm = type(e).__name__
                    msg = str(e)
                    if nm == "OperationNotSupported" and "is not supported by the server" in msg:
                        dispatched = False
                        break
                    if nm == "OperationNotSupported" and "is not supported by KMIP" in msg:
                        continue
                    minv = version_num(v)
                    break
                else:
                    minv = version_num(v)
                    break
            if dispatched:
                disp.append("(%d, %d)" % (op.value, minv if minv is not None else 999))
        w("/-- dispatched operation ↦ minimum protocol version (10·major+minor) -/\n")
        w("def opMinVersion : List (Nat × Nat) := %s\n\n" % lean_list(disp))
        # Query answers
        payloads = importlib.import_module("kmip.core.messages.payloads")
        rows = []
        for v in eng._protocol_versions:
            eng._protocol_version = v
            r = eng._process_query(payloads.QueryRequestPayload(
                query_functions=[enums.QueryFunction.QUERY_OPERATIONS]))
            rows.append("(%d, [%s])" % (version_num(v), ", ".join(str(x.value) for x in r.operations)))
        w("def queryOperations : List (Nat × List Nat) := %s\n\n" % lean_list(rows, 1))
        eng._protocol_version = contents.ProtocolVersion(1, 2)
        r = eng._process_discover_versions(payloads.DiscoverVersionsRequestPayload())
        w("def discoverAll : List Nat := %s\n\n" % lean_list([str(version_num(x)) for x in r.protocol_versions]))
        eng._data_store.dispose()
    logging.disable(logging.NOTSET)

    # --- cryptography engine look-up tables ---------------------------------
    ce_mod = importlib.import_module("kmip.services.server.crypto.engine")
    ce = ce_mod.CryptographyEngine()

    def codes(x):
        return "[" + ", ".join(str(ord(ch)) for ch in x) + "]"
    rows = []
    for k, cls in ce._symmetric_key_algorithms.items():
        bs = getattr(cls, "block_size", 0) or 0
        rows.append("(%d, %s, %d)" % (k.value, lean_str(cls.__name__), bs))
    w("/-- symmetric algorithm ↦ (backend class, block size in bits; 0 = stream cipher) -/\n")
    w("def cryptoSymAlgs : List (Nat × String × Nat) := %s\n\n" % lean_list(rows, 2))
    rows = []
    for k, cls in ce._modes.items():
        uses_iv = hasattr(cls, "initialization_vector") or hasattr(cls, "nonce")
        rows.append("(%d, %s, %s)" % (k.value, lean_str(cls.__name__), lean_bool(uses_iv)))
    w("/-- block cipher mode ↦ (backend class, takes an IV/nonce) -/\n")
    w("def cryptoModes : List (Nat × String × Bool) := %s\n\n" % lean_list(rows, 3))
    w("def cryptoSymPadding : List (Nat × String) := %s\n\n" % lean_list(
        ["(%d, %s)" % (k.value, lean_str(c.__name__)) for k, c in ce._symmetric_padding_methods.items()], 3))
    w("def cryptoAsymPadding : List (Nat × String) := %s\n\n" % lean_list(
        ["(%d, %s)" % (k.value, lean_str(c.__name__)) for k, c in ce._asymmetric_padding_methods.items()], 3))
    w("def cryptoNoPaddingModes : List Nat := %s\n\n" % lean_list([str(k.value) for k in ce._no_padding_needed]))
    w("def cryptoNoModeAlgs : List Nat := %s\n\n" % lean_list([str(k.value) for k in ce._no_mode_needed]))
    w("/-- (enum member name, backend hash name, digest bits) as character codes, for name/hash agreement checks -/\n")
    w("def cryptoEncHashes : List (Nat × List Nat × List Nat × Nat) := %s\n\n" % lean_list(
        ["(%d, %s, %s, %d)" % (k.value, codes(k.name.replace("_", "")), codes(c.name.upper().replace("-", "")),
                              c.digest_size * 8)
         for k, c in ce._encryption_hash_algorithms.items()], 1))
    w("def cryptoMacHashes : List (Nat × List Nat × List Nat × Nat) := %s\n\n" % lean_list(
        ["(%d, %s, %s, %d)" % (k.value, codes(k.name.replace("_", "")), codes(c.name.upper().replace("-", "")),
                              c.digest_size * 8)
         for k, c in ce._hash_algorithms.items()], 1))
    w("/-- digital signature algorithm ↦ (member name, hash name, cryptographic algorithm) -/\n")
    w("def cryptoDsa : List (Nat × List Nat × List Nat × Nat) := %s\n\n" % lean_list(
        ["(%d, %s, %s, %d)" % (k.value, codes(k.name.replace("_", "")), codes(h.name.upper().replace("-", "")), a.value)
         for k, (h, a) in ce._digital_signature_algorithms.items()], 1))

    # --- ast facts --------------------------------------------------------
    meths = engine_ast_facts(repo)
    rows = []
    for name, m in meths.items():
        mv = [d for d in m["decos"] if d.startswith("_kmip_version_supported")]
        rows.append("{ name := %s, synchronized := %s, minVersionDeco := %s,\n    writes := %s, calls := %s, queries := %d, commits := %d }" % (
            lean_str(name), lean_bool("_synchronize" in m["decos"]),
            "none" if not mv else "some " + lean_str(mv[0][len("_kmip_version_supported("):-1]),
            "[" + ", ".join(lean_str(x) for x in m["writes"]) + "]",
            "[" + ", ".join(lean_str(x) for x in m["calls"]) + "]", m["queries"], m["commits"]))
    w("def engineMethods : List EngineMethod := %s\n\n" % lean_list(rows, 1))
    w("def engineEntryPoints : List String := %s\n\n" % lean_list([lean_str(s) for s in session_engine_calls(repo)]))

    # --- logger sites -----------------------------------------------------
    rows = []
    for rel, line, meth, level, classes in logger_sites(repo):
        rows.append("{ file := %s, line := %d, level := %d, args := [%s], argCodes := [%s] }" % (
            lean_str(rel), line, level, ", ".join(lean_str(c) for c in classes),
            ", ".join(str(LOG_CLASS_CODE.get(c.split(":")[0], 11)) for c in classes)))
    w("def logSites : List LogSite := %s\n\n" % lean_list(rows, 1))

    w("end Kmip.Gen\n")
    return o.getvalue()


def write_all(repo, outdir):
    text = generate(repo)
    os.makedirs(outdir, exist_ok=True)
    path = os.path.join(outdir, "Tables.lean")
    old = open(path).read() if os.path.exists(path) else None
    if old != text:
        tmp = path + ".tmp%d" % os.getpid()
        with open(tmp, "w") as f:
            f.write(text)
        os.replace(tmp, path)
        return True
    return False


if __name__ == "__main__":
    repo = sys.argv[1] if len(sys.argv) > 1 else "/repo"
    out = os.path.join(os.path.dirname(os.path.dirname(os.path.abspath(__file__))), "lean", "KmipModel", "Gen")
    print("changed" if write_all(repo, out) else "unchanged")
