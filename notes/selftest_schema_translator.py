"""
Mutation self-test of the schema translator (NOT run by the checks; run by hand):

    /venv/bin/python notes/selftest_schema_translator.py

For each edit of a scratch COPY of /repo's kmip/ (never /repo itself): regenerate lean/KmipModel/Gen/SchemasGen.lean
from the copy with harness/gen_schemas.py, rebuild KmipModel.Props.C01Gen and record which theorems stop checking.
Afterwards the tables are regenerated from /repo and the target is rebuilt (must succeed).  The build lock of
harness/vcheck.py is held throughout, so a check running at the same time waits instead of seeing a mutant table.

  (a) swap the order of two field writes in one payload's write()        CheckRequestPayload.write
  (b) drop an `if kmip_version >= KMIP_2_0` guard in one read()           RequestBatchItem.read (Ephemeral)
  (c) make a mandatory read optional                                     CreateResponsePayload.read (unique identifier)
  (d) read() stores a field in another field's attribute                  CapabilityInformation.read (the defect /repo 4f93fbb repaired)
  (e) drop a field from write() only                                      ResponseHeader.write (server correlation value, /repo 15c47ac)
  (f) harmless rewrite: rename a local variable / reorder two pure statements in a read()   -> everything still checks
"""
import fcntl
import os
import re
import shutil
import subprocess
import sys
import tempfile
import time

VERIF = os.path.dirname(os.path.dirname(os.path.abspath(__file__)))
LEAN = os.path.join(VERIF, "lean")
REPO = os.environ.get("VERIF_REPO", "/repo")
PY = sys.executable


def edit(path, old, new, count=1):
    s = open(path).read()
    assert s.count(old) >= 1, "pattern not found in %s: %r" % (path, old[:60])
    s = s.replace(old, new, count)
    open(path, "w").write(s)


def mut_a(root):
    p = os.path.join(root, "kmip/core/messages/payloads/check.py")
    s = open(p).read()
    i = s.index("def write", s.index("class CheckRequestPayload"))
    a = """        if self._usage_limits_count:
            self._usage_limits_count.write(
                local_stream,
                kmip_version=kmip_version
            )
"""
    b = """        if self._cryptographic_usage_mask:
            self._cryptographic_usage_mask.write(
                local_stream,
                kmip_version=kmip_version
            )
"""
    j = s.index(a + b, i)
    s = s[:j] + b + a + s[j + len(a + b):]
    open(p, "w").write(s)


def mut_b(root):
    p = os.path.join(root, "kmip/core/messages/messages.py")
    edit(p, """        if kmip_version >= enums.KMIPVersion.KMIP_2_0:
            if self.is_tag_next(enums.Tags.EPHEMERAL, tstream):
                ephemeral = primitives.Boolean(tag=enums.Tags.EPHEMERAL)
                ephemeral.read(tstream, kmip_version=kmip_version)
                self._ephemeral = ephemeral
""", """        if self.is_tag_next(enums.Tags.EPHEMERAL, tstream):
            ephemeral = primitives.Boolean(tag=enums.Tags.EPHEMERAL)
            ephemeral.read(tstream, kmip_version=kmip_version)
            self._ephemeral = ephemeral
""")


def mut_c(root):
    p = os.path.join(root, "kmip/core/messages/payloads/create.py")
    s = open(p).read()
    i = s.index("class CreateResponsePayload")
    m = re.search(r"        else:\n            raise exceptions\.InvalidKmipEncoding\(\n                \"The Create response payload "
                  r"encoding is missing the unique \"\n                \"identifier\.\"\n            \)\n", s[i:])
    assert m, "mandatory unique identifier of CreateResponsePayload.read not found"
    s = s[:i + m.start()] + s[i + m.end():]
    open(p, "w").write(s)


def mut_d(root):
    p = os.path.join(root, "kmip/core/objects.py")
    edit(p, "                self._batch_undo_capability = batch_undo_capability\n",
         "                self._batch_continue_capability = batch_undo_capability\n")


def mut_e(root):
    p = os.path.join(root, "kmip/core/messages/messages.py")
    s = open(p).read()
    i = s.index("def write", s.index("class ResponseHeader"))
    m = re.search(r"        if self\.server_correlation_value is not None:\n            self\.server_correlation_value\.write\(\n"
                  r"                tstream,\n                kmip_version=kmip_version\n            \)\n", s[i:])
    assert m, "server correlation value write not found"
    s = s[:i + m.start()] + s[i + m.end():]
    open(p, "w").write(s)


def mut_f(root):
    p = os.path.join(root, "kmip/core/messages/payloads/locate.py")
    s = open(p).read()
    i = s.index("class LocateResponsePayload")
    seg = s[i:]
    a = seg.index("            unique_identifier = primitives.TextString(")
    b = seg.index("self._unique_identifiers.append(unique_identifier)", a) + len("self._unique_identifiers.append(unique_identifier)")
    seg = seg[:a] + seg[a:b].replace("unique_identifier", "uid_item").replace("self._uid_items", "self._unique_identifiers") + seg[b:]
    assert "uid_item.read(" in seg
    open(p, "w").write(s[:i] + seg)
    p = os.path.join(root, "kmip/core/messages/payloads/get_attributes.py")
    edit(p, "        names = list()\n        if kmip_version < enums.KMIPVersion.KMIP_2_0:\n            while self.is_tag_next(enums.Tags.ATTRIBUTE_NAME",
         "        names = []\n        if kmip_version < enums.KMIPVersion.KMIP_2_0:\n            while self.is_tag_next(enums.Tags.ATTRIBUTE_NAME")
    # a presence test written the other way, and a new local used only for an error message
    p = os.path.join(root, "kmip/core/messages/payloads/activate.py")
    edit(p, "        if self.unique_identifier is not None:\n            self.unique_identifier.write(tstream",
         "        if self.unique_identifier:\n            self.unique_identifier.write(tstream")
    p = os.path.join(root, "kmip/core/messages/payloads/decrypt.py")
    edit(p, "            raise ValueError(\"invalid payload missing the data attribute\")",
         "            what = \"data\"\n            raise ValueError(\"invalid payload missing the %s attribute\" % what)")


MUTANTS = [("a: swap two field writes (CheckRequestPayload.write)", mut_a, True),
           ("b: drop the KMIP 2.0 guard around Ephemeral (RequestBatchItem.read)", mut_b, True),
           ("c: mandatory unique identifier made optional (CreateResponsePayload.read)", mut_c, True),
           ("d: read() stores Batch Undo Capability in the Batch Continue attribute (CapabilityInformation.read)", mut_d, True),
           ("e: write() forgets the server correlation value (ResponseHeader.write)", mut_e, True),
           ("f: harmless rewrites (local renamed, list() -> [], `is not None` dropped, message built in a local)", mut_f, False)]


def theorems_at(lines_failed):
    src = open(os.path.join(LEAN, "KmipModel/Props/C01Gen.lean")).read().split("\n")
    names = []
    for ln in lines_failed:
        k = ln - 1
        while k >= 0 and not re.match(r"\s*(theorem|example|def)\b", src[k]):
            k -= 1
        m = re.match(r"\s*(theorem|def)\s+(\S+)", src[k]) if k >= 0 else None
        names.append(m.group(2) if m else "example@%d" % (k + 1))
    out = []
    for n in names:
        if n not in out:
            out.append(n)
    return out


def regen_and_build(root):
    t0 = time.time()
    g = subprocess.run([PY, os.path.join(VERIF, "harness", "gen_schemas.py"), root], capture_output=True, text=True)
    if g.returncode != 0:
        return {"translator": "FAILED", "stderr": g.stderr[-600:]}
    b = subprocess.run(["lake", "build", "KmipModel.Props.C01Gen"], cwd=LEAN, capture_output=True, text=True)
    out = b.stdout + b.stderr
    failed = [int(m.group(1)) for m in re.finditer(r"error: KmipModel/Props/C01Gen\.lean:(\d+):", out)]
    other = [ln for ln in out.split("\n") if ln.startswith("error:") and "C01Gen.lean" not in ln
             and "Lean exited" not in ln and "build failed" not in ln]
    first = [ln[:160] for ln in out.split("\n") if ln.startswith("error: KmipModel/Props/C01Gen.lean")][:2]
    return {"build_ok": b.returncode == 0, "broken": theorems_at(failed), "other_errors": other[:3],
            "first_errors": first if any(n.startswith("example@0") for n in theorems_at(failed)) else [],
            "wall_s": round(time.time() - t0, 1)}


def main():
    os.makedirs(os.path.join(LEAN, ".lake"), exist_ok=True)
    lock = open(os.path.join(LEAN, ".lake", "verif.build.lock"), "w")
    fcntl.flock(lock, fcntl.LOCK_EX)
    results = []
    ok = True
    try:
        base = regen_and_build(REPO)
        print("baseline (unchanged /repo):", base)
        assert base.get("build_ok"), "the unchanged tree must build"
        for name, fn, must_break in MUTANTS:
            tmp = tempfile.mkdtemp(prefix="schema_selftest_")
            try:
                shutil.copytree(os.path.join(REPO, "kmip"), os.path.join(tmp, "kmip"),
                                ignore=shutil.ignore_patterns("__pycache__", "tests"))
                fn(tmp)
                r = regen_and_build(tmp)
            finally:
                shutil.rmtree(tmp, ignore_errors=True)
            caught = not r.get("build_ok", False)
            verdict = "CAUGHT" if caught and must_break else "quiet" if not caught and not must_break else \
                "MISSED" if must_break else "FALSE ALARM"
            ok = ok and verdict in ("CAUGHT", "quiet")
            print("%-100s %s  broken=%s  (%ss)" % (name, verdict, r.get("broken"), r.get("wall_s")))
            results.append((name, verdict, r))
    finally:
        back = regen_and_build(REPO)
        print("restored from /repo:", back)
        fcntl.flock(lock, fcntl.LOCK_UN)
        assert back.get("build_ok"), "restoring the tables from /repo failed"
    return 0 if ok else 1


if __name__ == "__main__":
    sys.exit(main())
