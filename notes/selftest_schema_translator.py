"""
Mutation self-test of the schema translator (NOT run by the checks; run by hand):

    /venv/bin/python notes/selftest_schema_translator.py

For each edit of a scratch COPY of /repo's kmip/ (never /repo itself): regenerate lean/KmipModel/Gen/SchemasGen.lean
from the copy with harness/gen_schemas.py, rebuild KmipModel.Props.C01Gen and record which theorems stop checking.
Afterwards the tables are regenerated from /repo and the target is rebuilt (must succeed).  The build lock of
harness/vcheck.py is held throughout, so a check running at the same time waits instead of seeing a mutant table.

  (a) swap the order of two field writes in one payload's write()        CheckRequestPayload.write
  (b) drop an `if kmip_version >= KMIP_2_0` guard in one read()           RequestBatchItem.read (Ephemeral)
  (c) make a mandatory read optional                                     CreateResponsePayload.read (unique identifier)
  (d) read() stores a field in another field's attribute                  CapabilityInformation.read (the defect /repo 4f93fbb repaired)
  (e) drop a field from write() only                                      ResponseHeader.write (server correlation value, /repo 15c47ac)
  (h) real changes made THROUGH a helper (after the harmless refactoring): h1 two `_write_optional` calls swapped,
      h2 the inlined read helper made mandatory -> must be caught like (a)-(e)
  (f) harmless rewrites -> the generated SchemasGen.lean must be IDENTICAL to the one generated from /repo (no rebuild,
      no alarm): f0 local renamed / list() -> [] / `is not None` dropped / message built in a local;
      f-C1..f-C5 the five stored refactorings notes/harmless/round5/C-*.diff (C-3: module-level `_write_optional`);
      g1 read() through a helper METHOD returning the object, tags through a module constant and a class attribute,
         renamed stream variable, keyword argument, write() looping over a list literal of its fields;
      g2 `for x in self._xs or []`, a list comprehension / `extend` building the list that is then written in a loop;
      g3 version tests with the operands swapped, through `_is_2_0(v)`, under `not`, class guard as `if ok: ... else: raise`;
      g4 write() through a helper method that calls a module-level helper with an early `return` (depth 2);
      g5 mandatory read written as `if not self.is_tag_next(T, s): raise` + read, `if not self._x: raise else: write`.
"""
import ast
import fcntl
import glob
import os
import re
import shutil
import subprocess
import sys
import tempfile
import time

VERIF = os.path.dirname(os.path.dirname(os.path.abspath(__file__)))
LEAN = os.path.join(VERIF, "lean")
REPO = os.environ.get("VERIF_REPO", "/repo")
PY = sys.executable


def edit(path, old, new, count=1):
    s = open(path).read()
    assert s.count(old) >= 1, "pattern not found in %s: %r" % (path, old[:60])
    s = s.replace(old, new, count)
    open(path, "w").write(s)


def mut_a(root):
    p = os.path.join(root, "kmip/core/messages/payloads/check.py")
    s = open(p).read()
    i = s.index("def write", s.index("class CheckRequestPayload"))
    a = """        if self._usage_limits_count:
            self._usage_limits_count.write(
                local_stream,
                kmip_version=kmip_version
            )
"""
    b = """        if self._cryptographic_usage_mask:
            self._cryptographic_usage_mask.write(
                local_stream,
                kmip_version=kmip_version
            )
"""
    j = s.index(a + b, i)
    s = s[:j] + b + a + s[j + len(a + b):]
    open(p, "w").write(s)


def mut_b(root):
    p = os.path.join(root, "kmip/core/messages/messages.py")
    edit(p, """        if kmip_version >= enums.KMIPVersion.KMIP_2_0:
            if self.is_tag_next(enums.Tags.EPHEMERAL, tstream):
                ephemeral = primitives.Boolean(tag=enums.Tags.EPHEMERAL)
                ephemeral.read(tstream, kmip_version=kmip_version)
                self._ephemeral = ephemeral
""", """        if self.is_tag_next(enums.Tags.EPHEMERAL, tstream):
            ephemeral = primitives.Boolean(tag=enums.Tags.EPHEMERAL)
            ephemeral.read(tstream, kmip_version=kmip_version)
            self._ephemeral = ephemeral
""")


def mut_c(root):
    p = os.path.join(root, "kmip/core/messages/payloads/create.py")
    s = open(p).read()
    i = s.index("class CreateResponsePayload")
    m = re.search(r"        else:\n            raise exceptions\.InvalidKmipEncoding\(\n                \"The Create response payload "
                  r"encoding is missing the unique \"\n                \"identifier\.\"\n            \)\n", s[i:])
    assert m, "mandatory unique identifier of CreateResponsePayload.read not found"
    s = s[:i + m.start()] + s[i + m.end():]
    open(p, "w").write(s)


def mut_d(root):
    p = os.path.join(root, "kmip/core/objects.py")
    edit(p, "                self._batch_undo_capability = batch_undo_capability\n",
         "                self._batch_continue_capability = batch_undo_capability\n")


def mut_e(root):
    p = os.path.join(root, "kmip/core/messages/messages.py")
    s = open(p).read()
    i = s.index("def write", s.index("class ResponseHeader"))
    m = re.search(r"        if self\.server_correlation_value is not None:\n            self\.server_correlation_value\.write\(\n"
                  r"                tstream,\n                kmip_version=kmip_version\n            \)\n", s[i:])
    assert m, "server correlation value write not found"
    s = s[:i + m.start()] + s[i + m.end():]
    open(p, "w").write(s)


def mut_f(root):
    p = os.path.join(root, "kmip/core/messages/payloads/locate.py")
    s = open(p).read()
    i = s.index("class LocateResponsePayload")
    seg = s[i:]
    a = seg.index("            unique_identifier = primitives.TextString(")
    b = seg.index("self._unique_identifiers.append(unique_identifier)", a) + len("self._unique_identifiers.append(unique_identifier)")
    seg = seg[:a] + seg[a:b].replace("unique_identifier", "uid_item").replace("self._uid_items", "self._unique_identifiers") + seg[b:]
    assert "uid_item.read(" in seg
    open(p, "w").write(s[:i] + seg)
    p = os.path.join(root, "kmip/core/messages/payloads/get_attributes.py")
    edit(p, "        names = list()\n        if kmip_version < enums.KMIPVersion.KMIP_2_0:\n            while self.is_tag_next(enums.Tags.ATTRIBUTE_NAME",
         "        names = []\n        if kmip_version < enums.KMIPVersion.KMIP_2_0:\n            while self.is_tag_next(enums.Tags.ATTRIBUTE_NAME")
    # a presence test written the other way, and a new local used only for an error message
    p = os.path.join(root, "kmip/core/messages/payloads/activate.py")
    edit(p, "        if self.unique_identifier is not None:\n            self.unique_identifier.write(tstream",
         "        if self.unique_identifier:\n            self.unique_identifier.write(tstream")
    p = os.path.join(root, "kmip/core/messages/payloads/decrypt.py")
    edit(p, "            raise ValueError(\"invalid payload missing the data attribute\")",
         "            what = \"data\"\n            raise ValueError(\"invalid payload missing the %s attribute\" % what)")


# ---------------------------------------------------------------------------------------------------------
# harmless rewrites, made on the AST of the scratch copy and unparsed back
# ---------------------------------------------------------------------------------------------------------

def rewrite(path, cls, transform, before_class="", in_class=""):
    """apply transform({method name: FunctionDef}) to class `cls` of the file; the methods it returns (by name) are
    replaced by their unparsed new form; `before_class` is inserted in front of the class, `in_class` before read()"""
    text = open(path).read()
    lines = text.split("\n")
    tree = ast.parse(text)
    node = [n for n in tree.body if isinstance(n, ast.ClassDef) and n.name == cls][0]
    ms = {m.name: m for m in node.body if isinstance(m, ast.FunctionDef)}
    changed = transform(ms)
    edits = []
    for name in changed:
        fn = ms[name]
        new = "\n".join("    " + ln if ln else ln for ln in ast.unparse(fn).split("\n"))
        edits.append((fn.lineno, fn.end_lineno, new))
    if in_class:
        edits.append((ms["read"].lineno, ms["read"].lineno - 1, in_class.rstrip("\n") + "\n"))
    if before_class:
        first = min([node.lineno] + [d.lineno for d in node.decorator_list])
        edits.append((first, first - 1, before_class.rstrip("\n") + "\n\n"))
    for a, b, new in sorted(edits, key=lambda e: (-e[0], -e[1])):
        lines[a - 1:b] = new.split("\n")
    open(path, "w").write("\n".join(lines))
    ast.parse(open(path).read())


def stmts(code):
    return ast.parse(code).body


def keep_doc(fn, body):
    doc = fn.body[:1] if isinstance(fn.body[0], ast.Expr) and isinstance(getattr(fn.body[0], "value", None), ast.Constant) else []
    fn.body = doc + body


def harm_g1(root):
    def t(ms):
        keep_doc(ms["read"], stmts(
            "super(ObtainLeaseResponsePayload, self).read(input_stream, kmip_version=kmip_version)\n"
            "body = utils.BytearrayStream(input_stream.read(self.length))\n"
            "self._unique_identifier = self._read_optional(_UID_TAG, primitives.TextString, body, kmip_version)\n"
            "self._lease_time = self._read_optional(self.LEASE_TAG, primitives.Interval, body, version=kmip_version)\n"
            "self._last_change_date = self._read_optional(enums.Tags.LAST_CHANGE_DATE, primitives.DateTime, body, kmip_version)\n"
            "self.is_oversized(body)\n"))
        keep_doc(ms["write"], stmts(
            "out = utils.BytearrayStream()\n"
            "for item in [self._unique_identifier, self._lease_time, self._last_change_date]:\n"
            "    if item:\n"
            "        item.write(out, kmip_version=kmip_version)\n"
            "self.length = out.length()\n"
            "super(ObtainLeaseResponsePayload, self).write(output_stream, kmip_version=kmip_version)\n"
            "output_stream.write(out.buffer)\n"))
        return ["read", "write"]
    rewrite(os.path.join(root, "kmip/core/messages/payloads/obtain_lease.py"), "ObtainLeaseResponsePayload", t,
            before_class="_UID_TAG = enums.Tags.UNIQUE_IDENTIFIER\n",
            in_class="    LEASE_TAG = enums.Tags.LEASE_TIME\n\n"
                     "    def _read_optional(self, tag, cls, stream, version):\n"
                     "        \"\"\"Read the item with the given tag if it comes next.\"\"\"\n"
                     "        if self.is_tag_next(tag, stream):\n"
                     "            item = cls(tag=tag)\n"
                     "            item.read(stream, kmip_version=version)\n"
                     "            return item\n"
                     "        return None\n\n")


def harm_g2(root):
    def t(ms):
        keep_doc(ms["write"], stmts(
            "buf = utils.BytearrayStream()\n"
            "if self._located_items:\n"
            "    self._located_items.write(buf, kmip_version=kmip_version)\n"
            "for uid in self._unique_identifiers or []:\n"
            "    uid.write(buf, kmip_version=kmip_version)\n"
            "self.length = buf.length()\n"
            "super(LocateResponsePayload, self).write(output_buffer, kmip_version=kmip_version)\n"
            "output_buffer.write(buf.buffer)\n"))
        return ["write"]
    rewrite(os.path.join(root, "kmip/core/messages/payloads/locate.py"), "LocateResponsePayload", t)

    def t2(ms):
        keep_doc(ms["write"], stmts(
            "local_buffer = utils.BytearrayStream()\n"
            "if self._unique_identifier:\n"
            "    self._unique_identifier.write(local_buffer, kmip_version=kmip_version)\n"
            "if kmip_version < enums.KMIPVersion.KMIP_2_0:\n"
            "    names = []\n"
            "    names.extend(self._attribute_names)\n"
            "    for attribute_name in names:\n"
            "        attribute_name.write(local_buffer, kmip_version=kmip_version)\n"
            "else:\n"
            "    references = [primitives.Enumeration(enums.Tags, value=enums.convert_attribute_name_to_tag(n.value), "
            "tag=enums.Tags.ATTRIBUTE_REFERENCE) for n in self._attribute_names]\n"
            "    for reference in references:\n"
            "        reference.write(local_buffer, kmip_version=kmip_version)\n"
            "self.length = local_buffer.length()\n"
            "super(GetAttributesRequestPayload, self).write(output_buffer, kmip_version=kmip_version)\n"
            "output_buffer.write(local_buffer.buffer)\n"))
        return ["write"]
    rewrite(os.path.join(root, "kmip/core/messages/payloads/get_attributes.py"), "GetAttributesRequestPayload", t2)


class _Versions(ast.NodeTransformer):
    """kmip_version < KMIP_2_0  ->  KMIP_2_0 > kmip_version (read) / not _is_2_0(kmip_version) (write)"""
    def __init__(self, mode):
        self.mode = mode

    def visit_Compare(self, node):
        if isinstance(node.left, ast.Name) and node.left.id == "kmip_version" and isinstance(node.ops[0], (ast.Lt, ast.GtE)) \
                and ast.unparse(node.comparators[0]) == "enums.KMIPVersion.KMIP_2_0":
            lt = isinstance(node.ops[0], ast.Lt)
            if self.mode == "swap":
                return ast.Compare(left=node.comparators[0], ops=[ast.Gt() if lt else ast.LtE()], comparators=[node.left])
            call = ast.Call(func=ast.Name(id="_is_2_0", ctx=ast.Load()), args=[node.left], keywords=[])
            return ast.UnaryOp(op=ast.Not(), operand=call) if lt else call
        return node


def harm_g3(root):
    def t(ms):
        _Versions("swap").visit(ms["read"])
        _Versions("helper").visit(ms["write"])
        ast.fix_missing_locations(ms["read"])
        ast.fix_missing_locations(ms["write"])
        return ["read", "write"]
    for f, c in (("create.py", "CreateRequestPayload"), ("create.py", "CreateResponsePayload"),
                 ("register.py", "RegisterRequestPayload")):
        rewrite(os.path.join(root, "kmip/core/messages/payloads", f), c, t,
                before_class="" if c == "CreateResponsePayload" else
                "def _is_2_0(version):\n    return version >= enums.KMIPVersion.KMIP_2_0\n\n")

    # class guard `if v < 2.0: raise` + rest  ->  `if v >= 2.0: rest else: raise`
    def guard(ms):
        for name in ("read", "write"):
            fn = ms[name]
            doc, body = fn.body[:1], fn.body[1:]
            g = body[0]
            assert isinstance(g, ast.If) and isinstance(g.body[0], ast.Raise), ast.unparse(g)[:80]
            test = ast.Compare(left=g.test.left, ops=[ast.GtE()], comparators=g.test.comparators)
            fn.body = doc + [ast.If(test=test, body=body[1:], orelse=g.body)]
            ast.fix_missing_locations(fn)
        return ["read", "write"]
    rewrite(os.path.join(root, "kmip/core/objects.py"), "ProtectionStorageMasks", guard)


def harm_g4(root):
    def t(ms):
        keep_doc(ms["write"], stmts(
            "tstream = BytearrayStream()\n"
            "self._put(self.private_key_uuid, tstream, kmip_version)\n"
            "self._put(self.offset, tstream, kmip_version)\n"
            "self._put(self.common_template_attribute, tstream, kmip_version)\n"
            "self._put(self.private_key_template_attribute, tstream, kmip_version)\n"
            "self._put(item=self.public_key_template_attribute, stream=tstream, kmip_version=kmip_version)\n"
            "self.length = tstream.length()\n"
            "super(RekeyKeyPairRequestPayload, self).write(ostream, kmip_version=kmip_version)\n"
            "ostream.write(tstream.buffer)\n"))
        return ["write"]
    rewrite(os.path.join(root, "kmip/core/messages/payloads/rekey_key_pair.py"), "RekeyKeyPairRequestPayload", t,
            before_class="def _write_optional(field, stream, kmip_version):\n"
                         "    if field is None:\n"
                         "        return\n"
                         "    field.write(stream, kmip_version=kmip_version)\n\n",
            in_class="    def _put(self, item, stream, kmip_version):\n"
                     "        _write_optional(item, stream, kmip_version)\n\n")


def harm_g5(root):
    def t(ms):
        keep_doc(ms["read"], stmts(
            "super(DecryptResponsePayload, self).read(input_stream, kmip_version=kmip_version)\n"
            "local_stream = utils.BytearrayStream(input_stream.read(self.length))\n"
            "if not self.is_tag_next(enums.Tags.UNIQUE_IDENTIFIER, local_stream):\n"
            "    raise ValueError('invalid payload missing the unique identifier attribute')\n"
            "self._unique_identifier = primitives.TextString(tag=enums.Tags.UNIQUE_IDENTIFIER)\n"
            "self._unique_identifier.read(local_stream, kmip_version=kmip_version)\n"
            "if not self.is_tag_next(enums.Tags.DATA, local_stream):\n"
            "    raise ValueError('invalid payload missing the data attribute')\n"
            "self._data = primitives.ByteString(tag=enums.Tags.DATA)\n"
            "self._data.read(local_stream, kmip_version=kmip_version)\n"
            "self.is_oversized(local_stream)\n"))
        keep_doc(ms["write"], stmts(
            "local_stream = utils.BytearrayStream()\n"
            "if not self._unique_identifier:\n"
            "    raise ValueError('invalid payload missing the unique identifier attribute')\n"
            "else:\n"
            "    self._unique_identifier.write(local_stream, kmip_version=kmip_version)\n"
            "if self._data is None:\n"
            "    raise ValueError('invalid payload missing the data attribute')\n"
            "else:\n"
            "    self._data.write(local_stream, kmip_version=kmip_version)\n"
            "self.length = local_stream.length()\n"
            "super(DecryptResponsePayload, self).write(output_stream, kmip_version=kmip_version)\n"
            "output_stream.write(local_stream.buffer)\n"))
        return ["read", "write"]
    rewrite(os.path.join(root, "kmip/core/messages/payloads/decrypt.py"), "DecryptResponsePayload", t)


def stored_diff(path):
    def apply(root):
        r = subprocess.run(["git", "apply", "--exclude=kmip/tests/*", path], cwd=root, capture_output=True, text=True)
        assert r.returncode == 0, r.stderr
    return apply


HARMLESS = [("f0: local renamed, list() -> [], `is not None` dropped, message built in a local", mut_f)] + \
    [("f-%s" % os.path.basename(d)[:-5], stored_diff(d))
     for d in sorted(glob.glob(os.path.join(VERIF, "notes", "harmless", "round5", "C-*.diff")))] + \
    [("g1: read() through a helper method returning the object; constant / class-attribute tags; list-literal loop", harm_g1),
     ("g2: `for x in self._xs or []`; list comprehension / extend, then a loop", harm_g2),
     ("g3: version tests swapped / through _is_2_0 / negated; guard as if-else", harm_g3),
     ("g4: write() through a method calling a module helper with an early return (depth 2)", harm_g4),
     ("g5: `if not is_tag_next: raise` + read; `if not x: raise else: write`", harm_g5)]

def mut_h1(root):
    stored_diff(os.path.join(VERIF, "notes", "harmless", "round5", "C-3-messages-write-optional-helper.diff"))(root)
    p = os.path.join(root, "kmip/core/messages/messages.py")
    a = "        _write_optional(self.batch_order_option, tstream, kmip_version)\n"
    b = "        _write_optional(self.time_stamp, tstream, kmip_version)\n"
    edit(p, a + b, b + a)


def mut_h2(root):
    harm_g1(root)
    p = os.path.join(root, "kmip/core/messages/payloads/obtain_lease.py")
    edit(p, "            return item\n        return None\n", "            return item\n        raise ValueError('missing')\n")


MUTANTS = [("a: swap two field writes (CheckRequestPayload.write)", mut_a, True),
           ("b: drop the KMIP 2.0 guard around Ephemeral (RequestBatchItem.read)", mut_b, True),
           ("c: mandatory unique identifier made optional (CreateResponsePayload.read)", mut_c, True),
           ("d: read() stores Batch Undo Capability in the Batch Continue attribute (CapabilityInformation.read)", mut_d, True),
           ("e: write() forgets the server correlation value (ResponseHeader.write)", mut_e, True),
           ("h1: refactoring C-3 applied, then two _write_optional calls swapped (RequestHeader.write)", mut_h1, True),
           ("h2: rewrite g1 applied, then the read helper raises when the item is missing (ObtainLeaseResponsePayload)", mut_h2, True)]


def theorems_at(lines_failed):
    src = open(os.path.join(LEAN, "KmipModel/Props/C01Gen.lean")).read().split("\n")
    names = []
    for ln in lines_failed:
        k = ln - 1
        while k >= 0 and not re.match(r"\s*(theorem|example|def)\b", src[k]):
            k -= 1
        m = re.match(r"\s*(theorem|def)\s+(\S+)", src[k]) if k >= 0 else None
        names.append(m.group(2) if m else "example@%d" % (k + 1))
    out = []
    for n in names:
        if n not in out:
            out.append(n)
    return out


def regen_and_build(root):
    t0 = time.time()
    g = subprocess.run([PY, os.path.join(VERIF, "harness", "gen_schemas.py"), root], capture_output=True, text=True)
    if g.returncode != 0:
        return {"translator": "FAILED", "stderr": g.stderr[-600:]}
    b = subprocess.run(["lake", "build", "KmipModel.Props.C01Gen"], cwd=LEAN, capture_output=True, text=True)
    out = b.stdout + b.stderr
    failed = [int(m.group(1)) for m in re.finditer(r"error: KmipModel/Props/C01Gen\.lean:(\d+):", out)]
    other = [ln for ln in out.split("\n") if ln.startswith("error:") and "C01Gen.lean" not in ln
             and "Lean exited" not in ln and "build failed" not in ln]
    first = [ln[:160] for ln in out.split("\n") if ln.startswith("error: KmipModel/Props/C01Gen.lean")][:2]
    return {"build_ok": b.returncode == 0, "broken": theorems_at(failed), "other_errors": other[:3],
            "first_errors": first if any(n.startswith("example@0") for n in theorems_at(failed)) else [],
            "wall_s": round(time.time() - t0, 1)}


def main():
    os.makedirs(os.path.join(LEAN, ".lake"), exist_ok=True)
    lock = open(os.path.join(LEAN, ".lake", "verif.build.lock"), "w")
    fcntl.flock(lock, fcntl.LOCK_EX)
    results = []
    ok = True
    try:
        base = regen_and_build(REPO)
        print("baseline (unchanged /repo):", base)
        assert base.get("build_ok"), "the unchanged tree must build"
        base_lean = open(os.path.join(LEAN, "KmipModel", "Gen", "SchemasGen.lean")).read()
        for name, fn in HARMLESS:
            tmp = tempfile.mkdtemp(prefix="schema_selftest_")
            try:
                shutil.copytree(os.path.join(REPO, "kmip"), os.path.join(tmp, "kmip"),
                                ignore=shutil.ignore_patterns("__pycache__", "tests"))
                fn(tmp)
                g = subprocess.run([PY, os.path.join(VERIF, "harness", "gen_schemas.py"), tmp, os.path.join(tmp, "out")],
                                   capture_output=True, text=True)
                same = g.returncode == 0 and open(os.path.join(tmp, "out", "SchemasGen.lean")).read() == base_lean
                detail = ""
                if g.returncode != 0:
                    detail = g.stderr[-300:]
                elif not same:
                    import difflib
                    detail = "\n".join(list(difflib.unified_diff(
                        base_lean.split("\n"), open(os.path.join(tmp, "out", "SchemasGen.lean")).read().split("\n"),
                        lineterm="", n=0))[:12])
            finally:
                shutil.rmtree(tmp, ignore_errors=True)
            ok = ok and same
            print("%-118s %s" % (name, "quiet (tables identical)" if same else "FALSE ALARM\n" + detail))
        for name, fn, must_break in MUTANTS:
            tmp = tempfile.mkdtemp(prefix="schema_selftest_")
            try:
                shutil.copytree(os.path.join(REPO, "kmip"), os.path.join(tmp, "kmip"),
                                ignore=shutil.ignore_patterns("__pycache__", "tests"))
                fn(tmp)
                r = regen_and_build(tmp)
            finally:
                shutil.rmtree(tmp, ignore_errors=True)
            caught = not r.get("build_ok", False)
            verdict = "CAUGHT" if caught and must_break else "quiet" if not caught and not must_break else \
                "MISSED" if must_break else "FALSE ALARM"
            ok = ok and verdict in ("CAUGHT", "quiet")
            print("%-100s %s  broken=%s  (%ss)" % (name, verdict, r.get("broken"), r.get("wall_s")))
            results.append((name, verdict, r))
    finally:
        back = regen_and_build(REPO)
        print("restored from /repo:", back)
        fcntl.flock(lock, fcntl.LOCK_UN)
        assert back.get("build_ok"), "restoring the tables from /repo failed"
    return 0 if ok else 1


if __name__ == "__main__":
    sys.exit(main())
