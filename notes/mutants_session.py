"""Seeded mutants of kmip/services/server/session.py for the C12 / C17 checks.
Each mutant is applied to a temporary COPY of /repo/kmip selected through VERIF_REPO / PYTHONPATH (/repo is never edited);
usage: /venv/bin/python notes/mutants_session.py [mutant-name ...]   (run from /verif; replays/ gets extra files)
"""
import os, shutil, subprocess, sys, tempfile
MUT = {
 "c17-fallback-when-plugin-fails": ("        if not plugin_enabled:\n", "        if True:\n"),
 "c17-groups-dropped": ("                        return client_identity\n", "                        return (client_identity[0], None)\n"),
 "c17-eku-check-skipped": ("                if x509.oid.ExtendedKeyUsageOID.CLIENT_AUTH not in extension:\n", "                if False:\n"),
 "c17-engine-before-auth": ("                client_identity = self.authenticate(certificate, request)\n", "                self._engine.process_request(request, ('anonymous', None))\n                client_identity = self.authenticate(certificate, request)\n"),
 "c17-auth-failure-reason": ("                    enums.ResultReason.AUTHENTICATION_NOT_SUCCESSFUL,\n                    \"An error occurred during client authentication. \"", "                    enums.ResultReason.PERMISSION_DENIED,\n                    \"An error occurred during client authentication. \""),
 "c12-recv-once": ("        while bytes_received < message_size:\n", "        for _once in range(1 if message_size else 0):\n"),
 "c12-buffer-cap-removed-wrong-count": ("                bytes_received += len(partial_message)\n", "                bytes_received += max(1, len(partial_message) - (len(partial_message) > 4000))\n"),
 "c12-loop-breaks-on-error": ("                except Exception as e:\n                    self._logger.info(\"Failure handling message loop\")\n", "                except Exception as e:\n                    break\n                    self._logger.info(\"Failure handling message loop\")\n"),
 "c12-invalid-message-reraised": ("            self._logger.warning(\"Failure parsing request message.\")\n", "            self._logger.warning(\"Failure parsing request message.\")\n            raise\n"),
 "c12-too-large-not-replaced": ("        if len(response_data) > max_size:\n", "        if len(response_data) > max_size + 1:\n"),
 "c12-max-zero-ignored-again": ("                    if max_response_size is not None:\n", "                    if max_response_size:\n"),
 "c12-write-guard-removed": ("        try:\n            response.write(response_data, kmip_version=kmip_version)\n        except Exception as e:\n", "        response.write(response_data, kmip_version=kmip_version)\n        try:\n            pass\n        except Exception as e:\n"),
 "c12-invalid-message-wrong-reason": ("                enums.ResultReason.INVALID_MESSAGE,\n                \"Error parsing request message.", "                enums.ResultReason.GENERAL_FAILURE,\n                \"Error parsing request message."),
}
which = sys.argv[1:]
for name, (old, new) in MUT.items():
    if which and name not in which: continue
    T = tempfile.mkdtemp()
    shutil.copytree('/repo/kmip', T + '/kmip')
    p = T + '/kmip/services/server/session.py'
    s = open(p).read()
    assert s.count(old) == 1, (name, s.count(old))
    open(p, 'w').write(s.replace(old, new))
    pid = 'C17' if name.startswith('c17') else 'C12'
    env = dict(os.environ, PYTHONPATH=T, VERIF_REPO=T)   # vcheck puts VERIF_REPO first on sys.path
    r = subprocess.run(['./check', pid, '--tier', 'quick', '--no-build'], cwd='/verif', env=env, capture_output=True, text=True)
    lines = [l for l in r.stdout.splitlines() if l.startswith('VIOLATION') or l.startswith('  detail') or l.startswith('HARNESS')]
    print('==', name, 'exit', r.returncode)
    for l in lines[:8]: print('   ', l[:230])
    shutil.rmtree(T)
