import warnings; warnings.filterwarnings("ignore")
from kmip.core import enums
def camel(n):
    parts = n.lower().split("_")
    s = parts[0] + "".join(p.capitalize() for p in parts[1:])
    if s[0].isdigit(): s = "t" + s
    return s
out = []
out.append("""/-
M14 — static tables used by the request-decoding model (`KmipModel/Decode.lean`): tag numbers, the member values
of the enumeration classes the request readers instantiate, the attribute tags per version.
Written out from `kmip.core.enums` of /repo by a one-off script; PINNED on every run: `Drivers/Decode.lean` prints
them (`{"op":"tables"}`) and `harness/lib/decode_check.py` compares them with the live `kmip.core.enums`.
-/
namespace Kmip.Decode
""")
out.append("namespace T")
seen = set()
for t in enums.Tags:
    c = camel(t.name)
    if c in ("end", "from", "to", "at", "in", "do", "then", "else", "if", "let", "have", "show", "fun", "type", "class", "instance", "open", "universe", "section", "namespace", "local", "private", "protected", "default", "state", "name", "link", "data", "digest", "comment", "description", "operation", "attribute", "attributes", "template", "certificate", "password", "username", "fresh", "sensitive", "extractable"):
        c = c + "_"
    assert c not in seen, c
    seen.add(c)
    out.append("def %s : Nat := 0x%06X" % (c, t.value))
out.append("end T\n")
out.append("/-- every member of `enums.Tags` (name, value) -/")
out.append("def allTags : List Nat := [%s]\n" % ", ".join("0x%06X" % t.value for t in enums.Tags))
ENUMS = ["Operation", "ObjectType", "CryptographicAlgorithm", "CertificateType", "State", "NameType", "HashingAlgorithm",
         "KeyFormatType", "BlockCipherMode", "PaddingMethod", "KeyRoleType", "DigitalSignatureAlgorithm",
         "KeyCompressionType", "WrappingMethod", "EncodingOption", "CredentialType", "AttestationType", "SecretDataType",
         "OpaqueDataType", "SplitKeyMethod", "DerivationMethod", "QueryFunction", "RevocationReasonCode",
         "BatchErrorContinuationOption", "ObjectGroupMember"]
out.append("namespace E")
for e in ENUMS:
    E = getattr(enums, e)
    out.append("def %s : List Nat := [%s]" % (e[0].lower() + e[1:], ", ".join(str(m.value) for m in E)))
out.append("end E\n")
out.append("/-- the table above by class name (for the pin check) -/")
out.append("def enumTable : List (String × List Nat) := [%s]\n" % ", ".join('("%s", E.%s)' % (e, e[0].lower()+e[1:]) for e in ENUMS))
# attribute types: (AttributeType member name, value string, tag or 0)
rows = []
for a in enums.AttributeType:
    try:
        tag = enums.Tags[a.name].value
    except KeyError:
        tag = 0
    rows.append((a.name, a.value, tag))
out.append("/-- `enums.AttributeType`: member name, value (the attribute's name on the wire), tag of the same member name in `enums.Tags` -/")
out.append("def attributeTypes : List (String × String × Nat) := [\n%s]\n" % ",\n".join('  ("%s", "%s", 0x%06X)' % r for r in rows))
out.append("/-- `enums.attribute_name_tag_table` (attribute name on the wire, tag) -/")
out.append("def attributeNameTags : List (String × Nat) := [\n%s]\n" % ",\n".join('  ("%s", 0x%06X)' % (n, t.value) for n, t in enums.attribute_name_tag_table))
# is_attribute per version
vers = [(10, enums.KMIPVersion.KMIP_1_0), (11, enums.KMIPVersion.KMIP_1_1), (12, enums.KMIPVersion.KMIP_1_2), (13, enums.KMIPVersion.KMIP_1_3), (14, enums.KMIPVersion.KMIP_1_4), (20, enums.KMIPVersion.KMIP_2_0)]
out.append("/-- `enums.is_attribute(tag, kmip_version)`: tags accepted per version -/")
out.append("def attributeTags : List (Nat × List Nat) := [\n%s]\n" % ",\n".join("  (%d, [%s])" % (n, ", ".join("0x%06X" % t.value for t in enums.Tags if enums.is_attribute(t, v))) for n, v in vers))
out.append("end Kmip.Decode")
open("/verif/lean/KmipModel/DecodeTables.lean", "w").write("\n".join(out) + "\n")
print(len(out))
