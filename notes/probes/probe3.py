import warnings; warnings.filterwarnings('ignore')
import os, json, tempfile, logging, time
logging.disable(logging.CRITICAL)
from kmip.services.server import monitor
from kmip.core import policy as oppolicy
d = tempfile.mkdtemp()
store = {'default': 1, 'public': 2}
m = monitor.PolicyDirectoryMonitor(d, store, live_monitoring=False)
T=[1000]
def wr(name, doc):
    p=os.path.join(d,name)
    with open(p,'w') as f:
        f.write(doc if isinstance(doc,str) else json.dumps(doc))
    T[0]+=10; os.utime(p,(T[0],T[0]))
def pol(perm): return {'preset': {'SYMMETRIC_KEY': {'GET': perm}}}
def show(tag): print(tag, {k:(v if isinstance(v,int) else list(v['preset'].values())[0]) for k,v in store.items()}, 'map=',{k:os.path.basename(v) for k,v in m.policy_map.items()}, 'cache=',{k:[os.path.basename(e[1]) for e in v] for k,v in m.policy_cache.items()})
wr('a.json', {'p': pol('ALLOW_ALL')}); wr('b.json', {'p': pol('ALLOW_OWNER')})
m.scan_policies(); show('1 a,b define p')
wr('a.json', {'q': pol('ALLOW_ALL')})
m.scan_policies(); show('2 a drops p (shadowed by b)')
os.remove(os.path.join(d,'b.json'))
m.scan_policies(); show('3 b removed -> p should be gone')
# parser crash classes
for doc in ['[1,2]', '{"x": 5}', '{"x": {"preset": 5}}', '{"x": {"preset": {"SYMMETRIC_KEY": 5}}}', '{"x": {"preset": {}, "SYMMETRIC_KEY": {}}}', '{"x": {"bogus": {}}}', '{"x": {"preset": {"SYMMETRIC_KEY": {"GET": 5}}}}', 'nope']:
    wr('c.json', doc)
    try:
        m.scan_policies(); print('scan ok   ', doc)
    except Exception as ex:
        print('scan CRASH', doc, type(ex).__name__, ex)
