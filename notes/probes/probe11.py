import warnings; warnings.filterwarnings('ignore')
exec(open(__import__('os').path.join(__import__('os').path.dirname(__import__('os').path.abspath(__file__)),'probe1.py')).read().split('print("create:"')[0])
from kmip.core import primitives
r = req([(enums.Operation.CREATE, create_payload(['k']), None)], ver=(1,4)); k=r[0][3].unique_identifier
for val in (False, True):
    at = F.create_attribute(enums.AttributeType.SENSITIVE, val)
    print('locate Sensitive=%s ->'%val, req([(enums.Operation.LOCATE, payloads.LocateRequestPayload(attributes=[at]), None)], ver=(1,4))[0][3])
ga = req([(enums.Operation.GET_ATTRIBUTES, payloads.GetAttributesRequestPayload(unique_identifier=k, attribute_names=['Sensitive','Initial Date','Cryptographic Usage Mask','State','Operation Policy Name']), None)], ver=(1,4))[0][3]
print([(a.attribute_name.value, str(a.attribute_value)) for a in ga.attributes])
# initial date exact match / range
idate = [a for a in ga.attributes if a.attribute_name.value=='Initial Date'][0].attribute_value.value
for ds in ([idate],[idate-5, idate+5],[idate+5, idate-5],[idate+1],[1,2,3]):
    ats=[F.create_attribute(enums.AttributeType.INITIAL_DATE, d) for d in ds]
    r=req([(enums.Operation.LOCATE, payloads.LocateRequestPayload(attributes=ats), None)], ver=(1,4))[0]
    print('dates',[d-idate for d in ds], r[0], r[1], r[3].unique_identifiers if r[3] else None)
# offsets
for off,mx in ((None,None),(0,1),(1,1),(5,1),(-1,None),(None,0)):
    r=req([(enums.Operation.LOCATE, payloads.LocateRequestPayload(offset_items=off, maximum_items=mx), None)], ver=(1,4))[0]
    print('off',off,'max',mx, r[0], r[3].unique_identifiers if r[3] else r[2])
