import os, tempfile, logging, time, copy
from kmip.core import enums, primitives, utils, objects as cobjects, attributes, secrets
from kmip.core.messages import contents, messages, payloads
from kmip.core.factories import attributes as af
from kmip.services.server import engine as eng
from kmip.core import policy as oppolicy
logging.disable(logging.CRITICAL)

d = tempfile.mkdtemp()
e = eng.KmipEngine(policies=copy.deepcopy(oppolicy.policies), database_path=os.path.join(d,'db.sqlite'))
F = af.AttributeFactory()

def req(items, ver=(1,2), ident=('alice',None), opt=None):
    hdr = messages.RequestHeader(protocol_version=contents.ProtocolVersion(*ver),
        batch_error_cont_option=None if opt is None else contents.BatchErrorContinuationOption(opt),
        batch_count=contents.BatchCount(len(items)))
    bis=[]
    for i,(op,pl,bid) in enumerate(items):
        bis.append(messages.RequestBatchItem(operation=contents.Operation(op), unique_batch_item_id=None if bid is None else contents.UniqueBatchItemID(bid), request_payload=pl))
    r = messages.RequestMessage(request_header=hdr, batch_items=bis)
    try:
        resp,_,_ = e.process_request(r, ident)
    except Exception as ex:
        return 'REQ-EXC %s: %s'%(type(ex).__name__, ex)
    out=[]
    for bi in resp.batch_items:
        out.append((bi.result_status.value.name, bi.result_reason.value.name if bi.result_reason else None, bi.result_message.value if bi.result_message else None, bi.response_payload))
    return out

def create_payload(names=(), mask=(enums.CryptographicUsageMask.ENCRYPT,enums.CryptographicUsageMask.DECRYPT)):
    attrs=[F.create_attribute(enums.AttributeType.CRYPTOGRAPHIC_ALGORITHM, enums.CryptographicAlgorithm.AES),
           F.create_attribute(enums.AttributeType.CRYPTOGRAPHIC_LENGTH, 128),
           F.create_attribute(enums.AttributeType.CRYPTOGRAPHIC_USAGE_MASK, list(mask))]
    for i,n in enumerate(names):
        attrs.append(F.create_attribute(enums.AttributeType.NAME, attributes.Name.create(n, enums.NameType.UNINTERPRETED_TEXT_STRING), i))
    return payloads.CreateRequestPayload(enums.ObjectType.SYMMETRIC_KEY, cobjects.TemplateAttribute(attributes=attrs))

print("create:", req([(enums.Operation.CREATE, create_payload(['k1']), None)]))
# C11: stale placeholder across requests and clients
print("C11 get w/o uid by alice:", req([(enums.Operation.GET, payloads.GetRequestPayload(), None)]))
print("C11 getattrs w/o uid by bob:", req([(enums.Operation.GET_ATTRIBUTE_LIST, payloads.GetAttributeListRequestPayload(), None)], ident=('bob',None)))
# C08: batch with second item missing id
r = req([(enums.Operation.CREATE, create_payload(['k2']), b'1'), (enums.Operation.CREATE, create_payload(['k3']), None)])
print("C08 batch missing id on 2nd:", r)
print("locate all:", req([(enums.Operation.LOCATE, payloads.LocateRequestPayload(), None)]))
