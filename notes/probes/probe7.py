import warnings; warnings.filterwarnings('ignore')
exec(open(__import__('os').path.join(__import__('os').path.dirname(__import__('os').path.abspath(__file__)),'probe1.py')).read().split('print("create:"')[0])
r = req([(enums.Operation.CREATE, create_payload(['k']), None)], ident=('alice',['grpA']))
print(r[0][:3]); uid=r[0][3].unique_identifier
print('owner with groups, default policy Get:', req([(enums.Operation.GET, payloads.GetRequestPayload(unique_identifier=uid), None)], ident=('alice',['grpA']))[0][:3])
print('owner with EMPTY groups list Get   :', req([(enums.Operation.GET, payloads.GetRequestPayload(unique_identifier=uid), None)], ident=('alice',[]))[0][:3])
print('owner without groups Get           :', req([(enums.Operation.GET, payloads.GetRequestPayload(unique_identifier=uid), None)], ident=('alice',None))[0][:3])
