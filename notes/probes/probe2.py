import warnings; warnings.filterwarnings('ignore')
exec(open(__import__('os').path.join(__import__('os').path.dirname(__import__('os').path.abspath(__file__)),'probe1.py')).read().split('print("create:"')[0])
U = enums.CryptographicUsageMask
def mk(names=('a',), mask=(U.ENCRYPT,U.DECRYPT)):
    r = req([(enums.Operation.CREATE, create_payload(list(names), mask), None)])
    print("mk", r[0][:3]); return r[0][3].unique_identifier
k = mk(['n1','n2','n3'])
# register opaque + certificate
opq = secrets.OpaqueObject(secrets.OpaqueObject.OpaqueDataType(enums.OpaqueDataType.NONE), secrets.OpaqueObject.OpaqueDataValue(b'\x01\x02'))
r = req([(enums.Operation.REGISTER, payloads.RegisterRequestPayload(object_type=enums.ObjectType.OPAQUE_DATA, template_attribute=cobjects.TemplateAttribute(attributes=[]), managed_object=opq), None)])
print('register opaque', r); o = r[0][3].unique_identifier
cert = secrets.Certificate(enums.CertificateType.X_509, b'\x30\x03\x02\x01\x01')
r = req([(enums.Operation.REGISTER, payloads.RegisterRequestPayload(object_type=enums.ObjectType.CERTIFICATE, template_attribute=cobjects.TemplateAttribute(attributes=[F.create_attribute(enums.AttributeType.CRYPTOGRAPHIC_USAGE_MASK,[U.VERIFY])]), managed_object=cert), None)])
print('register cert', r); c = r[0][3].unique_identifier

# C13: MAC on opaque object
p = payloads.MACRequestPayload(unique_identifier=attributes.UniqueIdentifier(o), cryptographic_parameters=attributes.CryptographicParameters(cryptographic_algorithm=enums.CryptographicAlgorithm.HMAC_SHA256), data=cobjects.Data(b'abc'))
print('C13 MAC on opaque:', req([(enums.Operation.MAC, p, None)]))
# C13/C14: Locate by algorithm with cert in store
la = [F.create_attribute(enums.AttributeType.CRYPTOGRAPHIC_ALGORITHM, enums.CryptographicAlgorithm.AES)]
print('C14 locate alg w/ cert:', req([(enums.Operation.LOCATE, payloads.LocateRequestPayload(attributes=la), None)]))
# C13: DeleteAttribute unknown name (1.x)
print('C13 delete unknown attr:', req([(enums.Operation.DELETE_ATTRIBUTE, payloads.DeleteAttributeRequestPayload(unique_identifier=k, attribute_name='bogus'), None)]))
# C15: DeleteAttribute negative index
print('C15 delete Name idx -1:', req([(enums.Operation.DELETE_ATTRIBUTE, payloads.DeleteAttributeRequestPayload(unique_identifier=k, attribute_name='Name', attribute_index=-1), None)]))
print('   names now:', [ (a.attribute_index.value, a.attribute_value.name_value.value) for a in req([(enums.Operation.GET_ATTRIBUTES, payloads.GetAttributesRequestPayload(unique_identifier=k, attribute_names=['Name']), None)])[0][3].attributes])
print('C13 delete Name idx -7:', req([(enums.Operation.DELETE_ATTRIBUTE, payloads.DeleteAttributeRequestPayload(unique_identifier=k, attribute_name='Name', attribute_index=-7), None)]))
# C13: ModifyAttribute custom attribute / Link style (1.x)
at = cobjects.Attribute(attribute_name=cobjects.Attribute.AttributeName('x-custom'), attribute_value=attributes.CustomAttribute('v'))
print('C13 modify x-custom:', req([(enums.Operation.MODIFY_ATTRIBUTE, payloads.ModifyAttributeRequestPayload(unique_identifier=k, attribute=at), None)]))
at = F.create_attribute(enums.AttributeType.CRYPTOGRAPHIC_PARAMETERS, {'block_cipher_mode': enums.BlockCipherMode.CBC})
print('C13 modify CryptoParams:', req([(enums.Operation.MODIFY_ATTRIBUTE, payloads.ModifyAttributeRequestPayload(unique_identifier=k, attribute=at), None)]))
# C13: Register symmetric key with wrong length
from kmip.core.factories.secrets import SecretFactory
sk = SecretFactory().create(enums.ObjectType.SYMMETRIC_KEY, {'cryptographic_algorithm': enums.CryptographicAlgorithm.AES, 'cryptographic_length': 256, 'key_format_type': enums.KeyFormatType.RAW, 'key_value': b'\x00'*16})
print('C13 register len mismatch:', req([(enums.Operation.REGISTER, payloads.RegisterRequestPayload(object_type=enums.ObjectType.SYMMETRIC_KEY, template_attribute=cobjects.TemplateAttribute(attributes=[]), managed_object=sk), None)]))
