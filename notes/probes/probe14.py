import warnings; warnings.filterwarnings('ignore')
import os, tempfile, logging, copy, datetime, struct
logging.disable(logging.CRITICAL)
from cryptography import x509
from cryptography.x509.oid import NameOID, ExtendedKeyUsageOID
from cryptography.hazmat.primitives import hashes, serialization
from cryptography.hazmat.primitives.asymmetric import rsa
from kmip.core import enums, utils, exceptions
from kmip.core.messages import contents, messages, payloads
from kmip.services.server import engine as eng, session as sess
from kmip.core import policy as oppolicy
key = rsa.generate_private_key(65537, 2048)
def cert(cns=('alice',), eku='client'):
    name = x509.Name([x509.NameAttribute(NameOID.COMMON_NAME, c) for c in cns])
    b = x509.CertificateBuilder().subject_name(name).issuer_name(name).public_key(key.public_key()).serial_number(1).not_valid_before(datetime.datetime(2020,1,1)).not_valid_after(datetime.datetime(2040,1,1))
    if eku=='client': b=b.add_extension(x509.ExtendedKeyUsage([ExtendedKeyUsageOID.CLIENT_AUTH]), False)
    elif eku=='server': b=b.add_extension(x509.ExtendedKeyUsage([ExtendedKeyUsageOID.SERVER_AUTH]), False)
    return b.sign(key, hashes.SHA256()).public_bytes(serialization.Encoding.DER)
class Conn:
    def __init__(self, data, der, chunk=None): self.buf=data; self.der=der; self.out=[]; self.chunk=chunk
    def do_handshake(self): pass
    def getpeercert(self, binary_form=False): return self.der
    def shared_ciphers(self): return None
    def cipher(self): return ('x','y',1)
    def recv(self, n):
        if self.chunk: n=min(n,self.chunk)
        d=self.buf[:n]; self.buf=self.buf[n:]; return d
    def sendall(self, b): self.out.append(bytes(b))
    def shutdown(self, how): pass
    def close(self): pass
d=tempfile.mkdtemp(); E=eng.KmipEngine(policies=copy.deepcopy(oppolicy.policies), database_path=os.path.join(d,'db'))
calls=[]
orig=E.process_request
def wrapped(req, cred=None):
    calls.append(cred); return orig(req, cred)
E.process_request=wrapped
def reqbytes(ver=(1,2), maxsize=None):
    hdr=messages.RequestHeader(protocol_version=contents.ProtocolVersion(*ver), maximum_response_size=None if maxsize is None else contents.MaximumResponseSize(maxsize), batch_count=contents.BatchCount(1))
    bi=messages.RequestBatchItem(operation=contents.Operation(enums.Operation.QUERY), request_payload=payloads.QueryRequestPayload([enums.QueryFunction.QUERY_OPERATIONS]))
    s=utils.BytearrayStream(); messages.RequestMessage(request_header=hdr, batch_items=[bi]).write(s, kmip_version=enums.KMIPVersion.KMIP_1_2); return bytes(s.buffer)
def run(data, der, chunk=None, tls=True, auth=None):
    c=Conn(data, der, chunk); s=sess.KmipSession(E, c, ('1.2.3.4',5), name='t', enable_tls_client_auth=tls, auth_settings=auth); del calls[:]
    s.run()
    res=[]
    for o in c.out:
        m=messages.ResponseMessage(); m.read(utils.BytearrayStream(o), kmip_version=enums.KMIPVersion.KMIP_1_2)
        bi=m.batch_items[0]; res.append((str(m.response_header.protocol_version), bi.result_status.value.name, bi.result_reason.value.name if bi.result_reason else None))
    return res, list(calls)
good=reqbytes()
print('good:', run(good, cert()))
print('good 1-byte chunks:', run(good, cert(), chunk=1))
print('no cert:', run(good, None))
print('eku absent:', run(good, cert(eku=None)))
print('eku server only:', run(good, cert(eku='server')))
print('eku absent, tls check off:', run(good, cert(eku=None), tls=False))
print('two CNs:', run(good, cert(cns=('a','b'))))
print('zero CNs:', run(good, cert(cns=())))
bad=good[:40]+b'\xff'*8+good[48:]
print('bad then good:', run(bad+good, cert()))
trunc=good[:8]+good[8:20]  # header says more than delivered then good follows -> misframing expected
print('v9.9 good:', run(reqbytes(ver=(9,9)), cert()))
print('maxsize 8:', run(reqbytes(maxsize=8), cert()))
print('unsupported plugin enabled:', run(good, cert(), auth=[('auth:other', {'enabled':'True'})]))
print('slugs enabled unreachable:', run(good, cert(), auth=[('auth:slugs', {'enabled':'True','url':'http://127.0.0.1:1/'})]))
