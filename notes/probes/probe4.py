import warnings; warnings.filterwarnings('ignore')
from kmip.core import enums, primitives, utils
from kmip.core.messages import contents, messages
def enc(o, v=enums.KMIPVersion.KMIP_1_2):
    s=utils.BytearrayStream(); o.write(s, kmip_version=v); return bytes(s.buffer)
for mk in [lambda: primitives.TextString('héllo'), lambda: primitives.Interval(4294967296), lambda: primitives.Interval(4294967295),
           lambda: primitives.Integer(-2147483648), lambda: primitives.LongInteger(-2**63), lambda: primitives.BigInteger(-2**63), lambda: primitives.BigInteger(2**63), lambda: primitives.BigInteger(0), lambda: primitives.BigInteger(-1),
           lambda: primitives.Boolean(False), lambda: primitives.DateTime(-1), lambda: primitives.TextString(''), lambda: primitives.ByteString(b'')]:
    try:
        o=mk(); b=enc(o); print(repr(o), b.hex())
        o2=type(o)() ; o2.read(utils.BytearrayStream(b)); print('   rt', o2==o, repr(o2))
    except Exception as ex: print('   EXC', type(ex).__name__, ex)
# BigInteger zero-length decode
b=bytes.fromhex('420000'+'04'+'00000000')
try:
    o=primitives.BigInteger(); o.read(utils.BytearrayStream(b)); print('bigint len0', o)
except Exception as ex: print('bigint len0 EXC', type(ex).__name__, ex)
# ResponseHeader correlation value
h = messages.ResponseHeader(protocol_version=contents.ProtocolVersion(1,4), time_stamp=contents.TimeStamp(1), batch_count=contents.BatchCount(0), server_correlation_value=contents.ServerCorrelationValue('corr'))
b=enc(h, enums.KMIPVersion.KMIP_1_4); h2=messages.ResponseHeader(); h2.read(utils.BytearrayStream(b), kmip_version=enums.KMIPVersion.KMIP_1_4)
print('resp header corr value after rt:', h2.server_correlation_value)
