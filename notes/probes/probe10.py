import warnings; warnings.filterwarnings('ignore')
exec(open(__import__('os').path.join(__import__('os').path.dirname(__import__('os').path.abspath(__file__)),'probe1.py')).read().split('print("create:"')[0])
from kmip.core.factories.secrets import SecretFactory
r = req([(enums.Operation.CREATE, create_payload(['k']), None)])
at = cobjects.Attribute(attribute_name=cobjects.Attribute.AttributeName('x-custom'), attribute_value=attributes.CustomAttribute('v'))
print('locate x-custom:', req([(enums.Operation.LOCATE, payloads.LocateRequestPayload(attributes=[at]), None)])[0][:3])
# wrapped key with falsy-only crypto params
kwd = {'wrapping_method': enums.WrappingMethod.ENCRYPT, 'encryption_key_information': {'unique_identifier':'1', 'cryptographic_parameters': {'random_iv': False, 'iv_length': 0}}, 'encoding_option': enums.EncodingOption.NO_ENCODING}
from kmip.pie import objects as pobj, factory as pfac
pk = pobj.SymmetricKey(enums.CryptographicAlgorithm.AES, 128, b'\x01'*24, key_wrapping_data=kwd)
core = pfac.ObjectFactory().convert(pk)
logging.disable(logging.NOTSET); logging.basicConfig(level=logging.ERROR)
r = req([(enums.Operation.REGISTER, payloads.RegisterRequestPayload(object_type=enums.ObjectType.SYMMETRIC_KEY, template_attribute=cobjects.TemplateAttribute(attributes=[]), managed_object=core), None)])
print('register wrapped', r[0][:3]); u=r[0][3].unique_identifier
g=req([(enums.Operation.GET, payloads.GetRequestPayload(unique_identifier=u), None)])[0][3].secret
print('sent  eki cp:', core.key_block.key_wrapping_data.encryption_key_information.cryptographic_parameters)
print('got   eki cp:', g.key_block.key_wrapping_data.encryption_key_information.cryptographic_parameters)
