import warnings; warnings.filterwarnings('ignore')
exec(open(__import__('os').path.join(__import__('os').path.dirname(__import__('os').path.abspath(__file__)),'probe1.py')).read().split('print("create:"')[0])
U=enums.CryptographicUsageMask
r = req([(enums.Operation.CREATE, create_payload(['k'], (U.ENCRYPT,U.DECRYPT)), None)]); k=r[0][3].unique_identifier
req([(enums.Operation.ACTIVATE, payloads.ActivateRequestPayload(attributes.UniqueIdentifier(k)), None)])
cp = attributes.CryptographicParameters(block_cipher_mode=enums.BlockCipherMode.CBC, padding_method=enums.PaddingMethod.PKCS5, cryptographic_algorithm=enums.CryptographicAlgorithm.AES)
print('encrypt bad IV len:', req([(enums.Operation.ENCRYPT, payloads.EncryptRequestPayload(unique_identifier=k, cryptographic_parameters=cp, data=b'hello', iv_counter_nonce=b'123'), None)])[0][:3])
r = req([(enums.Operation.ENCRYPT, payloads.EncryptRequestPayload(unique_identifier=k, cryptographic_parameters=cp, data=b'hello', iv_counter_nonce=b'0'*16), None)]); ct=r[0][3].data
print('decrypt ok:', req([(enums.Operation.DECRYPT, payloads.DecryptRequestPayload(unique_identifier=k, cryptographic_parameters=cp, data=ct, iv_counter_nonce=b'0'*16), None)])[0][3].data)
print('decrypt unaligned ct:', req([(enums.Operation.DECRYPT, payloads.DecryptRequestPayload(unique_identifier=k, cryptographic_parameters=cp, data=ct[:-1], iv_counter_nonce=b'0'*16), None)])[0][:3])
print('decrypt wrong iv (bad pad):', req([(enums.Operation.DECRYPT, payloads.DecryptRequestPayload(unique_identifier=k, cryptographic_parameters=cp, data=bytes(16), iv_counter_nonce=b'1'*16), None)])[0][:3])
g = attributes.CryptographicParameters(block_cipher_mode=enums.BlockCipherMode.GCM, cryptographic_algorithm=enums.CryptographicAlgorithm.AES, tag_length=16)
r = req([(enums.Operation.ENCRYPT, payloads.EncryptRequestPayload(unique_identifier=k, cryptographic_parameters=g, data=b'hello', iv_counter_nonce=b'0'*12), None)], ver=(1,4)); print('gcm enc', r[0][:3]); p=r[0][3]
print('gcm dec tampered tag:', req([(enums.Operation.DECRYPT, payloads.DecryptRequestPayload(unique_identifier=k, cryptographic_parameters=g, data=p.data, iv_counter_nonce=b'0'*12, auth_tag=bytes(16)), None)], ver=(1,4))[0][:3])
# C05: secret data registered with RAW key format
from kmip.core.factories.secrets import SecretFactory
sd = SecretFactory().create(enums.ObjectType.SECRET_DATA, {'key_format_type': enums.KeyFormatType.RAW, 'key_value': b'pw', 'secret_data_type': enums.SecretDataType.PASSWORD})
r = req([(enums.Operation.REGISTER, payloads.RegisterRequestPayload(object_type=enums.ObjectType.SECRET_DATA, template_attribute=cobjects.TemplateAttribute(attributes=[]), managed_object=sd), None)]); s=r[0][3].unique_identifier
g_=req([(enums.Operation.GET, payloads.GetRequestPayload(unique_identifier=s), None)])[0][3].secret
print('C05 secret data fmt stored RAW, got:', g_.key_block.key_format_type.value)
