import warnings; warnings.filterwarnings('ignore')
import logging; logging.disable(logging.CRITICAL)
from kmip.core import enums, utils
from kmip.core.messages import contents, messages, payloads
from kmip.services.kmip_client import KMIPProxy
from kmip.pie.client import ProxyKmipClient
class FakeProto:
    def __init__(self, resp): self.resp=resp
    def write(self, data): self.sent=bytes(data)
    def read(self): return utils.BytearrayStream(self.resp)
def mkresp(op, with_msg):
    bi = messages.ResponseBatchItem(operation=contents.Operation(op), result_status=contents.ResultStatus(enums.ResultStatus.OPERATION_FAILED),
         result_reason=contents.ResultReason(enums.ResultReason.ITEM_NOT_FOUND), result_message=contents.ResultMessage('nope') if with_msg else None)
    m = messages.ResponseMessage(response_header=messages.ResponseHeader(protocol_version=contents.ProtocolVersion(1,2), time_stamp=contents.TimeStamp(1), batch_count=contents.BatchCount(1)), batch_items=[bi])
    s=utils.BytearrayStream(); m.write(s, kmip_version=enums.KMIPVersion.KMIP_1_2); return bytes(s.buffer)
c = ProxyKmipClient(kmip_version=enums.KMIPVersion.KMIP_1_2); c._is_open=True
for with_msg in (True, False):
    c.proxy.protocol = FakeProto(mkresp(enums.Operation.DESTROY, with_msg))
    try: c.destroy('1'); print('returned')
    except Exception as ex: print('with_msg=%s ->'%with_msg, type(ex).__name__, ex)
