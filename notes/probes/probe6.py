import warnings; warnings.filterwarnings('ignore')
exec(open(__import__('os').path.join(__import__('os').path.dirname(__import__('os').path.abspath(__file__)),'probe1.py')).read().split('print("create:"')[0])
p = create_payload(['nm'])
def enc(o,v):
    s=utils.BytearrayStream(); o.write(s,kmip_version=v); return bytes(s.buffer)
b14a = enc(p, enums.KMIPVersion.KMIP_1_4)
b20 = enc(p, enums.KMIPVersion.KMIP_2_0)
b14b = enc(p, enums.KMIPVersion.KMIP_1_4)
print('1.4 before == 1.4 after 2.0 encode:', b14a==b14b)
q=payloads.CreateRequestPayload()
try:
    q.read(utils.BytearrayStream(b14b), kmip_version=enums.KMIPVersion.KMIP_1_4); print('decode after ok', q==p)
except Exception as ex: print('decode of second 1.4 encoding FAILS:', type(ex).__name__, ex)
