import warnings; warnings.filterwarnings('ignore')
exec(open(__import__('os').path.join(__import__('os').path.dirname(__import__('os').path.abspath(__file__)),'probe1.py')).read().split('print("create:"')[0])
from kmip.core import primitives
V=(2,0)
def names(k, ver=(1,4)):
    r=req([(enums.Operation.GET_ATTRIBUTES, payloads.GetAttributesRequestPayload(unique_identifier=k, attribute_names=['Name','Sensitive','Object Group','Application Specific Information']), None)], ver=ver)[0]
    return [(a.attribute_name.value, a.attribute_index.value if a.attribute_index else None, str(a.attribute_value)) for a in r[3].attributes] if r[3] else r[:3]
r = req([(enums.Operation.CREATE, create_payload(['n0','n1','n2']), None)], ver=(1,4)); k=r[0][3].unique_identifier
print(names(k))
# 2.0 Set Sensitive True, then False
for val in (True, False, True):
    r=req([(enums.Operation.SET_ATTRIBUTE, payloads.SetAttributeRequestPayload(unique_identifier=k, new_attribute=cobjects.NewAttribute(attribute=primitives.Boolean(val, tag=enums.Tags.SENSITIVE))), None)], ver=V)[0]
    print('Set Sensitive',val, r[:3]); 
print(names(k))
# 2.0 Modify Sensitive back to False w/ current
r=req([(enums.Operation.MODIFY_ATTRIBUTE, payloads.ModifyAttributeRequestPayload(unique_identifier=k, current_attribute=cobjects.CurrentAttribute(attribute=primitives.Boolean(True, tag=enums.Tags.SENSITIVE)), new_attribute=cobjects.NewAttribute(attribute=primitives.Boolean(False, tag=enums.Tags.SENSITIVE))), None)], ver=V)[0]
print('Modify Sensitive True->False', r[:3]); print(names(k))
# 2.0 Modify Name n1 -> m1
def nm(s): return attributes.Name(attributes.Name.NameValue(s), attributes.Name.NameType(enums.NameType.UNINTERPRETED_TEXT_STRING))
r=req([(enums.Operation.MODIFY_ATTRIBUTE, payloads.ModifyAttributeRequestPayload(unique_identifier=k, current_attribute=cobjects.CurrentAttribute(attribute=nm('n1')), new_attribute=cobjects.NewAttribute(attribute=nm('m1'))), None)], ver=V)[0]
print('Modify Name n1->m1', r[:3]); print(names(k))
# modify name to a duplicate
r=req([(enums.Operation.MODIFY_ATTRIBUTE, payloads.ModifyAttributeRequestPayload(unique_identifier=k, current_attribute=cobjects.CurrentAttribute(attribute=nm('m1')), new_attribute=cobjects.NewAttribute(attribute=nm('n0'))), None)], ver=V)[0]
print('Modify Name m1->n0 (dup)', r[:3]); print(names(k))
# 2.0 Delete by current attribute, then by reference
r=req([(enums.Operation.DELETE_ATTRIBUTE, payloads.DeleteAttributeRequestPayload(unique_identifier=k, current_attribute=cobjects.CurrentAttribute(attribute=nm('n2'))), None)], ver=V)[0]
print('Delete cur n2', r[:3]); print(names(k))
r=req([(enums.Operation.DELETE_ATTRIBUTE, payloads.DeleteAttributeRequestPayload(unique_identifier=k, attribute_reference=cobjects.AttributeReference(vendor_identification='x', attribute_name='Name')), None)], ver=V)[0]
print('Delete ref Name', r[:3]); print(names(k))
# 1.x modify name index 0 on now-empty -> error
at = F.create_attribute(enums.AttributeType.NAME, nm('zz'), 0)
print('1.x modify name idx0 on empty', req([(enums.Operation.MODIFY_ATTRIBUTE, payloads.ModifyAttributeRequestPayload(unique_identifier=k, attribute=at), None)], ver=(1,4))[0][:3])
# 1.x modify Sensitive
at = F.create_attribute(enums.AttributeType.SENSITIVE, True)
print('1.4 modify Sensitive True', req([(enums.Operation.MODIFY_ATTRIBUTE, payloads.ModifyAttributeRequestPayload(unique_identifier=k, attribute=at), None)], ver=(1,4))[0][:3]); print(names(k))
at = F.create_attribute(enums.AttributeType.SENSITIVE, False)
print('1.4 modify Sensitive False', req([(enums.Operation.MODIFY_ATTRIBUTE, payloads.ModifyAttributeRequestPayload(unique_identifier=k, attribute=at), None)], ver=(1,4))[0][:3]); print(names(k))
