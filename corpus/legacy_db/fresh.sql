BEGIN TRANSACTION;
CREATE TABLE app_specific_info (
	id INTEGER NOT NULL, 
	application_namespace VARCHAR, 
	application_data VARCHAR, 
	PRIMARY KEY (id)
);
CREATE TABLE app_specific_info_map (
	managed_object_id INTEGER, 
	app_specific_info_id INTEGER, 
	FOREIGN KEY(managed_object_id) REFERENCES managed_objects (uid) ON DELETE CASCADE, 
	FOREIGN KEY(app_specific_info_id) REFERENCES app_specific_info (id) ON DELETE CASCADE
);
CREATE TABLE certificates (
	uid INTEGER NOT NULL, 
	certificate_type INTEGER, 
	PRIMARY KEY (uid), 
	FOREIGN KEY(uid) REFERENCES crypto_objects (uid)
);
CREATE TABLE crypto_objects (
	uid INTEGER NOT NULL, 
	cryptographic_usage_mask INTEGER, 
	state INTEGER, 
	PRIMARY KEY (uid), 
	FOREIGN KEY(uid) REFERENCES managed_objects (uid)
);
CREATE TABLE keys (
	uid INTEGER NOT NULL, 
	cryptographic_algorithm INTEGER, 
	cryptographic_length INTEGER, 
	key_format_type INTEGER, 
	_kdw_wrapping_method INTEGER, 
	_kdw_eki_unique_identifier VARCHAR, 
	_kdw_eki_cp_block_cipher_mode INTEGER, 
	_kdw_eki_cp_padding_method INTEGER, 
	_kdw_eki_cp_hashing_algorithm INTEGER, 
	_kdw_eki_cp_key_role_type INTEGER, 
	_kdw_eki_cp_digital_signature_algorithm INTEGER, 
	_kdw_eki_cp_cryptographic_algorithm INTEGER, 
	_kdw_eki_cp_random_iv BOOLEAN, 
	_kdw_eki_cp_iv_length INTEGER, 
	_kdw_eki_cp_tag_length INTEGER, 
	_kdw_eki_cp_fixed_field_length INTEGER, 
	_kdw_eki_cp_invocation_field_length INTEGER, 
	_kdw_eki_cp_counter_length INTEGER, 
	_kdw_eki_cp_initial_counter_value INTEGER, 
	_kdw_mski_unique_identifier VARCHAR, 
	_kdw_mski_cp_block_cipher_mode INTEGER, 
	_kdw_mski_cp_padding_method INTEGER, 
	_kdw_mski_cp_hashing_algorithm INTEGER, 
	_kdw_mski_cp_key_role_type INTEGER, 
	_kdw_mski_cp_digital_signature_algorithm INTEGER, 
	_kdw_mski_cp_cryptographic_algorithm INTEGER, 
	_kdw_mski_cp_random_iv BOOLEAN, 
	_kdw_mski_cp_iv_length INTEGER, 
	_kdw_mski_cp_tag_length INTEGER, 
	_kdw_mski_cp_fixed_field_length INTEGER, 
	_kdw_mski_cp_invocation_field_length INTEGER, 
	_kdw_mski_cp_counter_length INTEGER, 
	_kdw_mski_cp_initial_counter_value INTEGER, 
	_kdw_mac_signature VARBINARY(1024), 
	_kdw_iv_counter_nonce VARBINARY(1024), 
	_kdw_encoding_option INTEGER, 
	PRIMARY KEY (uid), 
	FOREIGN KEY(uid) REFERENCES crypto_objects (uid)
);
CREATE TABLE managed_object_names (
	id INTEGER NOT NULL, 
	mo_uid INTEGER, 
	name VARCHAR, 
	name_index INTEGER, 
	name_type INTEGER, 
	PRIMARY KEY (id), 
	FOREIGN KEY(mo_uid) REFERENCES managed_objects (uid)
);
CREATE TABLE managed_objects (
	uid INTEGER NOT NULL PRIMARY KEY AUTOINCREMENT, 
	object_type INTEGER, 
	class_type VARCHAR(50), 
	value VARBINARY(1024), 
	name_index INTEGER, 
	operation_policy_name VARCHAR(50), 
	sensitive BOOLEAN, 
	initial_date INTEGER, 
	owner VARCHAR(50)
);
CREATE TABLE object_group_map (
	managed_object_id INTEGER, 
	object_group_id INTEGER, 
	FOREIGN KEY(managed_object_id) REFERENCES managed_objects (uid) ON DELETE CASCADE, 
	FOREIGN KEY(object_group_id) REFERENCES object_groups (id) ON DELETE CASCADE
);
CREATE TABLE object_groups (
	id INTEGER NOT NULL, 
	object_group VARCHAR NOT NULL, 
	PRIMARY KEY (id)
);
CREATE TABLE opaque_objects (
	uid INTEGER NOT NULL, 
	opaque_type INTEGER, 
	PRIMARY KEY (uid), 
	FOREIGN KEY(uid) REFERENCES managed_objects (uid)
);
CREATE TABLE private_keys (
	uid INTEGER NOT NULL, 
	PRIMARY KEY (uid), 
	FOREIGN KEY(uid) REFERENCES keys (uid)
);
CREATE TABLE public_keys (
	uid INTEGER NOT NULL, 
	PRIMARY KEY (uid), 
	FOREIGN KEY(uid) REFERENCES keys (uid)
);
CREATE TABLE secret_data_objects (
	uid INTEGER NOT NULL, 
	data_type INTEGER, 
	PRIMARY KEY (uid), 
	FOREIGN KEY(uid) REFERENCES crypto_objects (uid)
);
CREATE TABLE split_keys (
	uid INTEGER NOT NULL, 
	_split_key_parts INTEGER, 
	_key_part_identifier INTEGER, 
	_split_key_threshold INTEGER, 
	_split_key_method INTEGER, 
	_prime_field_size BIGINT, 
	PRIMARY KEY (uid), 
	FOREIGN KEY(uid) REFERENCES keys (uid)
);
CREATE TABLE symmetric_keys (
	uid INTEGER NOT NULL, 
	PRIMARY KEY (uid), 
	FOREIGN KEY(uid) REFERENCES keys (uid)
);
CREATE TABLE x509_certificates (
	uid INTEGER NOT NULL, 
	PRIMARY KEY (uid), 
	FOREIGN KEY(uid) REFERENCES certificates (uid)
);
DELETE FROM "sqlite_sequence";
COMMIT;
