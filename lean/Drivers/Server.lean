/-
Line-protocol driver of the COMPOSED byte-level server model (M17): `Server.serve` over `ServerBytes.world` - framing,
message loop, identity and maximum response size from M7 (`Session.run`), request decoding from M14
(`Decode.decodeFrame`), the engine from M5 (`processRequest`), the bytes from M15 (`ServerBytes.sentBytes`:
`Encode.responseBytes` / `ServerBytes.errorItem`).  One JSON object per input line, one per output line; the engine
state persists across lines (several connections against one store).

  {"cmd":"reset"}                      empty store, identifier sequence 1, built-in policies
  {"cmd":"restart"}                    new engine on the same store
  {"cmd":"policies","policies":{…}}    as Drivers/Engine.lean
  {"cmd":"dump"}                       as Drivers/Engine.lean
  {"cmd":"serve","now":N,"tls":bool,"cert":CERT|null,"chunks":[hex|null,…],
   "default_version":[maj,min],"max_response_size":N,        constants read off the real session / engine objects
   "answers":[{"frame":hex,"answers":[CRYPTO|null,…],         the backend's answers (`World.oracle`), one row per
               "msgs":[s|null,…],"rejected":s|null},…],       engine call of the real run (null = not asked); msgs /
                                                              rejected: the Result Message texts of the real answer
                                                              (see WORDING below)
   "extras":[{"op":N,"uid":s,"value":hex,"items":hex},…],     oracle subtrees (`ByteWorld.extrasOf`) recorded from the
                                                              real response: Key Wrapping Data / split-key fields of
                                                              a Get (keyed by identifier and key value), IV / tag of
                                                              an Encrypt (keyed by identifier and cipher text)
   "verbose":bool}
   -> {"events":[{"k":"handled","frame":hex,"sent":hex|null,"resp":RESP|null,"call":ID|null,
                  "verbatim":n,"subst":n,"size_by_wording":bool[,"results":[…]]}
                 | {"k":"badframe","bytes":hex},…],
       "dump":{"objs":[…],"placeholder":s|null},              the store after the connection (`Wire.jObj`)
       "unused_rows":n}                                       answer rows whose frame M14 does not decode
   -> {"conflict":s}      the answers do not define a FUNCTION of the decoded request (two frames decode to the same
                          `Request` but the backend answered them differently): not expressible as a `World`; nothing
                          is served, the state is unchanged

  CERT   {"eku":null|["client"|"other",…],"cns":[s,…]}     RESP  {"k":"normal","n":items} | {"k":"error","ver":[maj,min],"reason":N}
  CRYPTO as `Wire.pCrypto`

What is NOT taken from a model and why:
  * the backend's answers and the oracle subtrees: parameters of `ByteWorld` (data of the line);
  * the result-message TEXT of an error response: `Session.Response.error` records header version and reason only.
    The texts the session itself uses are the fixed table `sessionTextOf` below (session.py l.176-258; the
    certificate-stage and the authentication-stage failure share reason and, for a 1.0 request, header version:
    which of the two a connection can meet is decided by `Session.certStage`); for a request the engine rejects as a
    whole the text is the message of `processRequest`'s `.rejected` (`ServerBytes.rejected_bytes`), recomputed
    along the events (`answersOf`; it does not depend on the engine state: `ServerRun.rejection_state_independent`).
  * the version numbers echoed for a request whose protocol version is no member of KMIPVersion (`frameVersion`:
    M14 keeps such a version as 0, the session echoes the client's numbers; read off the frame with M14's readers).
  * WORDING.  The engine model M5 abstracts the wording of most Result Messages of FAILED items and of the
    unsupported-version rejection (its own correspondence compares status, reason and data, and the message only for
    the "Could not locate object" family).  For the bytes, the text of a failed item whose model text differs from
    the real one is therefore replaced by the real text (row field `msgs`, `rejected`) - never for a text of the
    "Could not locate object" family on either side, never when the model has no failed item there.  `verbatim` /
    `subst` count the failed items whose text the model reproduced / had replaced.  The substitution happens when
    the bytes are produced, not inside `serve`: `size_by_wording` says that the size check (which `serve` ran on the
    model's own wording) would have decided otherwise on the substituted wording - such a response is not comparable.
Anything unknown or malformed answers `bad-op …`.
-/
import KmipModel.Engine.Wire
import KmipModel.Props.ServerBytes
open Lean Kmip Kmip.Wire Kmip.Session Kmip.Server Kmip.ServerBytes

deriving instance BEq for Kmip.Payload
deriving instance BEq for Kmip.Item
deriving instance BEq for Kmip.Request

namespace SrvDriver

abbrev Bs := List UInt8

def need (j : Json) (k : String) : P Json :=
  match j.getObjVal? k with | .ok v => pure v | .error _ => throw s!"missing field {k}"

def hexDigitVal (c : Char) : Option Nat :=
  if '0' ≤ c ∧ c ≤ '9' then some (c.toNat - '0'.toNat)
  else if 'a' ≤ c ∧ c ≤ 'f' then some (c.toNat - 'a'.toNat + 10)
  else if 'A' ≤ c ∧ c ≤ 'F' then some (c.toNat - 'A'.toNat + 10)
  else none

def unhexAux : List Char → Array UInt8 → P (Array UInt8)
  | [], acc => pure acc
  | [_], _ => throw "odd hex length"
  | a :: b :: rest, acc =>
    match hexDigitVal a, hexDigitVal b with
    | some x, some y => unhexAux rest (acc.push (UInt8.ofNat (16 * x + y)))
    | _, _ => throw "bad hex digit"

def unhex (s : String) : P Bs := do pure (← unhexAux s.toList #[]).toList

def hexChar (n : Nat) : Char := if n < 10 then Char.ofNat (48 + n) else Char.ofNat (87 + n)
def hexOf (bs : Bs) : String :=
  String.ofList (bs.foldr (fun b acc => hexChar (b.toNat / 16) :: hexChar (b.toNat % 16) :: acc) [])

def pChunk (j : Json) : P (Option Bs) := opt (fun x => do unhex (← asStr x)) j

def pEku (j : Json) : P Eku := do
  match (← asStr j) with
  | "client" => pure .clientAuth
  | "other" => pure .other
  | k => throw s!"eku {k}"

def pCert (j : Json) : P Cert := do
  pure ⟨← opt (fun x => do (← asArr x).toList.mapM pEku) (← need j "eku"), ← listOf asStr (← need j "cns")⟩

def pVer (j : Json) : P Ver := do
  let a ← asArr j
  if a.size ≠ 2 then throw "version must be [major, minor]"
  pure (← asNat a[0]!, ← asNat a[1]!)
def jVer (v : Ver) : Json := Json.arr #[Json.num v.1, Json.num v.2]

def jIdentity (id : Identity) : Json :=
  Json.mkObj [("user", jOpt Json.str id.user),
              ("groups", match id.groups with
                | some g => Json.arr (g.map Json.str).toArray
                | none => Json.null)]

/-! ### the backend's answers as a function of the decoded request -/

structure ORow where
  req : Request
  ans : List (Option Crypto)

/-- the Result Message texts of one real engine answer -/
structure MRow where
  frame : Bs
  msgs : List (Option String)
  rejected : Option String

/-- item-wise union of two answer lists (`none` = the backend was not asked); `none` = they contradict each other -/
def mergeAns : List (Option Crypto) → List (Option Crypto) → Option (List (Option Crypto))
  | [], ys => some ys
  | xs, [] => some xs
  | x :: xs, y :: ys =>
    match mergeAns xs ys with
    | none => none
    | some t =>
      match x, y with
      | none, _ => some (y :: t)
      | _, none => some (x :: t)
      | some a, some b => if a == b then some (x :: t) else none

/-- `none` = conflict -/
def addRow (rows : List ORow) (r : ORow) : Option (List ORow) :=
  match rows with
  | [] => some [r]
  | x :: xs =>
    if x.req == r.req then (mergeAns x.ans r.ans).map (fun a => { x with ans := a } :: xs)
    else (addRow xs r).map (x :: ·)

def oracleOf (rows : List ORow) : Oracle := fun req =>
  match rows.find? (fun r => r.req == req) with
  | some r => r.ans.map (fun a => a.getD Crypto.internal)
  | none => []

/-! ### the oracle subtrees as a function of the results -/

structure XRow where
  op : Nat
  uid : String
  value : String
  items : List TTLV.Item

def lower (s : String) : String := s.map Char.toLower

def xLookup (xs : List XRow) (op : Nat) (uid value : String) : List TTLV.Item :=
  match xs.find? (fun r => r.op == op && r.uid == uid && r.value == lower value) with
  | some r => r.items
  | none => []

def extraFor (xs : List XRow) (r : ItemResult) : List TTLV.Item :=
  match r.result with
  | .ok (.object _ u v _ _ _ _ _) => if r.op == Op.get then xLookup xs Op.get u v else []
  | .ok (.crypto u (.ok t)) => if r.op == Op.encrypt then xLookup xs Op.encrypt u t else []
  | _ => []

def pXRow (j : Json) : P XRow := do
  let bs ← unhex (← asStr (← need j "items"))
  match TTLV.decodeList (bs.length + 1) bs with
  | some items => pure ⟨← asNat (← need j "op"), ← asStr (← need j "uid"), lower (← asStr (← need j "value")), items⟩
  | none => throw "extras: not well-formed TTLV"

/-! ### the texts of the error responses the session builds itself (session.py l.176-258) -/

def sessionTextOf (certStageFails : Bool) (_hdr : Ver) (rsn : Nat) : TTLV.Bytes :=
  EngineResponse.bytesOf (
    if rsn = SRsn.responseTooLarge then "Response message length too large. See server logs for more information."
    else if rsn = SRsn.invalidMessage then "Error parsing request message. See server logs for more information."
    else if rsn = SRsn.authenticationNotSuccessful then
      (if certStageFails then "Error verifying the client certificate. See server logs for more information."
       else "An error occurred during client authentication. See server logs for more information.")
    -- the engine model never raises anything but a KMIP error out of `process_request`: the only General Failure the
    -- composed model can send is the one for a response that cannot be written
    else "An unexpected error occurred while encoding the response. See server logs for more information.")

/-! ### the bytes of one handled frame -/

def located (s : String) : Bool := "Could not locate object".isPrefixOf s

/-- WORDING: replace the text of failed items by the real text; -> (results, verbatim, substituted) -/
def patchMsgs : List ItemResult → List (Option String) → List ItemResult × Nat × Nat
  | [], _ => ([], 0, 0)
  | r :: rs, ms =>
    let (t, v, n) := patchMsgs rs ms.tail
    match r.result, ms.headD none with
    | .error (.kmip rsn msg), some real =>
      if msg == real then (r :: t, v + 1, n)
      else if located msg || located real then (r :: t, v, n)
      else ({ r with result := .error (.kmip rsn real) } :: t, v, n + 1)
    | _, _ => (r :: t, v, n)

/-- the protocol version numbers of the request header, read off the frame with the decoder model's own readers.
M14 keeps a version that is no member of `KMIPVersion` as 0 (`Request.version`), so `Server.verOf` - what the composed
model puts into the header of an error response - is (0, 0) for such a request, while the session echoes
`request.request_header.protocol_version` (C16).  GLUE OUTSIDE THE MODELS: for a response header (0, 0) the numbers
are taken from the frame. -/
def frameVersion (data : Bs) : Option Ver :=
  match Decode.lenientTop data with
  | .struct _ (.struct _ hk :: _) =>
    match hk.find? (fun i => Decode.tagOf i == Decode.T.protocolVersion) with
    | some pv =>
      match Decode.protocolVersion pv with
      | .ok (ma, mi) => if ma ≥ 0 ∧ mi ≥ 0 then some (ma.toNat, mi.toNat) else none
      | .error _ => none
    | none => none
  | _ => none

def echoed (data : Bs) (hdr : Ver) : Ver := if hdr == (0, 0) then (frameVersion data).getD hdr else hdr

structure EvOut where
  bytes : Option TTLV.Bytes := none
  verbatim : Nat := 0
  subst : Nat := 0
  sizeByWording : Bool := false

/-- the bytes handed to `sendall` for one handled frame; `res` = the engine model's answer to it (`none`: the engine was
not called), `row` = the texts of the real answer -/
def eventBytes (b : ByteWorld) (cfg : SessionCfg) (ctx : Ctx) (data : Bs) (o : Outcome Request (List ItemResult))
    (res : Option ReqResult) (row : Option MRow) : EvOut :=
  let now : Int := Int.ofNat ctx.now
  let own (hdr : Ver) (rsn : Nat) : EvOut :=
    { bytes := some (TTLV.encode (errorItem (echoed data hdr) now rsn (b.errText hdr rsn))) }
  match o.engineCall, res with
  | some (req, _), some (.results rs) =>
    let (rs', _, n) := patchMsgs rs ((row.map (·.msgs)).getD [])
    -- would the size check have decided otherwise on the substituted wording?
    let big (x : List ItemResult) : Option Bool :=
      (Encode.responseLen req.version 0 (b.extrasOf x) (.results x)).map (fun k => decide ((k : Int) > maxFor cfg req))
    let flag := n > 0 && big rs != big rs'
    match o.sent with
    | some (.normal sent) =>
      -- the bytes are those of the results `serve` itself decided to send (`sent`; `rs` is only used for the flag)
      let (sent', v, n) := patchMsgs sent ((row.map (·.msgs)).getD [])
      { bytes := sentBytes b now (verOf req) (.normal sent'), verbatim := v, subst := n, sizeByWording := flag }
    | some (.error hdr rsn) => { own hdr rsn with sizeByWording := flag }
    | none => { sizeByWording := flag }
  | some _, some (.rejected r m) =>
    match o.sent with
    | some (.error hdr rsn) =>
      if rsn == SRsn.responseTooLarge || rsn == SRsn.generalFailure || r != rsn then own hdr rsn else
      let real := ((row.bind (·.rejected)).getD m)
      -- (`ServerBytes.rejected_bytes`: with the engine's message as text this is `responseBytes … (.rejected r m)`)
      let bytes := some (TTLV.encode (errorItem (echoed data hdr) now r (EngineResponse.bytesOf real)))
      if real == m then { bytes := bytes, verbatim := 1 } else { bytes := bytes, subst := 1 }
    | _ => {}
  | _, _ =>
    match o.sent with
    | some (.error hdr rsn) => own hdr rsn
    | _ => {}

def jResp : Option (Response (List ItemResult)) → Json
  | none => Json.null
  | some (.normal rs) => Json.mkObj [("k", "normal"), ("n", jNat rs.length)]
  | some (.error v r) => Json.mkObj [("k", "error"), ("ver", jVer v), ("reason", jNat r)]

/-- the engine model's answer to every event, recomputed along the events (`ServerProps.decoded_frame_runs_engine`:
the engine state after a frame that reached the engine is `processRequest`'s; every other frame leaves it alone);
-> (answers, final state) - the final state must be `serve`'s -/
def answersOf (b : ByteWorld) (ctx : Ctx) : Engine → List (Event Request (List ItemResult)) →
    List (Option ReqResult) × Engine
  | e, [] => ([], e)
  | e, .badFrame _ :: r => let (t, e') := answersOf b ctx e r; (none :: t, e')
  | e, .handled _ o :: r =>
    match o.engineCall with
    | none => let (t, e') := answersOf b ctx e r; (none :: t, e')
    | some (req, id) =>
      let (e1, res) := processRequest ctx e id (withOracle b.oracle req)
      let (t, e') := answersOf b ctx e1 r
      (some res :: t, e')

/-- events with the answer of the engine model and the row of the real engine call they belong to -/
def jEvents (b : ByteWorld) (cfg : SessionCfg) (ctx : Ctx) (verbose : Bool) :
    List (Event Request (List ItemResult)) → List (Option ReqResult) → List MRow → List Json
  | [], _, _ => []
  | .badFrame p :: r, as, rows =>
    Json.mkObj [("k", "badframe"), ("bytes", hexOf p)] :: jEvents b cfg ctx verbose r as.tail rows
  | .handled d o :: r, as, rows =>
    let (row, rows') : Option MRow × List MRow :=
      match o.engineCall, rows with
      | some _, x :: xs => (if x.frame == d then some x else none, xs)
      | _, _ => (none, rows)
    let res := as.headD none
    let ev := eventBytes b cfg ctx d o res row
    let base : List (String × Json) :=
      [("k", "handled"), ("frame", hexOf d), ("sent", jOpt (fun bs => Json.str (hexOf bs)) ev.bytes),
       ("resp", jResp o.sent), ("call", jOpt (fun c => jIdentity c.2) o.engineCall),
       ("verbatim", jNat ev.verbatim), ("subst", jNat ev.subst), ("size_by_wording", ev.sizeByWording)]
    let more : List (String × Json) :=
      match verbose, res with
      | true, some (.results rs) => [("results", Json.arr (rs.map jResult).toArray)]
      | true, some (.rejected rsn m) => [("rejected", Json.mkObj [("reason", jNat rsn), ("msg", m)])]
      | _, _ => []
    Json.mkObj (base ++ more) :: jEvents b cfg ctx verbose r as.tail rows'

def jDump (e : Engine) : Json :=
  Json.mkObj [("objs", Json.arr (e.store.objs.map jObj).toArray), ("placeholder", jOpt Json.str e.placeholder)]

def noSlugs : Slugs := ⟨fun _ _ => .unreachable, fun _ _ => .unreachable⟩

def serveCmd (s : DState) (j : Json) : P (DState × Json) := do
  let now ← asNat (← need j "now")
  let tls ← asBool (← need j "tls")
  let peer ← opt pCert (← need j "cert")
  let conn ← (do (← asArr (← need j "chunks")).toList.mapM pChunk)
  let dv ← pVer (← need j "default_version")
  let mrs ← asNat (← need j "max_response_size")
  let verbose := (jget j "verbose") == Json.bool true
  let cfg : SessionCfg := { auth := ⟨tls, [], noSlugs⟩, defaultVer := dv, maxResponseSize := mrs }
  let ctx := mkCtx s now
  -- the decoder's default version is a constant of the composed model (`World.defaultVer`)
  if verNum dv ≠ ({ ctxOf := fun _ => ctx, oracle := fun _ => [], encLen := fun _ _ => none } : World).defaultVer then
    throw s!"default protocol version {dv.1}.{dv.2} is not the model's"
  -- answers: frame ↦ decoded request ↦ answers
  let rowsJ ← (listOf (fun r => do
    let f ← unhex (← asStr (← need r "frame"))
    let a ← (do (← asArr (← need r "answers")).toList.mapM (fun x => if x.isNull then pure none else some <$> pCrypto x))
    let ms ← listOf (opt asStr) (jget r "msgs")
    let rej ← opt asStr (jget r "rejected")
    pure (f, a, (⟨f, ms, rej⟩ : MRow))) (jget j "answers"))
  let mut rows : List ORow := []
  let mut unused := 0
  for (f, a, _) in rowsJ do
    match Decode.decodeFrame 12 f with
    | .error _ => unused := unused + 1
    | .ok req =>
      match addRow rows ⟨req, a⟩ with
      | some rs => rows := rs
      | none => return (s, Json.mkObj [("conflict", hexOf f)])
  let xs ← listOf pXRow (jget j "extras")
  let certFails := (certStage tls peer).isNone
  let b : ByteWorld :=
    { ctxOf := fun _ => ctx, oracle := oracleOf rows, extrasOf := fun rs => rs.map (extraFor xs),
      errText := sessionTextOf certFails }
  let (events, e') := serve (world b) cfg peer s.engine conn
  let (answers, e2) := answersOf b ctx s.engine events
  if e2 != e' then throw "internal: the engine state recomputed along the events is not serve's" else
  pure ({ s with engine := e' },
        Json.mkObj [("events", Json.arr (jEvents b cfg ctx verbose events answers (rowsJ.map (·.2.2))).toArray),
                    ("dump", jDump e'), ("unused_rows", jNat unused)])

def step (s : DState) (line : String) : DState × String :=
  match Json.parse line with
  | .error e => (s, s!"bad-json {e}")
  | .ok j =>
    let r : P (DState × Json) := do
      match (← asStr (jget j "cmd")) with
      | "reset" => pure ({ engine := Engine.init, policies := Gen.builtinPolicies }, Json.str "ok")
      | "restart" => pure ({ s with engine := s.engine.restart }, Json.str "ok")
      | "policies" => do
        let ps ← pPolicies (jget j "policies")
        pure ({ s with policies := ps }, Json.str "ok")
      | "dump" => pure (s, jDump s.engine)
      | "serve" => serveCmd s j
      | c => throw s!"cmd {c}"
    match r with
    | .ok (s', out) => (s', out.compress)
    | .error e => (s, s!"bad-op {e}")

end SrvDriver

partial def loop (h : IO.FS.Stream) (out : IO.FS.Stream) (s : DState) : IO Unit := do
  let line ← h.getLine
  if line.isEmpty then return ()
  let (s', o) := SrvDriver.step s line
  out.putStrLn o
  loop h out s'

def main : IO Unit := do
  loop (← IO.getStdin) (← IO.getStdout) { engine := Engine.init, policies := Gen.builtinPolicies }
