/- Driver for M9b: the plans of DeriveKey, MAC, Sign / SignatureVerify, asymmetric Encrypt / Decrypt,
key wrapping and key creation.  One JSON object per line in, one per line out. -/
import Lean.Data.Json
import KmipModel.CryptoPlans
import KmipModel.Gen.Tables
import KmipModel.Gen.CryptoTables
open Lean Kmip Kmip.Crypto Kmip.CryptoPlans

abbrev P := Except String
def jget (j : Json) (k : String) : Json := (j.getObjVal? k).toOption.getD Json.null
def optNat (j : Json) : P (Option Nat) :=
  if j.isNull then pure none else match j.getNat? with | .ok n => pure (some n) | .error e => throw e
def optInt (j : Json) : P (Option Int) :=
  if j.isNull then pure none else match j.getInt? with | .ok n => pure (some n) | .error e => throw e
def reqNat (j : Json) (k : String) : P Nat :=
  match (jget j k).getNat? with | .ok n => pure n | .error e => throw s!"{k}: {e}"
def reqInt (j : Json) (k : String) : P Int :=
  match (jget j k).getInt? with | .ok n => pure n | .error e => throw s!"{k}: {e}"
/-- a key that must be present (possibly null): a misspelt field is an error, not an absent parameter -/
def fld (j : Json) (k : String) : P Json :=
  match j.getObjVal? k with | .ok v => pure v | .error _ => throw s!"missing field {k}"
def fNat (j : Json) (k : String) : P (Option Nat) := do optNat (← fld j k)
def fInt (j : Json) (k : String) : P (Option Int) := do optInt (← fld j k)

def jOptNat : Option Nat → Json | none => Json.null | some n => Json.num n
def jStr (l : List Nat) : Json := Json.str (String.ofList (l.map Char.ofNat))
def jOptStr : Option (List Nat) → Json | none => Json.null | some l => jStr l
def jInt (i : Int) : Json := Json.num (JsonNumber.fromInt i)

def reasonStr : Reason → String
  | .invalidField => "InvalidField" | .cryptographicFailure => "CryptographicFailure"
  | .operationNotSupported => "OperationNotSupported" | .encodingOptionError => "EncodingOptionError"
  | .internal => "internal"

def T : Tables2 :=
  { sym := ⟨Gen.cryptoSymAlgs, Gen.cryptoModes, Gen.cryptoSymPadding⟩, encHashes := Gen.cryptoEncHashes,
    macHashes := Gen.cryptoMacHashes, dsa := Gen.cryptoDsa, asymPadding := Gen.cryptoAsymPadding,
    asymAlgs := Gen.cryptoAsymAlgs, keySizes := Gen.cryptoSymKeySizes }

def jErr (e : PErr) : Json := Json.mkObj [("err", Json.str (reprStr e)), ("reason", Json.str (reasonStr e.reason))]

def srcStr : Src → String
  | .keyMaterial => "key" | .derivationData => "ddata" | .salt => "salt" | .iv => "iv" | .absent => "none"

def kindStr : DKind → String
  | .hash => "hash" | .hkdf => "hkdf" | .pbkdf2 => "pbkdf2" | .kbkdf => "kbkdf" | .symEncrypt => "sym" | .rsaEncrypt => "rsa"

/-- `onFailure`: what a refusal of the RSA primitive itself becomes -/
def jAsym : AsymScheme → Json
  | .oaep h => Json.mkObj [("scheme", Json.str "OAEP"), ("hash", jStr h), ("mgf", jStr h), ("label", Json.null),
      ("onFailure", Json.str (reasonStr asymOpFailure)), ("onKeyFailure", Json.str (reasonStr asymKeyFailure))]
  | .pkcs1v15 => Json.mkObj [("scheme", Json.str "PKCS1v15"),
      ("onFailure", Json.str (reasonStr asymOpFailure)), ("onKeyFailure", Json.str (reasonStr asymKeyFailure))]

def jSymPlan (p : Crypto.Plan) : Json :=
  Json.mkObj [("alg", Json.num p.alg), ("mode", jOptNat p.mode), ("iv", jOptNat p.iv),
    ("ivGenerated", Json.bool p.ivGenerated), ("padding", jOptNat p.padding), ("gcm", Json.bool p.gcm),
    ("tagLen", jOptNat p.tagLen), ("block", Json.num p.blockBits)]

def jSig (p : SigPlan) (onFailure onKeyFailure : Reason) : Json :=
  Json.mkObj [("onFailure", Json.str (reasonStr onFailure)), ("onKeyFailure", Json.str (reasonStr onKeyFailure)), ("pad", Json.str (match p.pad with | .pss => "PSS" | .pkcs1v15 => "PKCS1v15")), ("hash", jStr p.hash),
    ("mgf", match p.pad with | .pss => jStr p.hash | .pkcs1v15 => Json.null),
    ("salt", match p.pad with | .pss => Json.str "MAX" | .pkcs1v15 => Json.null)]

def jDerivePlan (pl : DerivePlan) (dataLen rsaBytes : Nat) : List (String × Json) :=
  [("kind", Json.str (kindStr pl.kind)), ("hash", jOptStr pl.hash), ("digest", Json.num pl.digestBytes),
   ("ask", jOptNat pl.askLength), ("key", Json.str (srcStr pl.key)), ("data", Json.str (srcStr pl.data)),
   ("salt", Json.str (srcStr pl.salt)), ("iters", jOptNat pl.iterations),
   ("sym", match pl.sym with | some s => jSymPlan s | none => Json.null),
   ("asym", match pl.asym with | some s => jAsym s | none => Json.null),
   ("rawLen", Json.num (pl.rawLen dataLen rsaBytes))]

def pDerive (j : Json) (length : Nat) (forceKeyIv : Bool) : P DeriveParams := do
  let iv ← fNat j "iv"
  let key ← fNat j "key"
  pure { method := ← reqNat j "method", length := length, ddata := ← fNat j "ddata",
         keyMaterial := if forceKeyIv then some (key.getD 0) else key,
         hash := ← fNat j "hash", salt := ← fNat j "salt", iterations := ← fInt j "iters",
         encAlg := ← fNat j "encalg", mode := ← fNat j "mode", padding := ← fNat j "padding",
         iv := if forceKeyIv then some (iv.getD 0) else iv }

def pSig (j : Json) : P SigParams := do
  pure ⟨← fNat j "dsa", ← fNat j "alg", ← fNat j "hash", ← fNat j "padding"⟩

def pAsym (j : Json) : P AsymParams := do
  pure ⟨← fNat j "alg", ← fNat j "padding", ← fNat j "hash"⟩

def jTable4 (t : List (Nat × List Nat × List Nat × Nat)) : Json :=
  Json.arr (t.map (fun r => Json.arr #[Json.num r.1, jStr r.2.1, jStr r.2.2.1, Json.num r.2.2.2])).toArray

def jTables : Json :=
  Json.mkObj [
    ("const", Json.mkObj [("RSA", Json.num rsa), ("OAEP", Json.num padOAEP), ("PKCS1v15", Json.num padPKCS1v15),
      ("PSS", Json.num padPSS), ("PBKDF2", Json.num mPBKDF2), ("HASH", Json.num mHASH), ("HMAC", Json.num mHMAC),
      ("ENCRYPT", Json.num mENCRYPT), ("NIST800_108_C", Json.num mNIST800_108_C),
      ("WRAP_ENCRYPT", Json.num wrapENCRYPT), ("NIST_KEY_WRAP", Json.num nistKeyWrap),
      ("NO_ENCODING", Json.num noEncoding), ("PKCS_1", Json.num fmtPKCS1), ("PKCS_8", Json.num fmtPKCS8),
      ("RAW", Json.num fmtRAW), ("RC4", Json.num Crypto.rc4), ("CBC", Json.num Crypto.cbc),
      ("ECB", Json.num Crypto.ecb), ("GCM", Json.num Crypto.gcm)]),
    ("symAlgs", Json.arr (T.sym.symAlgs.map (fun r => Json.arr #[Json.num r.1, Json.str r.2.1, Json.num r.2.2])).toArray),
    ("encHashes", jTable4 T.encHashes), ("macHashes", jTable4 T.macHashes), ("dsa", jTable4 T.dsa),
    ("asymPadding", Json.arr (T.asymPadding.map (fun r => Json.arr #[Json.num r.1, Json.str r.2])).toArray),
    ("asymAlgs", Json.arr (T.asymAlgs.map (fun (n : Nat) => Json.num n)).toArray),
    ("symKeySizes", Json.arr (T.keySizes.map (fun r => Json.arr #[Json.num r.1,
        Json.arr (r.2.map (fun (n : Nat) => Json.num n)).toArray])).toArray),
    ("wrappingMethod", Json.arr (Gen.enumWrappingMethod.map (fun r => Json.arr #[Json.str r.1, Json.num r.2])).toArray),
    ("encodingOption", Json.arr (Gen.enumEncodingOption.map (fun r => Json.arr #[Json.str r.1, Json.num r.2])).toArray)]

def step (line : String) : String :=
  match Json.parse line with
  | .error e => s!"bad-json {e}"
  | .ok j =>
    let r : P Json := do
      match (jget j "cmd").getStr? with
      | .ok "tables" => pure jTables
      | .ok "derive" =>
        -- `derive_key` itself: length in bytes; byte strings by presence and length
        let p ← pDerive j (← reqNat j "length") false
        let rsaBytes := (← fNat j "rsabytes").getD 0
        match derivePlan T p with
        | .error e => pure (jErr e)
        | .ok pl => pure (Json.mkObj (jDerivePlan pl (p.ddata.getD 0) rsaBytes))
      | .ok "deriveServer" =>
        -- `_process_derive_key`: Cryptographic Length in bits; key material always present, absent IV = b''
        let bits ← fInt j "bits"
        let rsaBytes := (← fNat j "rsabytes").getD 0
        match deriveLength bits with
        | .error e => pure (jErr e)
        | .ok n =>
          let p ← pDerive j n true
          match derivePlan T p with
          | .error e => pure (jErr e)
          | .ok pl =>
            let raw := pl.rawLen (p.ddata.getD 0) rsaBytes
            match deriveOutput n raw with
            | .error e => pure (jErr e)
            | .ok m => pure (Json.mkObj (jDerivePlan pl (p.ddata.getD 0) rsaBytes ++
                [("n", Json.num n), ("final", Json.num m), ("lengthAttr", Json.num (derivedKeyLengthAttr n))]))
      | .ok "mac" =>
        match macPlan T (← fNat j "alg") with
        | .error e => pure (jErr e)
        | .ok (.hmac h n) => pure (Json.mkObj [("family", Json.str "HMAC"), ("hash", jStr h), ("outLen", Json.num n),
            ("onFailure", Json.str (reasonStr macOpFailure))])
        | .ok (.cmac a cls n) => pure (Json.mkObj [("family", Json.str "CMAC"), ("alg", Json.num a),
            ("cls", Json.str cls), ("outLen", Json.num n), ("onFailure", Json.str (reasonStr macOpFailure))])
      | .ok "sign" =>
        match signPlan T (← pSig j) with
        | .error e => pure (jErr e)
        | .ok pl => pure (jSig pl signOpFailure signKeyFailure)
      | .ok "verify" =>
        match verifyPlan T (← pSig j) with
        | .error e => pure (jErr e)
        | .ok pl => pure (jSig pl verifyOpFailure verifyKeyFailure)
      | .ok "aenc" =>
        match asymEncPlan T (← pAsym j) with
        | .error e => pure (jErr e)
        | .ok s => pure (jAsym s)
      | .ok "adec" =>
        match asymDecPlan T (← pAsym j) with
        | .error e => pure (jErr e)
        | .ok s => pure (jAsym s)
      | .ok "wrap" =>
        match wrapPlan (← fNat j "method") (← fNat j "mode") with
        | .error e => pure (jErr e)
        | .ok .aesKeyWrap => pure (Json.mkObj [("prim", Json.str "aes_key_wrap"),
            ("onFailure", Json.str (reasonStr wrapOpFailure))])
      | .ok "getwrap" =>
        let params ← match (← fld j "params").getBool? with | .ok b => pure b | .error e => throw e
        let mode ← fNat j "mode"
        match getWrapPlan (← fNat j "method") (if params then some mode else none) (← fNat j "encoding") with
        | .error e => pure (jErr e)
        | .ok .aesKeyWrap => pure (Json.mkObj [("prim", Json.str "aes_key_wrap")])
      | .ok "create" =>
        match createSymPlan T (← fNat j "alg") (← reqInt j "length") with
        | .error e => pure (jErr e)
        | .ok pl => pure (Json.mkObj [("alg", Json.num pl.alg), ("cls", Json.str pl.cls),
            ("bytes", Json.num pl.randomBytes), ("format", Json.num pl.format),
            ("onFailure", Json.str (reasonStr createSymFailure))])
      | .ok "pair" =>
        match createPairPlan T (← fNat j "alg") (← reqInt j "length") with
        | .error e => pure (jErr e)
        | .ok pl => pure (Json.mkObj [("exponent", Json.num pl.publicExponent), ("keySize", jInt pl.keySize),
            ("pubFormat", Json.num pl.publicFormat), ("privFormat", Json.num pl.privateFormat),
            ("onFailure", Json.str (reasonStr createPairFailure))])
      | _ => throw "cmd"
    match r with
    | .ok o => o.compress
    | .error e => s!"bad-op {e}"

partial def loop (h : IO.FS.Stream) (out : IO.FS.Stream) : IO Unit := do
  let line ← h.getLine
  if line.isEmpty then return ()
  out.putStrLn (step line)
  loop h out

def main : IO Unit := do loop (← IO.getStdin) (← IO.getStdout)
