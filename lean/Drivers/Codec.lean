/-
Line-protocol driver for the codec models M1 (`KmipModel/TTLV.lean`, specification side) and
M2 (`KmipModel/Prim.lean`, Python-faithful primitives).  One JSON object per input line, one per output line.

  {"op":"parse","hex":H}
      strict M1 parse of a whole byte string:
      {"ok":true,"residue":N,"canonical":B,"tree":T,"reencode":H'}   (reencode = encoding of the canonical form)
      {"ok":false}
      T = {"t":tag,"k":kind,"v":value} | {"t":tag,"s":[T…]};  numbers are decimal strings, byte/text values hex
      with "env":true the response-envelope predicate `Kmip.Envelope.faults` is evaluated on the tree
      ("reqver":[major,minor] = protocol version of the decoded request, or null) and "faults":[…] is added,
      and "composed":B — the tree is exactly what `Kmip.Envelope.buildResponse` composes from its own contents
  {"op":"enc","ty":N,"tag":N,"v":V}
      V = decimal string (ty 2,3,4,5,9,10) | bool (6) | [code points] (7; "dec" answers text as UTF-8 hex) | hex (8)
      {"constructible":B,"py":{"ok":H}|{"err":E},"pyre":H|null,"spec":H|null}
      pyre = M2 `pyReencode`: what an object filled by read() (not by the constructor) writes
      py = M2 `pyEncode`; spec = M1 `encode` of the same value read as the specification does
      null when the specification has no encoding for it
  {"op":"schemas"}                       names of the M3 schema table
  {"op":"schema","name":S,"ver":N,"hex":H}
      M3: strict M1 parse, then `Kmip.Schema.decodeS` of the named schema under version N (10..20):
      {"ok":true,"counts":[items per field],"stable":B}  (stable: writer output of the decoded value = the input)
      {"ok":false,"why":"ttlv"|"schema"}
  {"op":"dec","ty":N,"tag":N,"members":[N…]|null,"hex":H}
      M2 `pyDecode`: {"ok":true,"v":V,"rest":N} | {"ok":false,"err":E}
-/
import Lean.Data.Json
import KmipModel.TTLV
import KmipModel.Prim
import KmipModel.Envelope
import KmipModel.Schemas
open Lean Kmip.TTLV Kmip.Prim

abbrev P := Except String

def jget (j : Json) (k : String) : Json := (j.getObjVal? k).toOption.getD Json.null
def asNat (j : Json) : P Nat := match j.getNat? with | .ok n => pure n | .error e => throw s!"nat: {e}"
def asStr (j : Json) : P String := match j.getStr? with | .ok n => pure n | .error e => throw s!"str: {e}"
def asBool (j : Json) : P Bool := match j.getBool? with | .ok n => pure n | .error e => throw s!"bool: {e}"
def asArr (j : Json) : P (Array Json) := match j.getArr? with | .ok n => pure n | .error e => throw s!"arr: {e}"
def asIntStr (j : Json) : P Int := do
  match (← asStr j).toInt? with
  | some v => pure v
  | none => throw "int string expected"

def hexDigit (c : Char) : Option Nat :=
  if '0' ≤ c ∧ c ≤ '9' then some (c.toNat - '0'.toNat)
  else if 'a' ≤ c ∧ c ≤ 'f' then some (c.toNat - 'a'.toNat + 10)
  else if 'A' ≤ c ∧ c ≤ 'F' then some (c.toNat - 'A'.toNat + 10)
  else none

def unhexAux : List Char → Array UInt8 → P (Array UInt8)
  | [], acc => pure acc
  | [_], _ => throw "odd hex length"
  | a :: b :: rest, acc =>
    match hexDigit a, hexDigit b with
    | some x, some y => unhexAux rest (acc.push (UInt8.ofNat (16 * x + y)))
    | _, _ => throw "bad hex digit"

def unhex (s : String) : P Bytes := do pure (← unhexAux s.toList #[]).toList

def hexChar (n : Nat) : Char := if n < 10 then Char.ofNat (48 + n) else Char.ofNat (87 + n)
def hex (bs : Bytes) : String :=
  String.ofList (bs.foldr (fun b acc => hexChar (b.toNat / 16) :: hexChar (b.toNat % 16) :: acc) [])

def jInt (v : Int) : Json := Json.str (toString v)
def jN (v : Nat) : Json := Json.str (toString v)

def jPVal : PVal → List (String × Json)
  | .integer v => [("k", "int"), ("v", jInt v)]
  | .longInteger v => [("k", "long"), ("v", jInt v)]
  | .bigInteger v len => [("k", "big"), ("v", jInt v), ("len", jN len)]
  | .enumeration v => [("k", "enum"), ("v", jN v)]
  | .boolean b => [("k", "bool"), ("v", Json.bool b)]
  | .textString s => [("k", "text"), ("v", hex s)]
  | .byteString s => [("k", "bytes"), ("v", hex s)]
  | .dateTime v => [("k", "date"), ("v", jInt v)]
  | .interval v => [("k", "interval"), ("v", jN v)]

partial def jItem : Item → Json
  | .prim t v => Json.mkObj (("t", Json.num t) :: jPVal v)
  | .struct t ks => Json.mkObj [("t", Json.num t), ("s", Json.arr (ks.map jItem).toArray)]

def jPyVal : PyVal → Json
  | .integer v => jInt v
  | .longInteger v => jInt v
  | .bigInteger v => jInt v
  | .enumeration v => jInt v
  | .boolean b => Json.bool b
  | .textString s => hex s
  | .byteString s => hex s
  | .dateTime v => jInt v
  | .interval v => jInt v

def pPyVal (ty : Nat) (j : Json) : P PyVal := do
  match ty with
  | 2 => .integer <$> asIntStr j
  | 3 => .longInteger <$> asIntStr j
  | 4 => .bigInteger <$> asIntStr j
  | 5 => .enumeration <$> asIntStr j
  | 6 => .boolean <$> asBool j
  | 7 => do
    -- a str given as code points; represented by its UTF-8 bytes (a lone surrogate has none: the constructor
    -- of /repo raises on it, answered as not constructible by the caller)
    let cps ← (← asArr j).toList.mapM asNat
    if cps.all (fun c => c < 0x110000 ∧ ¬ (0xD800 ≤ c ∧ c < 0xE000)) then
      pure (.textString (String.ofList (cps.map Char.ofNat)).toUTF8.toList)
    else throw "not-a-str"
  | 8 => do pure (.byteString (← unhex (← asStr j)))
  | 9 => .dateTime <$> asIntStr j
  | 10 => .interval <$> asIntStr j
  | _ => throw s!"type {ty}"

/-- the value as the specification reads it (none = not a value of that type at all) -/
def specVal : PyVal → Option PVal
  | .integer v => some (.integer v)
  | .longInteger v => some (.longInteger v)
  | .bigInteger v => some (.bigInteger v (bigLen v))
  | .enumeration v => if 0 ≤ v then some (.enumeration v.toNat) else none
  | .boolean b => some (.boolean b)
  | .textString s => some (.textString s)
  | .byteString s => some (.byteString s)
  | .dateTime v => some (.dateTime v)
  | .interval v => if 0 ≤ v then some (.interval v.toNat) else none

def errName : EncErr → String
  | .packRange => "packRange" | .notUtf8 => "notUtf8" | .lengthOverflow => "lengthOverflow"
def derrName : DecErr → String
  | .short => "short" | .tag => "tag" | .type => "type" | .length => "length" | .pad => "pad" | .value => "value"

/-- read a response tree back into the arguments of `Kmip.Envelope.buildResponse` and compose it again: true iff
the tree is exactly what the transcription of `_process_batch` / `_build_response` composes from those arguments -/
def recomposes (i : Item) : Bool :=
  open Kmip.Envelope in
  match i with
  | .struct _ (.struct _ hk :: items) =>
    let pv := kidsOf (find tProtocolVersion hk)
    match pv.bind (fun ks => intOf (find tProtocolVersionMajor ks)),
          pv.bind (fun ks => intOf (find tProtocolVersionMinor ks)), find tTimeStamp hk with
    | some a, some b, some (.prim _ (.dateTime now)) =>
      let rs : List (Option ItemResult) := items.map (fun it =>
        match it with
        | .struct _ ks =>
          let op := enumOf (find tOperation ks)
          let bid := match find tUniqueBatchItemID ks with
            | some (.prim _ (.byteString x)) => some x
            | _ => none
          match enumOf (find tResultStatus ks) with
          | some 0 =>
            (match find tResponsePayload ks with
             | some p => some ⟨op, bid, .success p⟩
             | none => none)
          | some st =>
            (match enumOf (find tResultReason ks), find tResultMessage ks with
             | some r, some (.prim _ (.textString m)) => some ⟨op, bid, .failure st r m⟩
             | _, _ => none)
          | none => none
        | _ => none)
      if rs.all Option.isSome then
        encode (buildResponse (a, b) now (rs.filterMap id)) == encode i
      else false
    | _, _, _ => false
  | _ => false

def step (line : String) : String :=
  match Json.parse line with
  | .error e => s!"bad-json {e}"
  | .ok j =>
    let r : P Json := do
      match (← asStr (jget j "op")) with
      | "parse" => do
        let bs ← unhex (← asStr (jget j "hex"))
        match decode bs.length bs with
        | none => pure (Json.mkObj [("ok", Json.bool false)])
        | some (i, rest) =>
          let envj := jget j "env"
          let extra ← (if envj.isNull then pure [] else do
            let rv := jget j "reqver"
            let reqver ← (if rv.isNull then pure none else do
              let a ← asArr rv
              if a.size ≠ 2 then throw "reqver" else
              match a[0]!.getInt?, a[1]!.getInt? with
              | .ok x, .ok y => pure (some (x, y))
              | _, _ => throw "reqver")
            pure [("faults", Json.arr ((Kmip.Envelope.faults reqver i).map Json.str).toArray),
                  ("composed", Json.bool (recomposes i))])
          pure (Json.mkObj ([("ok", Json.bool true), ("residue", Json.num rest.length),
                            ("canonical", Json.bool i.canonical), ("tree", jItem i),
                            ("reencode", hex (encode i.canon))] ++ extra))
      | "enc" => do
        let ty ← asNat (jget j "ty")
        let tag ← asNat (jget j "tag")
        let v ← (match pPyVal ty (jget j "v") with
          | .error "not-a-str" => pure none
          | .error e => throw e
          | .ok v => pure (some v))
        match v with
        | none => pure (Json.mkObj [("constructible", Json.bool false), ("py", Json.mkObj [("err", "notUtf8")]),
                                    ("pyre", Json.null), ("spec", Json.null)])
        | some v =>
        let py := match pyEncode tag v with
          | .ok bs => Json.mkObj [("ok", hex bs)]
          | .error e => Json.mkObj [("err", errName e)]
        let spec := match specVal v with
          | some pv => if decide (pv.Valid) ∧ tagOk tag then Json.str (hex (encode (.prim tag pv))) else Json.null
          | none => Json.null
        let pyre := match pyReencode tag v with
          | .ok bs => Json.str (hex bs)
          | .error _ => Json.null
        pure (Json.mkObj [("constructible", Json.bool (decide v.constructible)), ("py", py), ("pyre", pyre),
                          ("spec", spec)])
      | "schemas" => pure (Json.arr (Kmip.Schema.schemas.map (fun s => Json.str s.name)).toArray)
      | "schema" => do
        let name ← asStr (jget j "name")
        let ver ← asNat (jget j "ver")
        let bs ← unhex (← asStr (jget j "hex"))
        match Kmip.Schema.schemaByName name with
        | none => throw s!"schema {name}"
        | some sc =>
          match decodeAll bs with
          | none => pure (Json.mkObj [("ok", Json.bool false), ("why", "ttlv")])
          | some i =>
            match Kmip.Schema.decodeS sc ver i with
            | none => pure (Json.mkObj [("ok", Json.bool false), ("why", "schema")])
            | some x =>
              pure (Json.mkObj [("ok", Json.bool true),
                                ("counts", Json.arr (x.map (fun l => Json.num l.length)).toArray),
                                ("stable", Json.bool (encode (Kmip.Schema.encodeS sc ver x) == bs))])
      | "dec" => do
        let ty ← asNat (jget j "ty")
        let tag ← asNat (jget j "tag")
        let mj := jget j "members"
        let member : Nat → Bool ← (if mj.isNull then pure (fun _ => true) else do
          let ms ← (← asArr mj).toList.mapM asNat
          pure (fun n => ms.contains n))
        let bs ← unhex (← asStr (jget j "hex"))
        match pyDecode ty tag member bs with
        | .ok (v, rest) => pure (Json.mkObj [("ok", Json.bool true), ("v", jPyVal v), ("rest", Json.num rest.length)])
        | .error e => pure (Json.mkObj [("ok", Json.bool false), ("err", derrName e)])
      | c => throw s!"op {c}"
    match r with
    | .ok out => out.compress
    | .error e => s!"bad-op {e}"

partial def loop (h : IO.FS.Stream) (out : IO.FS.Stream) : IO Unit := do
  let line ← h.getLine
  if line.isEmpty then return ()
  out.putStrLn (step line)
  loop h out

def main : IO Unit := do
  loop (← IO.getStdin) (← IO.getStdout)
