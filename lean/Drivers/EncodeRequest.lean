/-
Line-protocol driver of M16 (request encoding, `KmipModel/EncodeRequest.lean`).  One JSON object per line.

  {"req": R}        R = the `req` object of the engine line protocol (parsed with `Wire.pRequest`)
      -> {"hex": H, "encodable": B, "ok": B, "valid": B, "canonical": B, "exact": B, "roundtrip": B, "decoded": D}
           hex        `TTLV.encode (encRequest r)` (the encoder is total: there is always a tree)
           ok         `okRequest r`
           short      the frame is shorter than 2^32 bytes
           valid      `lvalidB (encRequest r)`: M1 validity of the tree + UTF-8 text, evaluated (theorem
                      `encRequest_valid` says ok && short implies it)
           canonical  no item carries one of the optional keys of `impl_engine.build_payload` that select another
                      wire representative than the one the model encodes ("cp", "data_hex", "iv_hex", "tag_hex",
                      "sig_hex", "div_hex", "salt_hex", "iters", "method"; "ddata_hex" other than the bytes 1..n)
           encodable  ok && short && canonical   (= `Encodable r` for the request the line denotes)
           exact      `norm r` and `r` differ in the scripted backend outcome only
           roundtrip  `Decode.decodeFrame 12 (requestBytes r)` = `.ok (norm r)`, evaluated (the run-time reading of
                      theorem `request_roundtrip`; compared on the JSON rendering)
           decoded    what `decodeFrame` gives for the bytes (the request in the JSON form, or {"err":…})
           items_ok   `okItem` per batch item (which item puts a request outside the domain)
  DeriveKey: `Wire.pPayload` has no key for the derivation data; the driver sets hasDerivationData / dataLen from
  "ddata_hex" (absent: 01 02, as `build_payload`).
  anything else     bad-op …
-/
import Lean.Data.Json
import KmipModel.EncodeRequest
import KmipModel.Lemmas.EncodeRequest
import KmipModel.Engine.Wire
open Lean Kmip Kmip.Wire Kmip.Decode Kmip.EncodeRequest

namespace EncReqDriver

def jTemplate (t : Template) : Json :=
  Json.mkObj [("tnames", jNat t.templateNames), ("attrs", Json.arr (t.attrs.map jTAttr).toArray)]

def jRegObj (o : RegObj) : Json :=
  Json.mkObj [("otype", jNat o.otype), ("value", o.value), ("alg", jOpt jNat o.alg), ("len", jOpt jNat o.len),
    ("format", jOpt jNat o.format), ("subtype", jOpt jNat o.subtype)]

def jWrap (w : WrapSpec) : Json :=
  Json.mkObj [("method", jNat w.wrappingMethod), ("enckey", jOpt Json.str w.encKeyUid), ("encparams", w.encKeyHasParams),
    ("mackey", w.macKeyInfo), ("attrnames", jNat w.attributeNames), ("encoding", jOpt jNat w.encodingOption)]

def jStrs (l : List String) : Json := Json.arr (l.map Json.str).toArray
def jNats (l : List Nat) : Json := Json.arr (l.map jNat).toArray

def jPayload : Payload → List (String × Json)
  | .create ot t => [("op", "create"), ("otype", jNat ot), ("tmpl", jOpt jTemplate t)]
  | .createKeyPair c pr pu => [("op", "createKeyPair"), ("common", jOpt jTemplate c), ("priv", jOpt jTemplate pr), ("pub", jOpt jTemplate pu)]
  | .register ot t o => [("op", "register"), ("otype", jNat ot), ("tmpl", jOpt jTemplate t), ("obj", jOpt jRegObj o)]
  | .deriveKey ot us t dd dl => [("op", "deriveKey"), ("otype", jNat ot), ("uids", jStrs us), ("tmpl", jOpt jTemplate t),
      ("ddata", dd), ("dlen", jNat dl)]
  | .locate mx off as => [("op", "locate"), ("max", jOpt jInt mx), ("offset", jOpt jInt off), ("attrs", Json.arr (as.map jTAttr).toArray)]
  | .get u f c w => [("op", "get"), ("uid", jOpt Json.str u), ("format", jOpt jNat f), ("compression", c), ("wrap", jOpt jWrap w)]
  | .getAttributes u ns => [("op", "getAttributes"), ("uid", jOpt Json.str u), ("names", jStrs ns)]
  | .getAttributeList u => [("op", "getAttributeList"), ("uid", jOpt Json.str u)]
  | .activate u => [("op", "activate"), ("uid", jOpt Json.str u)]
  | .revoke u c => [("op", "revoke"), ("uid", jOpt Json.str u), ("code", jOpt jNat c)]
  | .destroy u => [("op", "destroy"), ("uid", jOpt Json.str u)]
  | .query fs => [("op", "query"), ("functions", jNats fs)]
  | .discoverVersions vs => [("op", "discoverVersions"), ("versions", jNats vs)]
  | .encrypt u p => [("op", "encrypt"), ("uid", jOpt Json.str u), ("params", p)]
  | .decrypt u p => [("op", "decrypt"), ("uid", jOpt Json.str u), ("params", p)]
  | .sign u p => [("op", "sign"), ("uid", jOpt Json.str u), ("params", p)]
  | .signatureVerify u p => [("op", "signatureVerify"), ("uid", jOpt Json.str u), ("params", p)]
  | .mac u a d => [("op", "mac"), ("uid", jOpt Json.str u), ("alg", jOpt jNat a), ("data", d)]
  | .setAttribute u a => [("op", "setAttribute"), ("uid", jOpt Json.str u), ("attr", jTAttr a)]
  | .modifyAttribute u a cu nw => [("op", "modifyAttribute"), ("uid", jOpt Json.str u), ("attr", jOpt jTAttr a),
      ("current", jOpt jTAttr cu), ("new", jOpt jTAttr nw)]
  | .deleteAttribute u n i cu r => [("op", "deleteAttribute"), ("uid", jOpt Json.str u), ("name", jOpt Json.str n),
      ("index", jOpt jInt i), ("current", jOpt jTAttr cu), ("reference", jOpt Json.str r)]
  | .unsupported op => [("op", "unsupported"), ("code", jNat op)]

def jCrypto : Crypto → Json
  | .ok t => Json.mkObj [("k", "ok"), ("t", t)]
  | .ok2 a b c d => Json.mkObj [("k", "ok2"), ("pub", a), ("priv", b), ("pubfmt", jNat c), ("privfmt", jNat d)]
  | .verdict b => Json.mkObj [("k", "verdict"), ("v", b)]
  | .kmipError r => Json.mkObj [("k", "kmip"), ("reason", jNat r)]
  | .internal => Json.null

def jItem (it : Kmip.Item) : Json :=
  Json.mkObj (jPayload it.payload ++ [("bid", jOpt Json.str it.batchId), ("crypto", jCrypto it.crypto)])

def jRequest (r : Request) : Json :=
  Json.mkObj [("version", jNat r.version), ("ts", jOpt jInt r.timeStamp), ("async", jOpt Json.bool r.async),
    ("bopt", jOpt jNat r.batchOption), ("maxsize", jOpt jNat r.maxResponseSize),
    ("items", Json.arr (r.items.map jItem).toArray)]

def hexDigit (n : Nat) : Char := if n < 10 then Char.ofNat (48 + n) else Char.ofNat (87 + n)
def hexOfBytes (bs : List UInt8) : String :=
  String.ofList (bs.foldr (fun b acc => hexDigit (b.toNat / 16) :: hexDigit (b.toNat % 16) :: acc) [])

def nonCanonicalKeys : List String := ["cp", "data_hex", "iv_hex", "tag_hex", "sig_hex", "div_hex", "salt_hex", "iters", "method"]

/-- the derivation data an item's JSON denotes: (present, length, is the model's representative) -/
def derivation (j : Json) : P (Bool × Nat × Bool) := do
  let d := jget j "ddata_hex"
  if d.isNull then pure (true, 2, true) else
  let s ← asStr d
  if s == "" then pure (false, 0, true) else
  let n := s.length / 2
  pure (true, n, okHex s && unhex s == derivationData n)

/-- `Wire.pItem` + the DeriveKey fields the wire form does not carry; second component: canonical -/
def pItemX (j : Json) : P (Kmip.Item × Bool) := do
  let it ← pItem j
  let canon := nonCanonicalKeys.all (fun k => (jget j k).isNull)
  match it.payload with
  | .deriveKey ot us t _ _ =>
    let (dd, dl, c) ← derivation j
    pure ({ it with payload := .deriveKey ot us t dd dl }, canon && c)
  | _ => pure (it, canon && (jget j "ddata_hex").isNull)

def step (line : String) : String :=
  match Json.parse line with
  | .error e => s!"bad-json {e}"
  | .ok j =>
    let r : P Json := do
      let rq := jget j "req"
      if rq.isNull then throw "no req" else
      let base ← pRequest rq
      let xs ← listOf pItemX (jget rq "items")
      let req : Request := { base with items := xs.map (·.1) }
      let canonical := xs.all (·.2)
      let tree := encRequest req
      let bytes := TTLV.encode tree
      let ok := okRequest req
      let valid := lvalidB tree
      let nr := norm req
      let exact := (jRequest { req with items := req.items.map (fun it => { it with crypto := .internal }) }).compress
                     == (jRequest nr).compress
      let (rt, dec) := match decodeFrame 12 bytes with
        | .ok d => ((jRequest d).compress == (jRequest nr).compress, jRequest d)
        | .error e => (false, Json.mkObj [("err", e.cls), ("detail", e.detail)])
      let short := decide (bytes.length < 2 ^ 32)
      pure (Json.mkObj [("hex", hexOfBytes bytes), ("encodable", ok && short && canonical), ("ok", ok),
        ("short", short), ("valid", valid), ("canonical", canonical), ("exact", exact), ("roundtrip", rt), ("decoded", dec),
        ("items_ok", Json.arr (req.items.map (fun it => Json.bool (okItem req.version it))).toArray)])
    match r with
    | .ok out => out.compress
    | .error e => s!"bad-op {e}"

partial def loop (h : IO.FS.Stream) (out : IO.FS.Stream) : IO Unit := do
  let line ← h.getLine
  if line.isEmpty then return ()
  out.putStrLn (step line)
  loop h out

end EncReqDriver

def main : IO Unit := do
  EncReqDriver.loop (← IO.getStdin) (← IO.getStdout)
