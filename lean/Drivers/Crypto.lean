/- Driver for M9: padding functions and the Encrypt/Decrypt plan. -/
import Lean.Data.Json
import KmipModel.Crypto
import KmipModel.Gen.Tables
open Lean Kmip Kmip.Crypto

abbrev P := Except String
def jget (j : Json) (k : String) : Json := (j.getObjVal? k).toOption.getD Json.null
def optNat (j : Json) : P (Option Nat) := if j.isNull then pure none else match j.getNat? with | .ok n => pure (some n) | .error e => throw e
def natList (j : Json) : P (List Nat) := match j.getArr? with
  | .ok a => a.toList.mapM (fun x => match x.getNat? with | .ok n => pure n | .error e => throw e)
  | .error e => throw e
def jNatList (l : List Nat) : Json := Json.arr (l.map (fun (n : Nat) => (Json.num (JsonNumber.fromNat n)))).toArray
def jOptNat : Option Nat → Json | none => Json.null | some n => Json.num n
def T : Tables := ⟨Gen.cryptoSymAlgs, Gen.cryptoModes, Gen.cryptoSymPadding⟩

def pParams (j : Json) : P SymParams := do
  let alg ← match (jget j "alg").getNat? with | .ok n => pure n | .error e => throw e
  let aad ← match (jget j "aad").getBool? with | .ok b => pure b | .error e => throw e
  pure ⟨alg, ← optNat (jget j "mode"), ← optNat (jget j "padding"), ← optNat (jget j "iv"), aad, ← optNat (jget j "taglen")⟩

def jPlan (r : Except PlanErr Plan) : Json :=
  match r with
  | .error e => Json.mkObj [("err", Json.str (reprStr e))]
  | .ok p => Json.mkObj [("alg", Json.num p.alg), ("mode", jOptNat p.mode), ("iv", jOptNat p.iv),
      ("ivGenerated", Json.bool p.ivGenerated), ("padding", jOptNat p.padding), ("gcm", Json.bool p.gcm),
      ("tagLen", jOptNat p.tagLen), ("block", Json.num p.blockBits)]

def step (line : String) : String :=
  match Json.parse line with
  | .error e => s!"bad-json {e}"
  | .ok j =>
    let r : P Json := do
      match (jget j "cmd").getStr? with
      | .ok "pad" =>
        let block ← match (jget j "block").getNat? with | .ok n => pure n | .error e => throw e
        let d ← natList (jget j "data")
        let m ← match (jget j "method").getNat? with | .ok n => pure n | .error e => throw e
        let padded := applyPad (block * 8) (some m) d
        pure (Json.mkObj [("padded", jNatList padded),
          ("unpadded", match removePad (block * 8) (some m) padded with | some u => jNatList u | none => Json.null)])
      | .ok "unpad" =>
        let block ← match (jget j "block").getNat? with | .ok n => pure n | .error e => throw e
        let d ← natList (jget j "data")
        let m ← match (jget j "method").getNat? with | .ok n => pure n | .error e => throw e
        pure (Json.mkObj [("unpadded", match removePad (block * 8) (some m) d with | some u => jNatList u | none => Json.null)])
      | .ok "enc" => do pure (jPlan (encPlan T (← pParams j)))
      | .ok "dec" => do pure (jPlan (decPlan T (← pParams j) (← optNat (jget j "tag"))))
      | _ => throw "cmd"
    match r with
    | .ok o => o.compress
    | .error e => s!"bad-op {e}"

partial def loop (h : IO.FS.Stream) (out : IO.FS.Stream) : IO Unit := do
  let line ← h.getLine
  if line.isEmpty then return ()
  out.putStrLn (step line)
  loop h out

def main : IO Unit := do loop (← IO.getStdin) (← IO.getStdout)
