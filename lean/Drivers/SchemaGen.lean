/-
Line-protocol driver for the REGENERATED schema tables (`KmipModel/Gen/SchemasGen.lean`, written by
harness/gen_schemas.py from read()/write() of /repo).  One JSON object per input line, one per output line.

  {"op":"schemas"}                       names of the regenerated read schemas (`genRead`)
  {"op":"schema","name":S,"ver":N,"hex":H}
      strict M1 parse, then `Kmip.Schema.decodeS` of the regenerated READ schema of that name under version N:
      {"ok":true,"counts":[items per field],"stable":B}  (stable: the schema writer's output for the decoded value
                                                          = the input bytes)
      {"ok":false,"why":"ttlv"|"schema"|"version"}        (version: read() raises VersionNotSupported below the
                                                          class's first version)
  {"op":"info"}                          {"approx":[names],"unrecognised":[[name,why]…],"classMin":[[name,v]…],
                                          "versionFromHeader":[names],"kindExceptions":[[class,tag]…],
                                          "min1Exceptions":[[class,tag,readerNeedsOne,writerNeedsOne]…],
                                          "readMin1":[[class,tag]…],"handDiffers":[names]}
  {"op":"gates"}                         [[class,tag,vmin,vmax]…] of every field not defined under all versions
  {"op":"fields","name":S}               [[tag,kind,card,vmin,vmax]…] of the read schema (for messages)
Unknown or malformed input answers `bad-op …` / `bad-json …`.
-/
import Lean.Data.Json
import KmipModel.TTLV
import KmipModel.Props.C01Gen
open Lean Kmip.TTLV

abbrev P := Except String

def jget (j : Json) (k : String) : Json := (j.getObjVal? k).toOption.getD Json.null
def asNat (j : Json) : P Nat := match j.getNat? with | .ok n => pure n | .error e => throw s!"nat: {e}"
def asStr (j : Json) : P String := match j.getStr? with | .ok n => pure n | .error e => throw s!"str: {e}"

def hexDigit (c : Char) : Option Nat :=
  if '0' ≤ c ∧ c ≤ '9' then some (c.toNat - '0'.toNat)
  else if 'a' ≤ c ∧ c ≤ 'f' then some (c.toNat - 'a'.toNat + 10)
  else if 'A' ≤ c ∧ c ≤ 'F' then some (c.toNat - 'A'.toNat + 10)
  else none

def unhexAux : List Char → Array UInt8 → P (Array UInt8)
  | [], acc => pure acc
  | [_], _ => throw "odd hex length"
  | a :: b :: rest, acc =>
    match hexDigit a, hexDigit b with
    | some x, some y => unhexAux rest (acc.push (UInt8.ofNat (16 * x + y)))
    | _, _ => throw "bad hex digit"

def unhex (s : String) : P Bytes := do pure (← unhexAux s.toList #[]).toList

def kindName : Kmip.Schema.Kind → String
  | .prim n => s!"prim {n}"
  | .struct => "struct"
  | .enumOrStruct => "enumOrStruct"
  | .any => "any"

def cardName : Kmip.Schema.Card → String
  | .one => "one" | .opt => "opt" | .many => "many"

def genByName (n : String) : Option Kmip.Schema.Schema := Kmip.SchemaGen.genRead.find? (fun s => s.name == n)

def pairs (l : List (String × Nat)) : Json :=
  Json.arr (l.map (fun p => Json.arr #[Json.str p.1, Json.num p.2])).toArray

def step (line : String) : String :=
  match Json.parse line with
  | .error e => s!"bad-json {e}"
  | .ok j =>
    let r : P Json := do
      match (← asStr (jget j "op")) with
      | "schemas" => pure (Json.arr (Kmip.SchemaGen.genRead.map (fun s => Json.str s.name)).toArray)
      | "schema" => do
        let name ← asStr (jget j "name")
        let ver ← asNat (jget j "ver")
        let bs ← unhex (← asStr (jget j "hex"))
        if !Kmip.Schema.versions.contains ver then throw s!"version {ver}" else
        match genByName name with
        | none => throw s!"schema {name}"
        | some sc =>
          let cmin := ((Kmip.SchemaGen.genReadClassMin.find? (fun p => p.1 == name)).map (·.2)).getD 10
          if ver < cmin then pure (Json.mkObj [("ok", Json.bool false), ("why", "version")]) else
          match decodeAll bs with
          | none => pure (Json.mkObj [("ok", Json.bool false), ("why", "ttlv")])
          | some i =>
            match Kmip.Schema.decodeS sc ver i with
            | none => pure (Json.mkObj [("ok", Json.bool false), ("why", "schema")])
            | some x =>
              pure (Json.mkObj [("ok", Json.bool true),
                                ("counts", Json.arr (x.map (fun l => Json.num l.length)).toArray),
                                ("stable", Json.bool (encode (Kmip.Schema.encodeS sc ver x) == bs))])
      | "info" =>
        pure (Json.mkObj [
          ("approx", Json.arr (Kmip.SchemaGen.genApprox.map Json.str).toArray),
          ("approxWhy", Json.arr (Kmip.SchemaGen.genApproxWhy.map (fun p => Json.arr #[Json.str p.1, Json.str p.2])).toArray),
          ("unrecognised", Json.arr (Kmip.SchemaGen.genUnrecognisedWhy.map
              (fun p => Json.arr #[Json.str p.1, Json.str p.2])).toArray),
          ("classMin", pairs Kmip.SchemaGen.genReadClassMin),
          ("versionFromHeader", Json.arr (Kmip.SchemaGen.genVersionFromHeader.map Json.str).toArray),
          ("kindExceptions", Json.arr (Kmip.C01Gen.kindExceptions.map
              (fun e => Json.arr #[Json.str e.1, Json.num e.2.1, Json.str (kindName e.2.2.1), Json.str (kindName e.2.2.2)])).toArray),
          ("min1Exceptions", Json.arr (Kmip.C01Gen.min1Exceptions.map
              (fun e => Json.arr #[Json.str e.1, Json.num e.2.1, Json.bool e.2.2.1, Json.bool e.2.2.2])).toArray),
          ("readMin1", pairs Kmip.SchemaGen.genReadMin1),
          ("writeMin1", pairs Kmip.SchemaGen.genWriteMin1),
          ("handDiffers", Json.arr (Kmip.C01Gen.handDiffers.map Json.str).toArray),
          ("exact", Json.num Kmip.C01Gen.genExact.length),
          ("translated", Json.num Kmip.SchemaGen.genRead.length)])
      | "gates" =>
        pure (Json.arr (Kmip.C01Gen.genGates.map
          (fun g => Json.arr #[Json.str g.1, Json.num g.2.1, Json.num g.2.2.1, Json.num g.2.2.2])).toArray)
      | "fields" => do
        let name ← asStr (jget j "name")
        match genByName name with
        | none => throw s!"schema {name}"
        | some sc =>
          pure (Json.arr (sc.fields.map (fun f =>
            Json.arr #[Json.num f.tag, Json.str (kindName f.kind), Json.str (cardName f.card), Json.num f.vmin,
                       Json.num f.vmax])).toArray)
      | c => throw s!"op {c}"
    match r with
    | .ok out => out.compress
    | .error e => s!"bad-op {e}"

partial def loop (h : IO.FS.Stream) (out : IO.FS.Stream) : IO Unit := do
  let line ← h.getLine
  if line.isEmpty then return ()
  out.putStrLn (step line)
  loop h out

def main : IO Unit := do
  loop (← IO.getStdin) (← IO.getStdout)
