/- Driver for M13b (object conversions: core ⇄ pie ⇄ SQL columns, engine's `_build_core_object`).
One JSON object per line:
  {"cmd":"coreToPie","core":C}        -> {"ok":P} | {"err":{"cls":…,"msg":…}}
  {"cmd":"pieToCore","pie":P}         -> {"ok":C} | {"err":…}
  {"cmd":"engineBuildCore","pie":P}   -> {"ok":C} | {"err":…}
  {"cmd":"pieToRow","pie":P}          -> {"ok":R} | {"err":…}
  {"cmd":"rowToPie","row":R}          -> {"ok":P}
  {"cmd":"pieOk","pie":P}             -> {"ok":bool,"wf":bool}
Anything else, or a field of the wrong shape: `bad-op …`. -/
import Lean.Data.Json
import KmipModel.ConvertObjects
open Lean Kmip.Convert Kmip.ConvObj

abbrev P := Except String

def field (j : Json) (k : String) : P Json :=
  match j.getObjVal? k with
  | .ok v => pure v
  | .error _ => throw s!"missing field {k}"

def pNat (j : Json) : P Nat := match j.getNat? with | .ok n => pure n | .error e => throw s!"nat: {e}"
def pInt (j : Json) : P Int := match j.getInt? with | .ok n => pure n | .error e => throw s!"int: {e}"
def pStr (j : Json) : P String := match j.getStr? with | .ok s => pure s | .error e => throw s!"str: {e}"
def pBool (j : Json) : P Bool := match j.getBool? with | .ok s => pure s | .error e => throw s!"bool: {e}"
def pArr (j : Json) : P (List Json) := match j.getArr? with | .ok a => pure a.toList | .error e => throw s!"arr: {e}"
def pOpt {α} (f : Json → P α) (j : Json) : P (Option α) := if j.isNull then pure none else some <$> f j

def isHex (s : String) : Bool := s.length % 2 == 0 && s.all (fun c => c.isDigit || ('a' ≤ c && c ≤ 'f'))
def pHex (j : Json) : P String := do
  let s ← pStr j
  if isHex s then pure s else throw "hex"

def pFV (j : Json) : P FV := do
  match (← field j "k").getStr? with
  | .ok "none" => pure .none
  | .ok "enum" => .enum <$> pNat (← field j "v")
  | .ok "int" => .int <$> pInt (← field j "v")
  | .ok "bool" => .bool <$> pBool (← field j "v")
  | .ok "bytes" => .bytes <$> pHex (← field j "v")
  | .ok "text" => .text <$> pStr (← field j "v")
  | _ => throw "fv kind"

def jFV : FV → Json
  | .none => Json.mkObj [("k", "none")]
  | .enum n => Json.mkObj [("k", "enum"), ("v", Json.num n)]
  | .int n => Json.mkObj [("k", "int"), ("v", Json.num (JsonNumber.fromInt n))]
  | .bool b => Json.mkObj [("k", "bool"), ("v", Json.bool b)]
  | .bytes s => Json.mkObj [("k", "bytes"), ("v", Json.str s)]
  | .text s => Json.mkObj [("k", "text"), ("v", Json.str s)]

def jOpt {α} (f : α → Json) : Option α → Json
  | none => Json.null
  | some a => f a
def jInt (n : Int) : Json := Json.num (JsonNumber.fromInt n)
def jNat (n : Nat) : Json := Json.num n

/-! wrapping dictionaries (as in Drivers/Convert.lean) -/
def pKI (j : Json) : P KeyInfo := do
  let cp ← pOpt (fun c => do (← pArr c).mapM pFV) (← field j "cp")
  pure ⟨← pFV (← field j "uid"), cp⟩
def pW (j : Json) : P WrapDict := do
  pure ⟨← pFV (← field j "method"), ← pOpt pKI (← field j "eki"), ← pOpt pKI (← field j "mski"),
        ← pFV (← field j "macSig"), ← pFV (← field j "iv"), ← pFV (← field j "encoding")⟩
def jKI (k : KeyInfo) : Json :=
  Json.mkObj [("uid", jFV k.uid), ("cp", jOpt (fun l => Json.arr (l.map jFV).toArray) k.cp)]
def jW (w : WrapDict) : Json :=
  Json.mkObj [("method", jFV w.method), ("eki", jOpt jKI w.eki), ("mski", jOpt jKI w.mski), ("macSig", jFV w.macSig),
              ("iv", jFV w.iv), ("encoding", jFV w.encoding)]

def pCols (j : Json) : P Columns := do
  pure { method := ← pFV (← field j "method"), ekiUid := ← pFV (← field j "ekiUid"),
         ekiCp := ← (← pArr (← field j "ekiCp")).mapM pFV, mskiUid := ← pFV (← field j "mskiUid"),
         mskiCp := ← (← pArr (← field j "mskiCp")).mapM pFV, macSig := ← pFV (← field j "macSig"),
         iv := ← pFV (← field j "iv"), encoding := ← pFV (← field j "encoding") }
def jCols (c : Columns) : Json :=
  Json.mkObj [("method", jFV c.method), ("ekiUid", jFV c.ekiUid), ("ekiCp", Json.arr (c.ekiCp.map jFV).toArray),
              ("mskiUid", jFV c.mskiUid), ("mskiCp", Json.arr (c.mskiCp.map jFV).toArray), ("macSig", jFV c.macSig),
              ("iv", jFV c.iv), ("encoding", jFV c.encoding)]

/-! core -/
def pFld {α} (f : Json → P α) (j : Json) : P (Fld α) :=
  match j.getStr? with
  | .ok "absent" => pure .absent
  | .ok "unset" => pure .unset
  | .ok _ => throw "fld"
  | .error _ => .val <$> f j
def jFld {α} (f : α → Json) : Fld α → Json
  | .absent => "absent"
  | .unset => "unset"
  | .val a => f a

def pKK (j : Json) : P KeyKind :=
  match j.getStr? with
  | .ok "symmetric" => pure .symmetric
  | .ok "publicKey" => pure .publicKey
  | .ok "privateKey" => pure .privateKey
  | _ => throw "key kind"
def jKK : KeyKind → Json
  | .symmetric => "symmetric" | .publicKey => "publicKey" | .privateKey => "privateKey"

def pMaterial (j : Json) : P Material :=
  match j.getStr? with
  | .ok "struct" => pure .struct
  | .ok _ => throw "material"
  | .error _ => do pure (.bytes (← pHex (← field j "bytes")))
def jMaterial : Material → Json
  | .struct => "struct"
  | .bytes b => Json.mkObj [("bytes", Json.str b)]

def pKV (j : Json) : P CoreKeyValue := do pure ⟨← pMaterial (← field j "material"), ← pNat (← field j "attrs")⟩
def jKV (k : CoreKeyValue) : Json := Json.mkObj [("material", jMaterial k.material), ("attrs", jNat k.attrs)]

def pKB (j : Json) : P CoreKeyBlock := do
  pure { format := ← pFld pNat (← field j "format"), compression := ← pOpt pNat (← field j "compression"),
         keyValue := ← pOpt pKV (← field j "keyValue"), alg := ← pFld pNat (← field j "alg"),
         len := ← pFld pInt (← field j "len"), wrapping := ← pOpt pW (← field j "wrapping") }
def jKB (k : CoreKeyBlock) : Json :=
  Json.mkObj [("format", jFld jNat k.format), ("compression", jOpt jNat k.compression), ("keyValue", jOpt jKV k.keyValue),
              ("alg", jFld jNat k.alg), ("len", jFld jInt k.len), ("wrapping", jOpt jW k.wrapping)]

def pSplit (j : Json) : P SplitFields := do
  pure ⟨← pOpt pInt (← field j "parts"), ← pOpt pInt (← field j "partId"), ← pOpt pInt (← field j "threshold"),
        ← pOpt pNat (← field j "method"), ← pOpt pInt (← field j "primeFieldSize")⟩
def jSplit (s : SplitFields) : Json :=
  Json.mkObj [("parts", jOpt jInt s.parts), ("partId", jOpt jInt s.partId), ("threshold", jOpt jInt s.threshold),
              ("method", jOpt jNat s.method), ("primeFieldSize", jOpt jInt s.primeFieldSize)]

def pCore (j : Json) : P CoreObj := do
  match (← field j "t").getStr? with
  | .ok "certificate" => pure (.certificate (← pNat (← field j "certType")) (← pHex (← field j "value")))
  | .ok "key" => pure (.key (← pKK (← field j "kk")) (← pOpt pKB (← field j "kb")))
  | .ok "splitKey" => pure (.splitKey (← pSplit (← field j "split")) (← pOpt pKB (← field j "kb")))
  | .ok "secretData" => pure (.secretData (← pFld pNat (← field j "dataType")) (← pOpt pKB (← field j "kb")))
  | .ok "opaque" => pure (.opaqueObj (← pFld pNat (← field j "opaqueType")) (← pOpt pHex (← field j "value")))
  | _ => throw "core type"
def jCore : CoreObj → Json
  | .certificate t v => Json.mkObj [("t", "certificate"), ("certType", jNat t), ("value", Json.str v)]
  | .key kk kb => Json.mkObj [("t", "key"), ("kk", jKK kk), ("kb", jOpt jKB kb)]
  | .splitKey s kb => Json.mkObj [("t", "splitKey"), ("split", jSplit s), ("kb", jOpt jKB kb)]
  | .secretData t kb => Json.mkObj [("t", "secretData"), ("dataType", jFld jNat t), ("kb", jOpt jKB kb)]
  | .opaqueObj t v => Json.mkObj [("t", "opaque"), ("opaqueType", jFld jNat t), ("value", jOpt Json.str v)]

/-! pie -/
def pCrypto (j : Json) : P PieCrypto := do
  pure ⟨← (← pArr (← field j "masks")).mapM pNat, ← pOpt pNat (← field j "state")⟩
def jCrypto (c : PieCrypto) : Json :=
  Json.mkObj [("masks", Json.arr (c.masks.map jNat).toArray), ("state", jOpt jNat c.state)]
def pPieKey (j : Json) : P PieKey := do
  pure ⟨← pOpt pNat (← field j "alg"), ← pOpt pInt (← field j "len"), ← pOpt pNat (← field j "format"),
        ← pCols (← field j "cols")⟩
def jPieKey (k : PieKey) : Json :=
  Json.mkObj [("alg", jOpt jNat k.alg), ("len", jOpt jInt k.len), ("format", jOpt jNat k.format), ("cols", jCols k.cols)]

def pSpec (j : Json) : P PieSpecific := do
  match (← field j "t").getStr? with
  | .ok "certificate" => pure (.certificate (← pCrypto (← field j "crypto")) (← pOpt pNat (← field j "certType")))
  | .ok "key" => pure (.key (← pCrypto (← field j "crypto")) (← pKK (← field j "kk")) (← pPieKey (← field j "key")))
  | .ok "splitKey" =>
    pure (.splitKey (← pCrypto (← field j "crypto")) (← pPieKey (← field j "key")) (← pSplit (← field j "split")))
  | .ok "secretData" => pure (.secretData (← pCrypto (← field j "crypto")) (← pOpt pNat (← field j "dataType")))
  | .ok "opaque" => pure (.opaqueObj (← pOpt pNat (← field j "opaqueType")))
  | _ => throw "pie type"
def jSpec : PieSpecific → Json
  | .certificate cr t => Json.mkObj [("t", "certificate"), ("crypto", jCrypto cr), ("certType", jOpt jNat t)]
  | .key cr kk k => Json.mkObj [("t", "key"), ("crypto", jCrypto cr), ("kk", jKK kk), ("key", jPieKey k)]
  | .splitKey cr k s => Json.mkObj [("t", "splitKey"), ("crypto", jCrypto cr), ("key", jPieKey k), ("split", jSplit s)]
  | .secretData cr t => Json.mkObj [("t", "secretData"), ("crypto", jCrypto cr), ("dataType", jOpt jNat t)]
  | .opaqueObj t => Json.mkObj [("t", "opaque"), ("opaqueType", jOpt jNat t)]

def pName (j : Json) : P NameRow := do
  pure ⟨← pStr (← field j "name"), ← pInt (← field j "index"), ← pOpt pNat (← field j "nameType")⟩
def jName (n : NameRow) : Json :=
  Json.mkObj [("name", Json.str n.name), ("index", jInt n.index), ("nameType", jOpt jNat n.nameType)]

def pPie (j : Json) : P PieObj := do
  pure { spec := ← pSpec (← field j "spec"), objectType := ← pOpt pNat (← field j "objectType"),
         value := ← pOpt pHex (← field j "value"), names := ← (← pArr (← field j "names")).mapM pName,
         nameIndex := ← pInt (← field j "nameIndex"), policy := ← pOpt pStr (← field j "policy"),
         sensitive := ← pBool (← field j "sensitive"), initialDate := ← pInt (← field j "initialDate"),
         owner := ← pOpt pStr (← field j "owner") }
def jPie (p : PieObj) : Json :=
  Json.mkObj [("spec", jSpec p.spec), ("objectType", jOpt jNat p.objectType), ("value", jOpt Json.str p.value),
              ("names", Json.arr (p.names.map jName).toArray), ("nameIndex", jInt p.nameIndex),
              ("policy", jOpt Json.str p.policy), ("sensitive", Json.bool p.sensitive),
              ("initialDate", jInt p.initialDate), ("owner", jOpt Json.str p.owner)]

/-! rows -/
/-- an `EnumType` column: −1 or a member's value -/
def pEnumCol (j : Json) : P Int := do
  let i ← pInt j
  if i < -1 then throw "enum column below -1" else pure i
def pCryptoRow (j : Json) : P CryptoRow := do pure ⟨← pNat (← field j "mask"), ← pEnumCol (← field j "state")⟩
def jCryptoRow (c : CryptoRow) : Json := Json.mkObj [("mask", jNat c.mask), ("state", jInt c.state)]
def pKeyRow (j : Json) : P KeyRow := do
  pure ⟨← pEnumCol (← field j "alg"), ← pOpt pInt (← field j "len"), ← pEnumCol (← field j "format"),
        ← pCols (← field j "cols")⟩
def jKeyRow (k : KeyRow) : Json :=
  Json.mkObj [("alg", jInt k.alg), ("len", jOpt jInt k.len), ("format", jInt k.format), ("cols", jCols k.cols)]
def pSplitRow (j : Json) : P SplitRow := do
  pure ⟨← pOpt pInt (← field j "parts"), ← pOpt pInt (← field j "partId"), ← pOpt pInt (← field j "threshold"),
        ← pEnumCol (← field j "method"), ← pOpt pInt (← field j "primeFieldSize")⟩
def jSplitRow (s : SplitRow) : Json :=
  Json.mkObj [("parts", jOpt jInt s.parts), ("partId", jOpt jInt s.partId), ("threshold", jOpt jInt s.threshold),
              ("method", jInt s.method), ("primeFieldSize", jOpt jInt s.primeFieldSize)]

def pRowSpec (j : Json) : P RowSpecific := do
  match (← field j "t").getStr? with
  | .ok "certificate" => pure (.certificate (← pCryptoRow (← field j "crypto")) (← pEnumCol (← field j "certType")))
  | .ok "key" => pure (.key (← pCryptoRow (← field j "crypto")) (← pKK (← field j "kk")) (← pKeyRow (← field j "key")))
  | .ok "splitKey" =>
    pure (.splitKey (← pCryptoRow (← field j "crypto")) (← pKeyRow (← field j "key")) (← pSplitRow (← field j "split")))
  | .ok "secretData" => pure (.secretData (← pCryptoRow (← field j "crypto")) (← pEnumCol (← field j "dataType")))
  | .ok "opaque" => pure (.opaqueObj (← pEnumCol (← field j "opaqueType")))
  | _ => throw "row type"
def jRowSpec : RowSpecific → Json
  | .certificate cr t => Json.mkObj [("t", "certificate"), ("crypto", jCryptoRow cr), ("certType", jInt t)]
  | .key cr kk k => Json.mkObj [("t", "key"), ("crypto", jCryptoRow cr), ("kk", jKK kk), ("key", jKeyRow k)]
  | .splitKey cr k s =>
    Json.mkObj [("t", "splitKey"), ("crypto", jCryptoRow cr), ("key", jKeyRow k), ("split", jSplitRow s)]
  | .secretData cr t => Json.mkObj [("t", "secretData"), ("crypto", jCryptoRow cr), ("dataType", jInt t)]
  | .opaqueObj t => Json.mkObj [("t", "opaque"), ("opaqueType", jInt t)]

def pNameRec (j : Json) : P NameRec := do
  pure ⟨← pStr (← field j "name"), ← pInt (← field j "index"), ← pEnumCol (← field j "nameType")⟩
def jNameRec (n : NameRec) : Json :=
  Json.mkObj [("name", Json.str n.name), ("index", jInt n.index), ("nameType", jInt n.nameType)]

def pRow (j : Json) : P Row := do
  let spec ← pRowSpec (← field j "spec")
  let r : Row :=
    { spec := spec, objectType := ← pEnumCol (← field j "objectType"), value := ← pOpt pHex (← field j "value"),
      nameIndex := ← pInt (← field j "nameIndex"), names := ← (← pArr (← field j "names")).mapM pNameRec,
      policy := ← pStr (← field j "policy"), sensitive := ← pBool (← field j "sensitive"),
      initialDate := ← pInt (← field j "initialDate"), owner := ← pOpt pStr (← field j "owner") }
  -- the `class_type` column must be the one of the sub-table rows given
  if (← pStr (← field j "classType")) != r.classType then throw "class_type does not match the rows" else pure r
def jRow (r : Row) : Json :=
  Json.mkObj [("spec", jRowSpec r.spec), ("classType", Json.str r.classType), ("objectType", jInt r.objectType),
              ("value", jOpt Json.str r.value), ("nameIndex", jInt r.nameIndex),
              ("names", Json.arr (r.names.map jNameRec).toArray), ("policy", Json.str r.policy),
              ("sensitive", Json.bool r.sensitive), ("initialDate", jInt r.initialDate), ("owner", jOpt Json.str r.owner)]

def jErrClass : ErrClass → String
  | .attributeError => "AttributeError" | .typeError => "TypeError" | .valueError => "ValueError"
  | .overflowError => "OverflowError" | .outsideModel => "outside-model"

def jRes {α} (f : α → Json) : C α → String
  | .ok a => (Json.mkObj [("ok", f a)]).compress
  | .error e => (Json.mkObj [("err", Json.mkObj [("cls", Json.str (jErrClass e.cls)), ("msg", Json.str e.msg)])]).compress

def run (j : Json) : P String := do
  match (← field j "cmd").getStr? with
  | .ok "coreToPie" => do let c ← pCore (← field j "core"); pure (jRes jPie (coreToPie c))
  | .ok "pieToCore" => do let p ← pPie (← field j "pie"); pure (jRes jCore (pieToCore p))
  | .ok "engineBuildCore" => do let p ← pPie (← field j "pie"); pure (jRes jCore (engineBuildCore p))
  | .ok "pieToRow" => do let p ← pPie (← field j "pie"); pure (jRes jRow (pieToRow p))
  | .ok "rowToPie" => do let r ← pRow (← field j "row"); pure (Json.mkObj [("ok", jPie (rowToPie r))]).compress
  | .ok "pieOk" => do
    let p ← pPie (← field j "pie")
    pure (Json.mkObj [("ok", Json.bool (pieOk p)), ("wf", Json.bool (pieWf p))]).compress
  | _ => throw "unknown cmd"

def step (line : String) : String :=
  match Json.parse line with
  | .error e => s!"bad-op json {e}"
  | .ok j =>
    match run j with
    | .ok s => s
    | .error e => s!"bad-op {e}"

partial def loop (h : IO.FS.Stream) (out : IO.FS.Stream) : IO Unit := do
  let line ← h.getLine
  if line.isEmpty then return ()
  out.putStrLn (step line)
  loop h out

def main : IO Unit := do loop (← IO.getStdin) (← IO.getStdout)
