/-
Line-protocol driver for the client model (M8).  One JSON object per input line,
one JSON object per output line; anything unknown or malformed answers `bad-op …`.

  {"cmd":"handle","op":"create","item":{"echo":"same"|"absent"|"other","status":N,
        "reason":N|null,"message":S|null,"payload":S|null}}
        the result-handling decision (payload = opaque token of the decoded payload;
        echo "other" only for the generic-path operations)
  {"cmd":"frames","reads":K,"chunks":["hex",…]}
        K successive KMIPProtocol.read() calls on a socket delivering these recv() results
  {"cmd":"call","op":…,"chunks":[…],"decoded":item|null}
        one whole call; "decoded" = what the response decoder yields for the frame (null = it raised)
-/
import Lean.Data.Json
import KmipModel.Client
open Lean Kmip.Client

abbrev P := Except String

def jget (j : Json) (k : String) : Json := (j.getObjVal? k).toOption.getD Json.null
def asNat (j : Json) : P Nat := match j.getNat? with | .ok n => pure n | .error e => throw s!"nat: {e} in {j.compress}"
def asStr (j : Json) : P String := match j.getStr? with | .ok n => pure n | .error e => throw s!"str: {e} in {j.compress}"
def asArr (j : Json) : P (Array Json) := match j.getArr? with | .ok n => pure n | .error e => throw s!"arr: {e} in {j.compress}"
def opt {α} (f : Json → P α) (j : Json) : P (Option α) := if j.isNull then pure none else some <$> f j

def hexVal (c : Char) : P Nat :=
  if '0' ≤ c ∧ c ≤ '9' then pure (c.toNat - '0'.toNat)
  else if 'a' ≤ c ∧ c ≤ 'f' then pure (c.toNat - 'a'.toNat + 10)
  else if 'A' ≤ c ∧ c ≤ 'F' then pure (c.toNat - 'A'.toNat + 10)
  else throw s!"hex digit {c}"

def unhexAux : List Char → P Bytes
  | [] => pure []
  | [_] => throw "odd hex length"
  | a :: b :: rest => do
    let x ← hexVal a
    let y ← hexVal b
    let r ← unhexAux rest
    pure (UInt8.ofNat (x * 16 + y) :: r)

def unhex (s : String) : P Bytes := unhexAux s.toList

def hexDigit (n : Nat) : Char := if n < 10 then Char.ofNat (n + '0'.toNat) else Char.ofNat (n - 10 + 'a'.toNat)
def hex (b : Bytes) : String :=
  String.ofList (b.foldr (fun x acc => hexDigit (x.toNat / 16) :: hexDigit (x.toNat % 16) :: acc) [])

def pOp (s : String) : P Op :=
  match s with
  | "create" => pure .create | "create_key_pair" => pure .createKeyPair | "register" => pure .register
  | "rekey" => pure .rekey | "derive_key" => pure .deriveKey | "locate" => pure .locate | "check" => pure .check
  | "get" => pure .get | "get_attributes" => pure .getAttributes | "get_attribute_list" => pure .getAttributeList
  | "activate" => pure .activate | "revoke" => pure .revoke | "destroy" => pure .destroy
  | "encrypt" => pure .encrypt | "decrypt" => pure .decrypt | "signature_verify" => pure .signatureVerify
  | "sign" => pure .sign | "mac" => pure .mac | "delete_attribute" => pure .deleteAttribute
  | "set_attribute" => pure .setAttribute | "modify_attribute" => pure .modifyAttribute
  | "query" => pure .query | "discover_versions" => pure .discoverVersions | "rekey_key_pair" => pure .rekeyKeyPair
  | k => throw s!"op {k}"

def pEcho3 (s : String) : P Echo3 :=
  match s with
  | "absent" => pure .absent | "same" => pure .same | "other" => pure .other
  | k => throw s!"echo {k}"

structure RawItem where
  echo : Echo3
  status : Nat
  reason : Option Nat
  message : Option String
  payload : Option String

def pRawItem (j : Json) : P RawItem := do
  if j.isNull then throw "item missing"
  pure ⟨← pEcho3 (← asStr (jget j "echo")), ← asNat (jget j "status"), ← opt asNat (jget j "reason"),
        ← opt asStr (jget j "message"), ← opt asStr (jget j "payload")⟩

/-- the decision for a raw item; echo "other" is modelled on the generic path only -/
def decide' (op : Op) (r : RawItem) : P (Outcome String) :=
  match r.echo with
  | .other =>
    if op.style = .generic then pure (genericHandle .other r.status r.reason r.message r.payload)
    else throw "echo other is modelled for the generic-path operations only"
  | .absent => pure (handle op ⟨.absent, r.status, r.reason, r.message, r.payload⟩)
  | .same => pure (handle op ⟨.same, r.status, r.reason, r.message, r.payload⟩)

def jOpt {α} (f : α → Json) : Option α → Json
  | none => Json.null
  | some a => f a
def jNat (n : Nat) : Json := Json.num n

def jData : Data String → Json
  | .unit => Json.mkObj [("k", "unit")]
  | .none => Json.mkObj [("k", "none")]
  | .proj p => Json.mkObj [("k", "proj"), ("p", p)]

def jExc : Exc → String
  | .attributeError => "AttributeError"
  | .typeError => "TypeError"
  | .invalidMessage => "InvalidMessage"

def jFailCls : FailCls → String
  | .pie => "KmipOperationFailure"
  | .core => "OperationFailure"

def jResCls : ResCls → String
  | .operationResult => "OperationResult"
  | .queryResult => "QueryResult"
  | .discoverVersionsResult => "DiscoverVersionsResult"
  | .rekeyKeyPairResult => "RekeyKeyPairResult"

def outcomeFields : Outcome String → List (String × Json)
  | .returned d => [("out", "returned"), ("data", jData d)]
  | .failure cls st r m => [("out", "failure"), ("cls", jFailCls cls), ("status", jNat st), ("reason", jNat r),
      ("message", jOpt Json.str m)]
  | .raised e => [("out", "raised"), ("exc", jExc e)]
  | .result cls st r m p => [("out", "result"), ("cls", jResCls cls), ("status", jNat st), ("reason", jOpt jNat r),
      ("message", jOpt Json.str m), ("payload", jOpt Json.str p)]

def frameErrFields : FrameErr → List (String × Json)
  | .eof => [("err", "EOFError")]
  | .lengthMismatch e r => [("err", "RequestLengthMismatch"), ("expected", jNat e), ("received", jNat r)]

def jFrame : Except FrameErr Bytes → Json
  | .ok f => Json.mkObj [("ok", hex f)]
  | .error e => Json.mkObj (frameErrFields e)

def pChunks (j : Json) : P (List Bytes) := do
  (← asArr j).toList.mapM (fun c => do unhex (← asStr c))

def step (line : String) : String :=
  match Json.parse line with
  | .error e => s!"bad-json {e}"
  | .ok j =>
    let r : P Json := do
      match (← asStr (jget j "cmd")) with
      | "handle" => do
        let op ← pOp (← asStr (jget j "op"))
        let raw ← pRawItem (jget j "item")
        pure (Json.mkObj (outcomeFields (← decide' op raw)))
      | "frames" => do
        let k ← asNat (jget j "reads")
        let cs ← pChunks (jget j "chunks")
        pure (Json.mkObj [("frames", Json.arr ((clientFrames k cs).map jFrame).toArray)])
      | "call" => do
        let op ← pOp (← asStr (jget j "op"))
        let cs ← pChunks (jget j "chunks")
        let dec ← opt pRawItem (jget j "decoded")
        let item : Option (Item String) ← match dec with
          | none => pure none
          | some raw =>
            match raw.echo with
            | .other => throw "call: echo other is not modelled"
            | .absent => pure (some ⟨.absent, raw.status, raw.reason, raw.message, raw.payload⟩)
            | .same => pure (some ⟨.same, raw.status, raw.reason, raw.message, raw.payload⟩)
        match call (fun _ => item) op cs with
        | .frameError e => pure (Json.mkObj ([("call", Json.str "frameError")] ++ frameErrFields e))
        | .decodeError => pure (Json.mkObj [("call", "decodeError")])
        | .handled o => pure (Json.mkObj ([("call", Json.str "handled")] ++ outcomeFields o))
      | c => throw s!"cmd {c}"
    match r with
    | .ok out => out.compress
    | .error e => s!"bad-op {e}"

partial def loop (h : IO.FS.Stream) (out : IO.FS.Stream) : IO Unit := do
  let line ← h.getLine
  if line.isEmpty then return ()
  out.putStrLn (step line)
  loop h out

def main : IO Unit := do
  loop (← IO.getStdin) (← IO.getStdout)
