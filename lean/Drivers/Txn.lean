/-
Line-protocol driver for the request-level transaction model (M10b, `KmipModel/TxnRequest.lean`) on top of the
engine model.  Same commands as `Drivers/Engine.lean` (reset / restart / policies / req / dump) plus

  {"cmd":"trace","now":N,"id":{…},"req":{…}}
      the model's event trace of serving that request on the CURRENT store (the state is not changed):
      {"events":[["w",i] | ["c",i] | ["r"]], "durable":[store dump after each event], "rejected": null}
      with one write event per effect (`nw := fun _ => 1`); a request rejected before the batch loop answers
      {"rejected": reason}.
-/
import KmipModel.Engine.Wire
import KmipModel.TxnRequest
open Lean Kmip Kmip.Wire Kmip.Txn

def jStore (s : Store) : Json := Json.arr (s.objs.map jObj).toArray

def jEvent : REvent → Json
  | .write i => Json.arr #[Json.str "w", jNat i]
  | .commit i => Json.arr #[Json.str "c", jNat i]
  | .respond => Json.arr #[Json.str "r"]

def step (s : DState) (line : String) : DState × String :=
  match Json.parse line with
  | .error e => (s, s!"bad-json {e}")
  | .ok j =>
    let r : P (DState × Json) := do
      match (← asStr (jget j "cmd")) with
      | "reset" => pure ({ engine := Engine.init, policies := Gen.builtinPolicies }, Json.str "ok")
      | "restart" => pure ({ s with engine := s.engine.restart }, Json.str "ok")
      | "policies" => do
        let ps ← pPolicies (jget j "policies")
        pure ({ s with policies := ps }, Json.str "ok")
      | "dump" => pure (s, Json.mkObj [("objs", jStore s.engine.store),
                                        ("placeholder", jOpt Json.str s.engine.placeholder)])
      | "req" => do
        let now ← asNat (jget j "now")
        let id ← pIdentity (jget j "id")
        let req ← pRequest (jget j "req")
        let (e', res) := processRequest (mkCtx s now) s.engine id req
        let out := match res with
          | .rejected rsn msg => Json.mkObj [("rejected", jNat rsn), ("msg", msg)]
          | .results rs => Json.mkObj [("results", Json.arr (rs.map jResult).toArray)]
        pure ({ s with engine := e' }, out)
      | "trace" => do
        let now ← asNat (jget j "now")
        let id ← pIdentity (jget j "id")
        let req ← pRequest (jget j "req")
        let c := mkCtx s now
        match (processRequest c s.engine id req).2 with
        | .rejected rsn _ => pure (s, Json.mkObj [("rejected", jNat rsn)])
        | .results _ =>
          -- `processRequest_cases`: the batch loop runs on the normalised engine
          let run := requestRun (fun _ => 1) c req.stop ⟨s.engine.store, none, req.version, id⟩ req.items
          pure (s, Json.mkObj [("rejected", Json.null), ("events", Json.arr (run.map (fun p => jEvent p.1)).toArray),
                               ("durable", Json.arr (run.map (fun p => jStore p.2)).toArray)])
      | c => throw s!"cmd {c}"
    match r with
    | .ok (s', out) => (s', out.compress)
    | .error e => (s, s!"bad-op {e}")

partial def loop (h : IO.FS.Stream) (out : IO.FS.Stream) (s : DState) : IO Unit := do
  let line ← h.getLine
  if line.isEmpty then return ()
  let (s', o) := step s line
  out.putStrLn o
  loop h out s'

def main : IO Unit := do
  loop (← IO.getStdin) (← IO.getStdout) { engine := Engine.init, policies := Gen.builtinPolicies }
