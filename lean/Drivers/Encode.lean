/-
Line-protocol driver for the response-encoding model (M15, `KmipModel/Encode.lean`).  One JSON object per input
line, one JSON object per output line.

  {"ver":12,"now":N,"results":[…as printed by Drivers/Engine.lean (`Wire.jResult`) / impl_engine.data_of…],
   "rejected":null|{"reason":R,"msg":S},"extra":{"<item index>":"<hex of TTLV items>", …}}
    -> {"hex":"<response message bytes>"|null,"len":N|null,"inRange":bool,"valid":bool,"faults":[…],"gating":[…]}
       hex null = `ResponseMessage.write` raises (a mandatory field is missing); `inRange` = `responseInRange`
       (the explicit range predicate), `valid` = `Item.validB` of the tree, `faults` = `Envelope.faults`.
  {"op":"check","ver":V,"hex":H}  -> the monitors on bytes the REAL server wrote (no model of the encoder involved):
       {"ok":bool (strict M1 parse, no residue),"faults":[envelope],"gating":[tags the version excludes]}
  {"op":"consts"}  -> the constants of the model that are constants of the server (vendor identification)

Anything else answers `bad-op …`.
-/
import KmipModel.Engine.Wire
import KmipModel.Encode
open Lean Kmip Kmip.Wire

namespace EncDriver

def hexDigit (n : Nat) : Char := if n < 10 then Char.ofNat (48 + n) else Char.ofNat (87 + n)
def hexOf (bs : List UInt8) : String :=
  String.ofList (bs.foldr (fun b acc => hexDigit (b.toNat / 16) :: hexDigit (b.toNat % 16) :: acc) [])

def pCryptoData (j : Json) : P Crypto :=
  match j with
  | .str t => pure (.ok t)
  | .bool b => pure (.verdict b)
  | _ => throw s!"crypto data {j.compress}"

def pOptNat (j : Json) (k : String) : P (Option Nat) := opt asNat (jget j k)

def pData (j : Json) : P Data := do
  match (← asStr (jget j "k")) with
  | "uid" => .uid <$> asStr (jget j "uid")
  | "uidattr" => .uidAttr <$> asStr (jget j "uid") <*> opt pTAttr (jget j "attr")
  | "keypair" => .keyPair <$> asStr (jget j "priv") <*> asStr (jget j "pub")
  | "uids" => .uids <$> listOf asStr (jget j "uids")
  | "object" =>
    pure (.object (← asNat (jget j "otype")) (← asStr (jget j "uid")) (← asStr (jget j "value"))
      (← pOptNat j "alg") (← pOptNat j "len") (← pOptNat j "format") (← pOptNat j "subtype")
      (← asBool (jget j "wrapped")))
  | "attrs" => .attrs <$> asStr (jget j "uid") <*> listOf pTAttr (jget j "attrs")
  | "names" => .names <$> asStr (jget j "uid") <*> listOf asStr (jget j "names")
  | "ops" => .ops <$> listOf asNat (jget j "ops") <*> asBool (jget j "vendor")
  | "versions" => .versions <$> listOf asNat (jget j "versions")
  | "crypto" => .crypto <$> asStr (jget j "uid") <*> pCryptoData (jget j "c")
  | k => throw s!"data kind {k}"

def pResult (j : Json) : P ItemResult := do
  let op ← asNat (jget j "op")
  let bid ← opt asStr (jget j "bid")
  match (← asStr (jget j "status")) with
  | "ok" => pure ⟨op, bid, .ok (← pData (jget j "data"))⟩
  | "fail" =>
    let reason ← asNat (jget j "reason")
    if !(jget j "msg").isNull then pure ⟨op, bid, .error (.kmip reason (← asStr (jget j "msg")))⟩
    else if reason == Rsn.generalFailure && !(jget j "site").isNull then
      pure ⟨op, bid, .error (.internal (← asStr (jget j "site")))⟩
    else throw "failed item without message"
  | s => throw s!"status {s}"

/-- the oracle subtrees of item `i`: a concatenation of TTLV items, parsed by the strict M1 decoder -/
def pExtra (j : Json) (i : Nat) : P (List TTLV.Item) := do
  let x := jget j (toString i)
  if x.isNull then pure [] else
  let s ← asStr x
  match Encode.unhex s with
  | none => throw "extra: not hexadecimal"
  | some bs =>
    match TTLV.decodeList (bs.length + 1) bs with
    | some items => pure items
    | none => throw "extra: not well-formed TTLV"

def answer (j : Json) : P Json := do
  if !(jget j "op").isNull then
    match (← asStr (jget j "op")) with
    | "consts" => pure (Json.mkObj [("vendor", Json.str Encode.vendorIdentification)])
    | "check" =>
      -- the monitors on bytes the REAL server wrote: strict M1 parse, envelope, version gating
      let ver ← asNat (jget j "ver")
      match Encode.unhex (← asStr (jget j "hex")) with
      | none => throw "check: not hexadecimal"
      | some bs =>
        match TTLV.decodeAll bs with
        | none => pure (Json.mkObj [("ok", false)])
        | some i => pure (Json.mkObj [("ok", true),
            ("faults", Json.arr ((Envelope.faults (some (EngineResponse.verPair ver)) i).map Json.str).toArray),
            ("gating", Json.arr ((Encode.gatingFaults ver i).map jNat).toArray)])
    | o => throw s!"op {o}"
  else
  let ver ← asNat (jget j "ver")
  let now ← asInt (jget j "now")
  let rej := jget j "rejected"
  let res : ReqResult ← (if rej.isNull then do
      let rs ← listOf pResult (jget j "results")
      if (jget j "results").isNull then throw "neither results nor rejected"
      pure (ReqResult.results rs)
    else do pure (ReqResult.rejected (← asNat (jget rej "reason")) (← asStr (jget rej "msg"))))
  let n := match res with | .results rs => rs.length | _ => 0
  let extras ← (List.range n).mapM (pExtra (jget j "extra"))
  let item := Encode.responseItem ver now extras res
  let inRange := Encode.responseInRange ver now extras res
  match item with
  | none => pure (Json.mkObj [("hex", Json.null), ("len", Json.null), ("inRange", inRange), ("valid", false),
                              ("faults", Json.arr #[]), ("gating", Json.arr #[])])
  | some i =>
    let bs := TTLV.encode i
    pure (Json.mkObj [("hex", hexOf bs), ("len", jNat bs.length), ("inRange", inRange), ("valid", i.validB),
      ("faults", Json.arr ((Envelope.faults (some (EngineResponse.verPair ver)) i).map Json.str).toArray),
      ("gating", Json.arr ((Encode.gatingFaults ver i).map jNat).toArray)])

def step (line : String) : String :=
  match Json.parse line with
  | .error e => s!"bad-json {e}"
  | .ok j =>
    match answer j with
    | .ok out => out.compress
    | .error e => s!"bad-op {e}"

end EncDriver

partial def loop (h : IO.FS.Stream) (out : IO.FS.Stream) : IO Unit := do
  let line ← h.getLine
  if line.isEmpty then return ()
  out.putStrLn (EncDriver.step line)
  loop h out

def main : IO Unit := do
  loop (← IO.getStdin) (← IO.getStdout)
