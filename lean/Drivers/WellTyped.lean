/-
Driver for the well-typedness predicate of C13: for every request line it answers which items satisfy
`C13.wellTypedB` (the executable form of the hypothesis of `no_internal_error`) under the request's version.
Other commands of the engine protocol are accepted and ignored, so a recorded history can be piped as is.
-/
import KmipModel.Engine.Wire
import KmipModel.Props.C13
open Lean Kmip Kmip.Wire

def stepWT (line : String) : String :=
  match Json.parse line with
  | .error e => s!"bad-json {e}"
  | .ok j =>
    let r : P Json := do
      match (← asStr (jget j "cmd")) with
      | "req" => do
        let now ← asNat (jget j "now")
        let id ← pIdentity (jget j "id")
        let req ← pRequest (jget j "req")
        let c : Ctx := { rules := Gen.attrRules, policies := [], now := now, supportedVersions := Gen.supportedVersions }
        let e : Engine := ⟨Store.empty, none, req.version, id⟩
        -- "crypto": null = the implementation never consulted the backend for this item: the theorem is
        -- instantiated with an arbitrary admissible answer (a KMIP error)
        let raw ← asArr (jget (jget j "req") "items")
        let items := (req.items.zip raw.toList).map (fun (it, ij) =>
          if (jget ij "crypto").isNull then { it with crypto := .kmipError 0 } else it)
        pure (Json.mkObj [("wt", Json.arr (items.map (fun it => Json.bool (C13.wellTypedB c e it))).toArray)])
      | "reset" | "restart" | "policies" | "dump" => pure (Json.str "ok")
      | c => throw s!"cmd {c}"
    match r with
    | .ok out => out.compress
    | .error e => s!"bad-op {e}"

partial def loopWT (h : IO.FS.Stream) (out : IO.FS.Stream) : IO Unit := do
  let line ← h.getLine
  if line.isEmpty then return ()
  out.putStrLn (stepWT line)
  loopWT h out

def main : IO Unit := do
  loopWT (← IO.getStdin) (← IO.getStdout)
