/-
Line-protocol driver for the session model (M7).  One JSON object per input line,
one JSON object per output line; anything unknown or malformed answers `bad-op …`.

  {"cmd":"recv","size":N,"chunks":[hex|null,…]}
      -> {"k":"ok"|"closed"|"short","bytes":hex,"rest":[hex|null,…]}          (_receive_bytes)
  {"cmd":"frames","chunks":[hex|null,…]}
      -> {"reads":[{"k":…,"bytes":hex},…],"frames":[hex,…],"residue":hex}      (_receive_request in a loop)
  {"cmd":"establish","tls":bool,"cert":CERT|null,"plugins":[PLUGIN,…],"slugs":[SLUGS,…]}
      -> {"ok":{"user":s,"groups":[s,…]|null}} | {"error":"certificate"|"authentication"}
  {"cmd":"run", (the establish fields), "handshake":bool, "chunks":[…],
     "parse":[{"frame":hex,"version":[maj,min]|null},…],      decoder verdict per distinct frame
     "engine":[ENGINEOUT,…],                                  outcome of the k-th engine call
     "errlen":N, "default_version":[maj,min], "max_response_size":N}
      -> {"events":[{"k":"handled","frame":hex,"sent":SENT|null,"call":ID|null}|{"k":"badframe","bytes":hex},…],
          "calls":n}

  CERT      {"eku":null|["client"|"other",…],"cns":[s,…]}
  PLUGIN    {"name":s,"enabled":s|null,"url":s|null}
  SLUGS     {"url":s,"user":s,"users":HTTP,"groups":HTTP}     (anything not listed is unreachable)
  HTTP      {"k":"unreachable"} | {"k":"status","code":N,"body":"invalid"|{"groups":[s,…]|null}}
  ENGINEOUT {"k":"ok","max":int|null,"ver":[maj,min],"len":N|null} | {"k":"kmip","reason":N} | {"k":"other"}
            (len = encoded length of the engine's response, null: `write` raised)
  SENT      {"k":"normal","len":N} | {"k":"error","ver":[maj,min],"reason":N}
-/
import Lean.Data.Json
import KmipModel.Session
open Lean Kmip Kmip.Session

abbrev P := Except String

def jget (j : Json) (k : String) : Json := (j.getObjVal? k).toOption.getD Json.null
def need (j : Json) (k : String) : P Json :=
  match j.getObjVal? k with | .ok v => pure v | .error _ => throw s!"missing field {k}"
def asNat (j : Json) : P Nat := match j.getNat? with | .ok n => pure n | .error e => throw s!"nat: {e} in {j.compress}"
def asInt (j : Json) : P Int := match j.getInt? with | .ok n => pure n | .error e => throw s!"int: {e} in {j.compress}"
def asStr (j : Json) : P String := match j.getStr? with | .ok n => pure n | .error e => throw s!"str: {e} in {j.compress}"
def asBool (j : Json) : P Bool := match j.getBool? with | .ok n => pure n | .error e => throw s!"bool: {e} in {j.compress}"
def asArr (j : Json) : P (Array Json) := match j.getArr? with | .ok n => pure n | .error e => throw s!"arr: {e} in {j.compress}"
def opt {α} (f : Json → P α) (j : Json) : P (Option α) := if j.isNull then pure none else some <$> f j
def listOf {α} (f : Json → P α) (j : Json) : P (List α) := do (← asArr j).toList.mapM f

def hexVal (c : Char) : P Nat :=
  if '0' ≤ c ∧ c ≤ '9' then pure (c.toNat - '0'.toNat)
  else if 'a' ≤ c ∧ c ≤ 'f' then pure (c.toNat - 'a'.toNat + 10)
  else if 'A' ≤ c ∧ c ≤ 'F' then pure (c.toNat - 'A'.toNat + 10)
  else throw s!"hex digit {c}"

partial def unhexL : List Char → P Bytes
  | [] => pure []
  | [_] => throw "odd hex length"
  | a :: b :: r => do
    let x ← hexVal a
    let y ← hexVal b
    let t ← unhexL r
    pure (UInt8.ofNat (x * 16 + y) :: t)

def unhex (s : String) : P Bytes := unhexL s.toList

def hexDigit (n : Nat) : Char := if n < 10 then Char.ofNat (48 + n) else Char.ofNat (87 + n)
def hex (bs : Bytes) : String :=
  String.ofList (bs.foldr (fun b acc => hexDigit (b.toNat / 16) :: hexDigit (b.toNat % 16) :: acc) [])

def pChunk (j : Json) : P (Option Bytes) := opt (fun x => do unhex (← asStr x)) j
def pConn (j : Json) : P Conn := listOf pChunk j
def jChunk : Option Bytes → Json
  | none => Json.null
  | some b => Json.str (hex b)

def pVer (j : Json) : P Ver := do
  let a ← asArr j
  if a.size ≠ 2 then throw "version must be [major, minor]"
  pure (← asNat a[0]!, ← asNat a[1]!)
def jVer (v : Ver) : Json := Json.arr #[Json.num v.1, Json.num v.2]

def pEku (j : Json) : P Eku := do
  match (← asStr j) with
  | "client" => pure .clientAuth
  | "other" => pure .other
  | k => throw s!"eku {k}"

def pCert (j : Json) : P Cert := do
  pure ⟨← opt (listOf pEku) (← need j "eku"), ← listOf asStr (← need j "cns")⟩

def pPlugin (j : Json) : P Plugin := do
  pure ⟨← asStr (← need j "name"), ← opt asStr (jget j "enabled"), ← opt asStr (jget j "url")⟩

def pBody (j : Json) : P GroupsBody := do
  match j with
  | .str "invalid" => pure .invalid
  | .str s => throw s!"body {s}"
  | _ => do
    let g ← need j "groups"
    pure (.groups (← opt (listOf asStr) g))

def pHttp (j : Json) : P Http := do
  match (← asStr (← need j "k")) with
  | "unreachable" => pure .unreachable
  | "status" => pure (.status (← asNat (← need j "code")) (← pBody (← need j "body")))
  | k => throw s!"http {k}"

structure SlugsRow where
  url : String
  user : String
  users : Http
  groups : Http

def pSlugsRow (j : Json) : P SlugsRow := do
  pure ⟨← asStr (← need j "url"), ← asStr (← need j "user"), ← pHttp (← need j "users"), ← pHttp (← need j "groups")⟩

def mkSlugs (rows : List SlugsRow) : Slugs :=
  ⟨fun url u => match rows.find? (fun r => r.url == url && r.user == u) with
      | some r => r.users
      | none => .unreachable,
   fun url u => match rows.find? (fun r => r.url == url && r.user == u) with
      | some r => r.groups
      | none => .unreachable⟩

def pAuthCfg (j : Json) : P AuthCfg := do
  pure ⟨← asBool (← need j "tls"), ← listOf pPlugin (← need j "plugins"),
        mkSlugs (← listOf pSlugsRow (← need j "slugs"))⟩

def pPeer (j : Json) : P (Option Cert) := do opt pCert (← need j "cert")

def jIdentity (id : Identity) : Json :=
  Json.mkObj [("user", match id.user with | some u => Json.str u | none => Json.null),
              ("groups", match id.groups with
                | some g => Json.arr (g.map Json.str).toArray
                | none => Json.null)]

/-! the engine / decoder oracles of one `run` -/
inductive EOut where
  | ok (max : Option Int) (ver : Ver) (len : Option Nat)
  | kmip (reason : Nat)
  | other

def pEOut (j : Json) : P EOut := do
  match (← asStr (← need j "k")) with
  | "ok" => pure (.ok (← opt asInt (jget j "max")) (← pVer (← need j "ver")) (← opt asNat (← need j "len")))
  | "kmip" => pure (.kmip (← asNat (← need j "reason")))
  | "other" => pure .other
  | k => throw s!"engine outcome {k}"

/-- request = (frame, version); response = its encoded length; engine state = number of calls so far.
A call beyond the supplied outcomes is answered `.other` and reported as bad-op by the caller. -/
def mkEnv (table : List (Bytes × Option Ver)) (outs : Array EOut) (errlen : Nat) : Env (Bytes × Ver) (Option Nat) Nat where
  parse := fun bs => match table.find? (fun r => r.1 == bs) with
    | some (_, some v) => some (bs, v)
    | _ => none
  version := fun q => q.2
  engine := fun k _ _ =>
    match outs[k]? with
    | some (.ok m v len) => (.ok len m v, k + 1)
    | some (.kmip r) => (.kmipError r, k + 1)
    | some .other => (.other, k + 1)
    | none => (.other, k + 1)
  encLen := fun r _ => match r with
    | .normal len => len
    | .error _ _ => some errlen

def jSent : Option (Response (Option Nat)) → Json
  | none => Json.null
  | some (.normal len) => Json.mkObj [("k", "normal"), ("len", match len with | some n => Json.num n | none => Json.null)]
  | some (.error v r) => Json.mkObj [("k", "error"), ("ver", jVer v), ("reason", Json.num r)]

def jEvent : Event (Bytes × Ver) (Option Nat) → Json
  | .handled d o => Json.mkObj [("k", "handled"), ("frame", hex d), ("sent", jSent o.sent),
      ("call", match o.engineCall with | some (_, id) => jIdentity id | none => Json.null)]
  | .badFrame p => Json.mkObj [("k", "badframe"), ("bytes", hex p)]

def jRecv : Recv → Json
  | .ok b => Json.mkObj [("k", "ok"), ("bytes", hex b)]
  | .closed b => Json.mkObj [("k", "closed"), ("bytes", hex b)]
  | .short b => Json.mkObj [("k", "short"), ("bytes", hex b)]

def step (line : String) : String :=
  match Json.parse line with
  | .error e => s!"bad-json {e}"
  | .ok j =>
    let r : P Json := do
      match (← asStr (← need j "cmd")) with
      | "recv" => do
        let c ← pConn (← need j "chunks")
        let (res, rest) := recvBytes (← asNat (← need j "size")) c
        let base := match res with
          | .ok b => [("k", Json.str "ok"), ("bytes", Json.str (hex b))]
          | .closed b => [("k", Json.str "closed"), ("bytes", Json.str (hex b))]
          | .short b => [("k", Json.str "short"), ("bytes", Json.str (hex b))]
        pure (Json.mkObj (base ++ [("rest", Json.arr (rest.map jChunk).toArray)]))
      | "frames" => do
        let c ← pConn (← need j "chunks")
        let rs := reads c
        let (fs, res) := framesOf rs
        pure (Json.mkObj [("reads", Json.arr (rs.map jRecv).toArray),
                          ("frames", Json.arr (fs.map (fun f => Json.str (hex f))).toArray),
                          ("residue", Json.str (hex res))])
      | "establish" => do
        let cfg ← pAuthCfg j
        let peer ← pPeer j
        match establish cfg peer with
        | .ok id => pure (Json.mkObj [("ok", jIdentity id)])
        | .error .certificate => pure (Json.mkObj [("error", "certificate")])
        | .error .authentication => pure (Json.mkObj [("error", "authentication")])
      | "run" => do
        let auth ← pAuthCfg j
        let peer ← pPeer j
        let c ← pConn (← need j "chunks")
        let table ← listOf (fun r => do
          pure ((← unhex (← asStr (← need r "frame"))), (← opt pVer (← need r "version")))) (← need j "parse")
        let outs ← listOf pEOut (← need j "engine")
        let cfg : SessionCfg := { auth := auth, defaultVer := ← pVer (← need j "default_version"),
                                  maxResponseSize := ← asNat (← need j "max_response_size") }
        let env := mkEnv table outs.toArray (← asNat (← need j "errlen"))
        let (events, calls) := session env cfg (← asBool (← need j "handshake")) peer 0 c
        if calls > outs.length then throw s!"engine called {calls} times, {outs.length} outcomes supplied"
        -- every framed request must have a decoder verdict
        for e in events do
          match e with
          | .handled d _ => if (table.find? (fun r => r.1 == d)).isNone then throw s!"no decoder verdict for frame {hex d}"
          | _ => pure ()
        pure (Json.mkObj [("events", Json.arr (events.map jEvent).toArray), ("calls", Json.num calls)])
      | c => throw s!"cmd {c}"
    match r with
    | .ok out => out.compress
    | .error e => s!"bad-op {e}"

partial def loop (h : IO.FS.Stream) (out : IO.FS.Stream) : IO Unit := do
  let line ← h.getLine
  if line.isEmpty then return ()
  out.putStrLn (step line)
  loop h out

def main : IO Unit := do
  loop (← IO.getStdin) (← IO.getStdout)
