/- Driver for M13 (key wrapping data dictionary <-> columns). -/
import Lean.Data.Json
import KmipModel.Convert
open Lean Kmip.Convert

abbrev P := Except String
def jget (j : Json) (k : String) : Json := (j.getObjVal? k).toOption.getD Json.null

def pFV (j : Json) : P FV := do
  if j.isNull then return .none
  match (jget j "k").getStr? with
  | .ok "none" => pure .none
  | .ok "enum" => match (jget j "v").getNat? with | .ok n => pure (.enum n) | .error e => throw e
  | .ok "int" => match (jget j "v").getInt? with | .ok n => pure (.int n) | .error e => throw e
  | .ok "bool" => match (jget j "v").getBool? with | .ok b => pure (.bool b) | .error e => throw e
  | .ok "bytes" => match (jget j "v").getStr? with | .ok s => pure (.bytes s) | .error e => throw e
  | .ok "text" => match (jget j "v").getStr? with | .ok s => pure (.text s) | .error e => throw e
  | _ => throw "fv kind"

def pKI (j : Json) : P (Option KeyInfo) := do
  if j.isNull then return none
  let cpj := jget j "cp"
  let cp ← if cpj.isNull then pure none else
    match cpj.getArr? with
    | .ok a => some <$> a.toList.mapM pFV
    | .error e => throw e
  pure (some ⟨← pFV (jget j "uid"), cp⟩)

def pW (j : Json) : P (Option WrapDict) := do
  if j.isNull then return none
  pure (some ⟨← pFV (jget j "method"), ← pKI (jget j "eki"), ← pKI (jget j "mski"), ← pFV (jget j "macSig"),
              ← pFV (jget j "iv"), ← pFV (jget j "encoding")⟩)

def jFV : FV → Json
  | .none => Json.mkObj [("k", "none")]
  | .enum n => Json.mkObj [("k", "enum"), ("v", Json.num n)]
  | .int n => Json.mkObj [("k", "int"), ("v", Json.num (JsonNumber.fromInt n))]
  | .bool b => Json.mkObj [("k", "bool"), ("v", Json.bool b)]
  | .bytes s => Json.mkObj [("k", "bytes"), ("v", Json.str s)]
  | .text s => Json.mkObj [("k", "text"), ("v", Json.str s)]

def jKI : Option KeyInfo → Json
  | none => Json.null
  | some k => Json.mkObj [("uid", jFV k.uid), ("cp", match k.cp with
      | none => Json.null
      | some l => Json.arr (l.map jFV).toArray)]

def jW : Option WrapDict → Json
  | none => Json.null
  | some w => Json.mkObj [("method", jFV w.method), ("eki", jKI w.eki), ("mski", jKI w.mski), ("macSig", jFV w.macSig),
                          ("iv", jFV w.iv), ("encoding", jFV w.encoding)]

def step (line : String) : String :=
  match Json.parse line with
  | .error e => s!"bad-json {e}"
  | .ok j =>
    match pW (jget j "w") with
    | .ok w => (Json.mkObj [("out", jW (fromColumns (toColumns w)))]).compress
    | .error e => s!"bad-op {e}"

partial def loop (h : IO.FS.Stream) (out : IO.FS.Stream) : IO Unit := do
  let line ← h.getLine
  if line.isEmpty then return ()
  out.putStrLn (step line)
  loop h out

def main : IO Unit := do loop (← IO.getStdin) (← IO.getStdout)
