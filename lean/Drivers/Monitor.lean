/-
Line-protocol driver for the monitor / policy-file parser model (M6).  One JSON
object per input line, one JSON object per output line.

  {"op":"tables"}
        the name tables and reserved names the driver runs with
  {"op":"reset","slot":k,"store":[[name,pol],…]}
        slot k := initialize_tracking_structures on that shared store
  {"op":"scan","from":k,"to":m,"snap":[[file,mtime,PARSE],…]}
        slot m := scan_policies() applied to slot k;  PARSE = {"ok":[[name,pol],…]} | "rejected" | {"crash":"Cls"}
        answer {"store":[[name,pol],…],"exn":null|"…","map":[[name,file],…],"cache":[[name,[[file,pol],…]],…],
                "timestamps":[[file,t],…]}   (dict order; cache stacks top first)
  {"op":"read","doc":DOC}  |  {"op":"read","unparsable":true}
        read_policy_from_file on a document json.loads accepts / on a text it refuses.
        DOC encodes a JSON value keeping object key order:
        null | true | false | integer | "string" | [DOC,…] | {"o":[[key,DOC],…]}
        answer {"ok":[[name,{"preset":TBL|null,"groups":[[g,TBL],…]|null}],…]} | {"reject":true} | {"crash":"Cls"}
Unknown or malformed input answers `bad-op …`.
-/
import Lean.Data.Json
import KmipModel.Monitor
import KmipModel.Gen.Tables
open Lean Kmip Kmip.Mon

abbrev P := Except String

def jget (j : Json) (k : String) : Json := (j.getObjVal? k).toOption.getD Json.null
def asNat (j : Json) : P Nat := match j.getNat? with | .ok n => pure n | .error e => throw s!"nat: {e} in {j.compress}"
def asStr (j : Json) : P String := match j.getStr? with | .ok n => pure n | .error e => throw s!"str: {e} in {j.compress}"
def asArr (j : Json) : P (Array Json) := match j.getArr? with | .ok n => pure n | .error e => throw s!"arr: {e} in {j.compress}"
def listOf {α} (f : Json → P α) (j : Json) : P (List α) := do (← asArr j).toList.mapM f
def pair {α β} (f : Json → P α) (g : Json → P β) (j : Json) : P (α × β) := do
  let a ← asArr j
  if a.size != 2 then throw s!"pair expected in {j.compress}"
  pure (← f a[0]!, ← g a[1]!)

def tables : NameTables :=
  { objectTypes := Gen.enumObjectType.map Prod.fst, operations := Gen.enumOperation.map Prod.fst,
    permissions := permissionNames }
def reserved : List Mon.Name := Gen.reservedPolicies

def pParse (j : Json) : P Parse :=
  match j with
  | .str "rejected" => pure .rejected
  | .str s => throw s!"parse result {s}"
  | _ =>
    match j.getObjVal? "ok", j.getObjVal? "crash" with
    | .ok d, _ => .ok <$> listOf (pair asStr asNat) d
    | _, .ok c => .crash <$> asStr c
    | _, _ => throw s!"parse result {j.compress}"

def pSnap (j : Json) : P DirSnapshot := listOf (fun row => do
  let a ← asArr row
  if a.size != 3 then throw s!"snapshot row {row.compress}"
  pure (← asStr a[0]!, ← asNat a[1]!, ← pParse a[2]!)) j

partial def pDoc (j : Json) : P J :=
  match j with
  | .null => pure .null
  | .bool b => pure (.bool b)
  | .str s => pure (.str s)
  | .num _ => match j.getInt? with
    | .ok n => pure (.num n)
    | .error e => throw s!"integer expected: {e}"
  | .arr a => .arr <$> a.toList.mapM pDoc
  | .obj _ =>
    match j.getObjVal? "o" with
    | .ok kvs => .obj <$> listOf (pair asStr pDoc) kvs
    | .error _ => throw s!"object encoding {j.compress}"

def jPairs {α β} (f : α → Json) (g : β → Json) (l : List (α × β)) : Json :=
  Json.arr (l.map (fun p => Json.arr #[f p.1, g p.2])).toArray
def jNat (n : Nat) : Json := Json.num n
def jOpt {α} (f : α → Json) : Option α → Json
  | none => Json.null
  | some a => f a

def jExn : Exn → Json
  | .parser c => Json.str s!"parser:{c}"
  | .fileNotFound => Json.str "FileNotFoundError"
  | .attributeError => Json.str "AttributeError"
  | .modelGap => Json.str "model-gap"

def jState (s : MonState) (e : Option Exn) : Json :=
  Json.mkObj [("store", jPairs Json.str jNat s.store), ("exn", jOpt jExn e),
    ("map", jPairs Json.str Json.str s.map),
    ("cache", jPairs Json.str (fun c => Json.arr (c.map (fun e => Json.arr #[Json.str e.file, jNat e.pol])).toArray) s.cache),
    ("timestamps", jPairs Json.str jNat s.timestamps)]

def jTbl (t : ObjTbl) : Json := jPairs Json.str (jPairs Json.str Json.str) t
def jPolicyVal (v : PolicyVal) : Json :=
  Json.mkObj [("preset", jOpt jTbl v.preset), ("groups", jOpt (jPairs Json.str jTbl) v.groups)]

def step (slots : Array MonState) (line : String) : Array MonState × String :=
  match Json.parse line with
  | .error e => (slots, s!"bad-op json {e}")
  | .ok j =>
    let r : P (Array MonState × Json) := do
      match (← asStr (jget j "op")) with
      | "tables" => pure (slots, Json.mkObj [("objectTypes", Json.arr (tables.objectTypes.map Json.str).toArray),
          ("operations", Json.arr (tables.operations.map Json.str).toArray),
          ("permissions", Json.arr (tables.permissions.map Json.str).toArray),
          ("reserved", Json.arr (reserved.map Json.str).toArray)])
      | "reset" => do
        let k ← asNat (jget j "slot")
        let st ← listOf (pair asStr asNat) (jget j "store")
        let s := MonState.init reserved st
        let slots := if k < slots.size then slots.set! k s else (slots ++ Array.replicate (k + 1 - slots.size) s)
        pure (slots, jState s none)
      | "scan" => do
        let k ← asNat (jget j "from")
        let m ← asNat (jget j "to")
        let snap ← pSnap (jget j "snap")
        if k ≥ slots.size then throw s!"slot {k} is empty"
        let (s', e) := match scanE reserved slots[k]! snap with
          | .ok s' => (s', none)
          | .error (s', e) => (s', some e)
        let slots := if m < slots.size then slots.set! m s' else (slots ++ Array.replicate (m + 1 - slots.size) s')
        pure (slots, jState s' e)
      | "read" => do
        let doc ← match j.getObjVal? "unparsable", j.getObjVal? "doc" with
          | .ok (.bool true), .error _ => pure none
          | .error _, .ok d => some <$> pDoc d
          | _, _ => throw "read needs exactly one of doc / unparsable:true"
        let out := match readPolicy tables doc with
          | .ok r => Json.mkObj [("ok", jPairs Json.str jPolicyVal r)]
          | .error .reject => Json.mkObj [("reject", true)]
          | .error .attributeError => Json.mkObj [("crash", "AttributeError")]
          | .error .keyError => Json.mkObj [("crash", "KeyError")]
        pure (slots, out)
      | c => throw s!"op {c}"
    match r with
    | .ok (s', out) => (s', out.compress)
    | .error e => (slots, s!"bad-op {e}")

partial def loop (h : IO.FS.Stream) (out : IO.FS.Stream) (s : Array MonState) : IO Unit := do
  let line ← h.getLine
  if line.isEmpty then return ()
  let (s', o) := step s line
  out.putStrLn o
  loop h out s'

def main : IO Unit := do
  loop (← IO.getStdin) (← IO.getStdout) #[]
