/-
Line-protocol driver for the monitor / policy-file parser model (M6).  One JSON
object per input line, one JSON object per output line.

  {"op":"tables"}
        the name tables and reserved names the driver runs with
  {"op":"reset","slot":k,"store":[[name,pol],…]}
        slot k := initialize_tracking_structures on that shared store
  {"op":"scan","from":k,"to":m,"snap":[[file,mtime,CONTENT],…],"full":true?}
        slot m := scan_policies() applied to slot k.  CONTENT says what read_policy_from_file does on the file:
          {"ok":[[name,pol],…]} | "rejected" | {"crash":"Cls"}      given outright (pol = number < 1000000), or
          {"doc":DOC} | {"unparsable":true}                         computed by the parser model (readPolicy);
        a parsed policy value is interned as a token ≥ 1000000 and printed back as the value itself.
        answer {"store":[[name,pol|VALUE],…],"exn":null|"…"} and with "full" also
               "map":[[name,file],…],"cache":[[name,[[file,pol],…]],…],"timestamps":[[file,t],…]
               (dict order; cache stacks top first)
  {"op":"read","doc":DOC}  |  {"op":"read","unparsable":true}
        read_policy_from_file on a document json.loads accepts / on a text it refuses.
        DOC encodes a JSON value keeping object key order:
        null | true | false | integer | "string" | [DOC,…] | {"o":[[key,DOC],…]}
        answer {"ok":[[name,{"preset":TBL|null,"groups":[[g,TBL],…]|null}],…]} | {"reject":true} | {"crash":"Cls"}
Unknown or malformed input answers `bad-op …`.
-/
import Lean.Data.Json
import KmipModel.Monitor
import KmipModel.Gen.Tables
open Lean Kmip Kmip.Mon

abbrev P := Except String

def jget (j : Json) (k : String) : Json := (j.getObjVal? k).toOption.getD Json.null
def asNat (j : Json) : P Nat := match j.getNat? with | .ok n => pure n | .error e => throw s!"nat: {e} in {j.compress}"
def asStr (j : Json) : P String := match j.getStr? with | .ok n => pure n | .error e => throw s!"str: {e} in {j.compress}"
def asArr (j : Json) : P (Array Json) := match j.getArr? with | .ok n => pure n | .error e => throw s!"arr: {e} in {j.compress}"
def listOf {α} (f : Json → P α) (j : Json) : P (List α) := do (← asArr j).toList.mapM f
def pair {α β} (f : Json → P α) (g : Json → P β) (j : Json) : P (α × β) := do
  let a ← asArr j
  if a.size != 2 then throw s!"pair expected in {j.compress}"
  pure (← f a[0]!, ← g a[1]!)

def tables : NameTables :=
  { objectTypes := Gen.enumObjectType.map Prod.fst, operations := Gen.enumOperation.map Prod.fst,
    permissions := permissionNames }
def reserved : List Mon.Name := Gen.reservedPolicies

def jPairs {α β} (f : α → Json) (g : β → Json) (l : List (α × β)) : Json :=
  Json.arr (l.map (fun p => Json.arr #[f p.1, g p.2])).toArray
def jNat (n : Nat) : Json := Json.num n
def jOpt {α} (f : α → Json) : Option α → Json
  | none => Json.null
  | some a => f a

partial def pDoc (j : Json) : P J :=
  match j with
  | .null => pure .null
  | .bool b => pure (.bool b)
  | .str s => pure (.str s)
  | .num _ => match j.getInt? with
    | .ok n => pure (.num n)
    | .error e => throw s!"integer expected: {e}"
  | .arr a => .arr <$> a.toList.mapM pDoc
  | .obj _ =>
    match j.getObjVal? "o" with
    | .ok kvs => .obj <$> listOf (pair asStr pDoc) kvs
    | .error _ => throw s!"object encoding {j.compress}"


def jTbl (t : ObjTbl) : Json := jPairs Json.str (jPairs Json.str Json.str) t
def jPolicyVal (v : PolicyVal) : Json :=
  Json.mkObj [("preset", jOpt jTbl v.preset), ("groups", jOpt (jPairs Json.str jTbl) v.groups)]

/-- interning table of parsed policy values: token = 1000000 + index -/
abbrev Pols := Array (String × Json)
def tokBase : Nat := 1000000

def intern (ps : Pols) (v : PolicyVal) : Pols × Nat :=
  let j := jPolicyVal v
  let key := j.compress
  match ps.findIdx? (fun e => e.1 == key) with
  | some i => (ps, tokBase + i)
  | none => (ps.push (key, j), tokBase + ps.size)

def internAll (ps : Pols) (l : List (String × PolicyVal)) : Pols × List (Mon.Name × PolId) :=
  l.foldl (fun (acc : Pols × List (Mon.Name × PolId)) e =>
    let (ps', t) := intern acc.1 e.2
    (ps', acc.2 ++ [(e.1, t)])) (ps, [])

def pParse (ps : Pols) (j : Json) : P (Pols × Parse) :=
  match j with
  | .str "rejected" => pure (ps, .rejected)
  | .str s => throw s!"content {s}"
  | _ =>
    match j.getObjVal? "ok", j.getObjVal? "crash", j.getObjVal? "doc", j.getObjVal? "unparsable" with
    | .ok d, .error _, .error _, .error _ => do
      let l ← listOf (pair asStr asNat) d
      if l.any (fun e => e.2 ≥ tokBase) then throw "explicit policy tokens must be < 1000000"
      pure (ps, .ok l)
    | .error _, .ok c, .error _, .error _ => do pure (ps, .crash (← asStr c))
    | .error _, .error _, d, u => do
      let doc ← match u, d with
        | .ok (.bool true), .error _ => pure none
        | .error _, .ok d => some <$> pDoc d
        | _, _ => throw s!"content {j.compress}"
      match readPolicy tables doc with
      | .ok r => let (ps', l) := internAll ps r; pure (ps', .ok l)
      | .error .reject => pure (ps, .rejected)
      | .error .attributeError => pure (ps, .crash "AttributeError")
      | .error .keyError => pure (ps, .crash "KeyError")
    | _, _, _, _ => throw s!"content {j.compress}"

def pSnap (ps : Pols) (j : Json) : P (Pols × DirSnapshot) := do
  let rows ← asArr j
  let mut ps := ps
  let mut out : DirSnapshot := []
  for row in rows do
    let a ← asArr row
    if a.size != 3 then throw s!"snapshot row {row.compress}"
    let (ps', pr) ← pParse ps a[2]!
    ps := ps'
    out := out ++ [(← asStr a[0]!, ← asNat a[1]!, pr)]
  pure (ps, out)

def jExn : Exn → Json
  | .parser c => Json.str s!"parser:{c}"
  | .fileNotFound => Json.str "FileNotFoundError"
  | .attributeError => Json.str "AttributeError"
  | .modelGap => Json.str "model-gap"

structure DState where
  slots : Array MonState
  pols : Pols

def jPol (ps : Pols) (t : PolId) : Json :=
  if t ≥ tokBase then (match ps[t - tokBase]? with | some e => e.2 | none => jNat t) else jNat t

def jState (ps : Pols) (s : MonState) (e : Option Exn) (full : Bool) : Json :=
  let base := [("store", jPairs Json.str (jPol ps) s.store), ("exn", jOpt jExn e)]
  if full then
    Json.mkObj (base ++ [("map", jPairs Json.str Json.str s.map),
      ("cache", jPairs Json.str (fun c => Json.arr (c.map (fun e => Json.arr #[Json.str e.file, jPol ps e.pol])).toArray) s.cache),
      ("timestamps", jPairs Json.str jNat s.timestamps)])
  else Json.mkObj base

def setSlot (slots : Array MonState) (k : Nat) (s : MonState) : Array MonState :=
  if k < slots.size then slots.set! k s else (slots ++ Array.replicate (k + 1 - slots.size) s)

def step (st : DState) (line : String) : DState × String :=
  match Json.parse line with
  | .error e => (st, s!"bad-op json {e}")
  | .ok j =>
    let r : P (DState × Json) := do
      match (← asStr (jget j "op")) with
      | "tables" => pure (st, Json.mkObj [("objectTypes", Json.arr (tables.objectTypes.map Json.str).toArray),
          ("operations", Json.arr (tables.operations.map Json.str).toArray),
          ("permissions", Json.arr (tables.permissions.map Json.str).toArray),
          ("reserved", Json.arr (reserved.map Json.str).toArray)])
      | "reset" => do
        let k ← asNat (jget j "slot")
        let store ← listOf (pair asStr asNat) (jget j "store")
        if store.any (fun e => e.2 ≥ tokBase) then throw "explicit policy tokens must be < 1000000"
        let s := MonState.init reserved store
        pure ({ st with slots := setSlot st.slots k s }, jState st.pols s none true)
      | "scan" => do
        let k ← asNat (jget j "from")
        let m ← asNat (jget j "to")
        let full := (jget j "full") == Json.bool true
        let (ps, snap) ← pSnap st.pols (jget j "snap")
        if k ≥ st.slots.size then throw s!"slot {k} is empty"
        let (s', e) := match scanE reserved st.slots[k]! snap with
          | .ok s' => (s', none)
          | .error (s', e) => (s', some e)
        pure ({ slots := setSlot st.slots m s', pols := ps }, jState ps s' e full)
      | "read" => do
        let doc ← match j.getObjVal? "unparsable", j.getObjVal? "doc" with
          | .ok (.bool true), .error _ => pure none
          | .error _, .ok d => some <$> pDoc d
          | _, _ => throw "read needs exactly one of doc / unparsable:true"
        let out := match readPolicy tables doc with
          | .ok r => Json.mkObj [("ok", jPairs Json.str jPolicyVal r)]
          | .error .reject => Json.mkObj [("reject", true)]
          | .error .attributeError => Json.mkObj [("crash", "AttributeError")]
          | .error .keyError => Json.mkObj [("crash", "KeyError")]
        pure (st, out)
      | c => throw s!"op {c}"
    match r with
    | .ok (s', out) => (s', out.compress)
    | .error e => (st, s!"bad-op {e}")

partial def loop (h : IO.FS.Stream) (out : IO.FS.Stream) (s : DState) : IO Unit := do
  let line ← h.getLine
  if line.isEmpty then return ()
  let (s', o) := step s line
  out.putStrLn o
  loop h out s'

def main : IO Unit := do
  loop (← IO.getStdin) (← IO.getStdout) { slots := #[], pols := #[] }
