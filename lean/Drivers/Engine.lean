/-
Line-protocol driver for the engine model (M4 + M5).  One JSON object per input
line, one JSON object per output line.

  {"cmd":"reset"}                       fresh engine, built-in policies
  {"cmd":"restart"}                     new engine on the same store
  {"cmd":"policies","policies":{…}}     replace the operation policies in force
  {"cmd":"req","now":N,"id":{"user":s|null,"groups":[..]|null},"req":{…}}
  {"cmd":"dump"}                        canonical dump of the store
  {"cmd":"allowed", …}                  one evaluation of the decision function
-/
import KmipModel.Engine.Wire
open Lean Kmip Kmip.Wire

def step (s : DState) (line : String) : DState × String :=
  match Json.parse line with
  | .error e => (s, s!"bad-json {e}")
  | .ok j =>
    let r : P (DState × Json) := do
      match (← asStr (jget j "cmd")) with
      | "reset" => pure ({ engine := Engine.init, policies := Gen.builtinPolicies }, Json.str "ok")
      | "restart" => pure ({ s with engine := s.engine.restart }, Json.str "ok")
      | "policies" => do
        let ps ← pPolicies (jget j "policies")
        pure ({ s with policies := ps }, Json.str "ok")
      | "dump" => pure (s, Json.mkObj [("objs", Json.arr (s.engine.store.objs.map jObj).toArray),
                                        ("placeholder", jOpt Json.str s.engine.placeholder)])
      | "req" => do
        let now ← asNat (jget j "now")
        let id ← pIdentity (jget j "id")
        let req ← pRequest (jget j "req")
        let (e', res) := processRequest (mkCtx s now) s.engine id req
        let out := match res with
          | .rejected rsn msg => Json.mkObj [("rejected", jNat rsn), ("msg", msg)]
          | .results rs => Json.mkObj [("results", Json.arr (rs.map jResult).toArray)]
        pure ({ s with engine := e' }, out)
      | "allowed" => do
        let ps ← pPolicies (jget j "policies")
        let id ← pIdentity (jget j "id")
        let b := allowedByPolicy ps (← asStr (jget j "policy")) id (← opt asStr (jget j "owner"))
                   (← asNat (jget j "otype")) (← asNat (jget j "op"))
        pure (s, Json.bool b)
      | c => throw s!"cmd {c}"
    match r with
    | .ok (s', out) => (s', out.compress)
    | .error e => (s, s!"bad-op {e}")

partial def loop (h : IO.FS.Stream) (out : IO.FS.Stream) (s : DState) : IO Unit := do
  let line ← h.getLine
  if line.isEmpty then return ()
  let (s', o) := step s line
  out.putStrLn o
  loop h out s'

def main : IO Unit := do
  loop (← IO.getStdin) (← IO.getStdout) { engine := Engine.init, policies := Gen.builtinPolicies }
