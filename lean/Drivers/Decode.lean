/-
Line-protocol driver of M14 (request decoding, `KmipModel/Decode.lean`).  One JSON object per line.

  {"hex": H, "dv": N}        bytes of a request frame, default protocol version of the server (10·major+minor)
      -> {"ok":true,"req":R,"wt":[B…],"wtd":[B…]}
           R   = the decoded `Request` in the JSON form of `Engine/Wire.lean` (`pRequest` reads it back; DeriveKey
                 carries "ddata"/"dlen" in addition, "crypto" is null)
           wt  = `C13.wellTypedB` per item, the backend's answer taken as an admissible one (a KMIP error), as
                 `Drivers/WellTyped.lean` does
           wtd = `C13Decode.decoderWTB` per item: the part of well-typedness the decoder guarantees
                 (`decode_wellTyped`); wt = wtd && no negative Cryptographic Length
      -> {"ok":false,"err":CLASS,"detail":S}     CLASS as `DErr.cls` ("unmodelled" = not transcribed, never a default)
  {"op":"tables"}            the static tables of `KmipModel/DecodeTables.lean` for the pin check
  anything else              bad-op …
-/
import Lean.Data.Json
import KmipModel.Decode
import KmipModel.Engine.Wire
import KmipModel.Props.C13
import KmipModel.Props.C13Decode
open Lean Kmip Kmip.Wire Kmip.Decode

def hexDigit (c : Char) : Option Nat :=
  if '0' ≤ c ∧ c ≤ '9' then some (c.toNat - '0'.toNat)
  else if 'a' ≤ c ∧ c ≤ 'f' then some (c.toNat - 'a'.toNat + 10)
  else if 'A' ≤ c ∧ c ≤ 'F' then some (c.toNat - 'A'.toNat + 10)
  else none

def unhexAux : List Char → Array UInt8 → P (Array UInt8)
  | [], acc => pure acc
  | [_], _ => throw "odd hex length"
  | a :: b :: rest, acc =>
    match hexDigit a, hexDigit b with
    | some x, some y => unhexAux rest (acc.push (UInt8.ofNat (16 * x + y)))
    | _, _ => throw "bad hex digit"

def unhex (s : String) : P (List UInt8) := do pure (← unhexAux s.toList #[]).toList

def jTemplate (t : Template) : Json :=
  Json.mkObj [("tnames", jNat t.templateNames), ("attrs", Json.arr (t.attrs.map jTAttr).toArray)]

def jRegObj (o : RegObj) : Json :=
  Json.mkObj [("otype", jNat o.otype), ("value", o.value), ("alg", jOpt jNat o.alg), ("len", jOpt jNat o.len),
    ("format", jOpt jNat o.format), ("subtype", jOpt jNat o.subtype)]

def jWrap (w : WrapSpec) : Json :=
  Json.mkObj [("method", jNat w.wrappingMethod), ("enckey", jOpt Json.str w.encKeyUid), ("encparams", w.encKeyHasParams),
    ("mackey", w.macKeyInfo), ("attrnames", jNat w.attributeNames), ("encoding", jOpt jNat w.encodingOption)]

def jStrs (l : List String) : Json := Json.arr (l.map Json.str).toArray
def jNats (l : List Nat) : Json := Json.arr (l.map jNat).toArray

def jPayload : Payload → List (String × Json)
  | .create ot t => [("op", "create"), ("otype", jNat ot), ("tmpl", jOpt jTemplate t)]
  | .createKeyPair c pr pu => [("op", "createKeyPair"), ("common", jOpt jTemplate c), ("priv", jOpt jTemplate pr), ("pub", jOpt jTemplate pu)]
  | .register ot t o => [("op", "register"), ("otype", jNat ot), ("tmpl", jOpt jTemplate t), ("obj", jOpt jRegObj o)]
  | .deriveKey ot us t dd dl => [("op", "deriveKey"), ("otype", jNat ot), ("uids", jStrs us), ("tmpl", jOpt jTemplate t),
      ("ddata", dd), ("dlen", jNat dl)]
  | .locate mx off as => [("op", "locate"), ("max", jOpt jInt mx), ("offset", jOpt jInt off), ("attrs", Json.arr (as.map jTAttr).toArray)]
  | .get u f c w => [("op", "get"), ("uid", jOpt Json.str u), ("format", jOpt jNat f), ("compression", c), ("wrap", jOpt jWrap w)]
  | .getAttributes u ns => [("op", "getAttributes"), ("uid", jOpt Json.str u), ("names", jStrs ns)]
  | .getAttributeList u => [("op", "getAttributeList"), ("uid", jOpt Json.str u)]
  | .activate u => [("op", "activate"), ("uid", jOpt Json.str u)]
  | .revoke u c => [("op", "revoke"), ("uid", jOpt Json.str u), ("code", jOpt jNat c)]
  | .destroy u => [("op", "destroy"), ("uid", jOpt Json.str u)]
  | .query fs => [("op", "query"), ("functions", jNats fs)]
  | .discoverVersions vs => [("op", "discoverVersions"), ("versions", jNats vs)]
  | .encrypt u p => [("op", "encrypt"), ("uid", jOpt Json.str u), ("params", p)]
  | .decrypt u p => [("op", "decrypt"), ("uid", jOpt Json.str u), ("params", p)]
  | .sign u p => [("op", "sign"), ("uid", jOpt Json.str u), ("params", p)]
  | .signatureVerify u p => [("op", "signatureVerify"), ("uid", jOpt Json.str u), ("params", p)]
  | .mac u a d => [("op", "mac"), ("uid", jOpt Json.str u), ("alg", jOpt jNat a), ("data", d)]
  | .setAttribute u a => [("op", "setAttribute"), ("uid", jOpt Json.str u), ("attr", jTAttr a)]
  | .modifyAttribute u a cu nw => [("op", "modifyAttribute"), ("uid", jOpt Json.str u), ("attr", jOpt jTAttr a),
      ("current", jOpt jTAttr cu), ("new", jOpt jTAttr nw)]
  | .deleteAttribute u n i cu r => [("op", "deleteAttribute"), ("uid", jOpt Json.str u), ("name", jOpt Json.str n),
      ("index", jOpt jInt i), ("current", jOpt jTAttr cu), ("reference", jOpt Json.str r)]
  | .unsupported op => [("op", "unsupported"), ("code", jNat op)]

def jItem (it : Kmip.Item) : Json :=
  Json.mkObj (jPayload it.payload ++ [("bid", jOpt Json.str it.batchId), ("crypto", Json.null)])

def jRequest (r : Request) : Json :=
  Json.mkObj [("version", jNat r.version), ("ts", jOpt jInt r.timeStamp), ("async", jOpt Json.bool r.async),
    ("bopt", jOpt jNat r.batchOption), ("maxsize", jOpt jNat r.maxResponseSize),
    ("items", Json.arr (r.items.map jItem).toArray)]

def jTables : Json :=
  Json.mkObj [
    ("tags", jNats allTags),
    ("enums", Json.mkObj (enumTable.map (fun p => (p.1, jNats p.2)))),
    ("attributeTypes", Json.arr (attributeTypes.map (fun p => Json.arr #[Json.str p.1, Json.str p.2.1, jNat p.2.2])).toArray),
    ("attributeNameTags", Json.arr (attributeNameTags.map (fun p => Json.arr #[Json.str p.1, jNat p.2])).toArray),
    ("attributeTags", Json.arr (attributeTags.map (fun p => Json.arr #[jNat p.1, jNats p.2])).toArray),
    ("usedTags", Json.mkObj [("requestMessage", jNat T.requestMessage), ("requestHeader", jNat T.requestHeader),
      ("batchItem", jNat T.batchItem), ("requestPayload", jNat T.requestPayload), ("attributeValue", jNat T.attributeValue)])]

def stepDecode (line : String) : String :=
  match Json.parse line with
  | .error e => s!"bad-json {e}"
  | .ok j =>
    let r : P Json := do
      if !(jget j "op").isNull then
        match (← asStr (jget j "op")) with
        | "tables" => pure jTables
        | o => throw s!"op {o}"
      else
        let bs ← unhex (← asStr (jget j "hex"))
        let dv ← asNat (jget j "dv")
        match decodeFrame dv bs with
        | .error e => pure (Json.mkObj [("ok", false), ("err", e.cls), ("detail", e.detail)])
        | .ok req =>
          let c : Ctx := { rules := Gen.attrRules, policies := [], now := 0, supportedVersions := Gen.supportedVersions }
          let e : Engine := ⟨Store.empty, none, req.version, default⟩
          let wt := req.items.map (fun it => Json.bool (C13.wellTypedB c e { it with crypto := .kmipError 0 }))
          let wtd := req.items.map (fun it => Json.bool (C13Decode.decoderWTB c e it))
          pure (Json.mkObj [("ok", true), ("req", jRequest req), ("wt", Json.arr wt.toArray), ("wtd", Json.arr wtd.toArray)])
    match r with
    | .ok out => out.compress
    | .error e => s!"bad-op {e}"

partial def loopDecode (h : IO.FS.Stream) (out : IO.FS.Stream) : IO Unit := do
  let line ← h.getLine
  if line.isEmpty then return ()
  out.putStrLn (stepDecode line)
  loopDecode h out

def main : IO Unit := do
  loopDecode (← IO.getStdin) (← IO.getStdout)
