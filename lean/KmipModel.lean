-- This module serves as the root of the `KmipModel` library.
-- Import modules here that should be built as part of the library.
import KmipModel.Basic
