-- Root of the `KmipModel` library: everything `lake build` (setup.sh) compiles.
import KmipModel.Policy
import KmipModel.TableTypes
import KmipModel.Gen.Tables
import KmipModel.Engine.Batch
import KmipModel.Props.C03
import KmipModel.Props.C03Engine
import KmipModel.Props.C04
import KmipModel.Props.C05
import KmipModel.Props.C06
import KmipModel.Props.C07
import KmipModel.Props.C08
import KmipModel.Props.C11
import KmipModel.Props.C13
import KmipModel.Props.C14
import KmipModel.Props.C15
import KmipModel.Props.C16
