/-
M8 — the client: response framing and result handling.

Transcribed from the code as it is (quirks included):

(a) framing       kmip/services/kmip_protocol.py
      KMIPProtocol._recv_all   l.58-72    → `recvAll`
      KMIPProtocol.read        l.42-56    → `clientRead`, `clientFrames`
(b) result handling, one decision function per code path
      kmip/pie/client.py       every operation method (status check, then either
                               the payload data or KmipOperationFailure)
      kmip/services/kmip_client.py
          _create/_get/_activate/_destroy/_revoke/_register/_locate/_mac
                               l.1162-1201, 1409-1672   "result object" style
          _process_batch_items + processors  l.1270-1407 (create_key_pair,
                               get_attributes, get_attribute_list, query,
                               discover_versions, rekey_key_pair)
          rekey/derive_key/check/encrypt/decrypt/signature_verify/sign
                               l.462-721, 860-1152      "dictionary" style
          send_request_payload l.315-427                generic path
                               (delete/set/modify attribute)
      kmip/pie/exceptions.py   KmipOperationFailure.__init__ l.45-61
                               (formats `reason.name`: a missing reason is an
                               AttributeError inside the constructor)
    State of /repo mirrored: after the fix commits fdfcfa2 (a missing Result Message
    is reported as message None), 6f5b80b (failed Check / DiscoverVersions are
    reported), 5562c9b, 687b057 (request side, not modelled here).

The decoded payload is a parameter `P` (the codec is C01's business); `Data.proj p`
stands for "the documented projection of payload `p`" (e.g. the unique identifier
for Create, the sorted names for GetAttributeList, the converted managed object for
Get).  Which projection that is, field by field, is checked against the real client
by the harness (harness/props/c19.py).

No imports: this file is used by the executable driver.
-/
namespace Kmip.Client

/-! ## (a) framing -/

abbrev Bytes := List UInt8

/-- `KMIPProtocol._recv_all(n)` over a scripted socket.  The socket is the list of
chunks the successive `recv()` calls will deliver; `recv(k)` hands out at most `k`
bytes of the first chunk and keeps the rest of it for the next call; an exhausted
script returns `b''` for ever (closed peer); an empty chunk in the script is one
`recv()` that returned `b''`.
Returns the bytes accumulated when the loop ends (`while bytes_read < n` /
`if not msg: break`) and the remaining script.  The caller compares the length. -/
def recvAll : Nat → List Bytes → Bytes × List Bytes
  | _, [] => ([], [])
  | need, c :: rest =>
    if need = 0 then ([], c :: rest)
    else if c.isEmpty then ([], rest)
    else if c.length ≤ need then
      let r := recvAll (need - c.length) rest
      (c ++ r.1, r.2)
    else (c.take need, c.drop need :: rest)

/-- Errors of `KMIPProtocol.read`. -/
inductive FrameErr where
  /-- `EOFError("No data read from socket")`: nothing at all arrived for the header -/
  | eof
  /-- `RequestLengthMismatch(expected, received)` -/
  | lengthMismatch (expected received : Nat)
  deriving DecidableEq, Repr, Inhabited

instance : DecidableEq (Except FrameErr Bytes) := fun a b =>
  match a, b with
  | .ok x, .ok y => if h : x = y then isTrue (by rw [h]) else isFalse (by intro e; cases e; exact h rfl)
  | .error x, .error y => if h : x = y then isTrue (by rw [h]) else isFalse (by intro e; cases e; exact h rfl)
  | .ok _, .error _ => isFalse (by intro e; cases e)
  | .error _, .ok _ => isFalse (by intro e; cases e)

/-- `unpack('!I', header[4:])` for an 8-byte header. -/
def msgSize (header : Bytes) : Nat :=
  match header.drop 4 with
  | [a, b, c, d] => ((a.toNat * 256 + b.toNat) * 256 + c.toNat) * 256 + d.toNat
  | _ => 0

/-- `KMIPProtocol.read()`: one length-prefixed message, or the error raised. -/
def clientRead (cs : List Bytes) : Except FrameErr Bytes × List Bytes :=
  let h := recvAll 8 cs
  if h.1.length ≠ 8 then
    (.error (if h.1.length = 0 then .eof else .lengthMismatch 8 h.1.length), h.2)
  else
    let p := recvAll (msgSize h.1) h.2
    if p.1.length ≠ msgSize h.1 then (.error (.lengthMismatch (msgSize h.1) p.1.length), p.2)
    else (.ok (h.1 ++ p.1), p.2)

/-- `k` successive `read()` calls on the same socket (one per request the client sends). -/
def clientFrames : Nat → List Bytes → List (Except FrameErr Bytes)
  | 0, _ => []
  | k + 1, cs => let r := clientRead cs; r.1 :: clientFrames k r.2

/-! The same thing said on the byte stream, without chunks: the specification
`clientFrames` is compared with in Props/C19. -/

/-- one message off the front of a byte stream that then ends -/
def streamRead (s : Bytes) : Except FrameErr Bytes × Bytes :=
  if s.length < 8 then (.error (if s.length = 0 then .eof else .lengthMismatch 8 s.length), [])
  else
    let n := msgSize (s.take 8)
    if (s.drop 8).length < n then (.error (.lengthMismatch n (s.drop 8).length), [])
    else (.ok (s.take (8 + n)), s.drop (8 + n))

def streamFrames : Nat → Bytes → List (Except FrameErr Bytes)
  | 0, _ => []
  | k + 1, s => let r := streamRead s; r.1 :: streamFrames k r.2

/-! ## (b) result handling -/

/-- The operations of the client library.  The first 21 are `ProxyKmipClient`
methods; `query`, `discoverVersions`, `rekeyKeyPair` exist on `KMIPProxy` only and
report through a result object instead of return value / exception. -/
inductive Op where
  | create | createKeyPair | register | rekey | deriveKey | locate | check | get
  | getAttributes | getAttributeList | activate | revoke | destroy
  | encrypt | decrypt | signatureVerify | sign | mac
  | deleteAttribute | setAttribute | modifyAttribute
  | query | discoverVersions | rekeyKeyPair
  deriving DecidableEq, Repr, Inhabited

def Op.all : List Op :=
  [.create, .createKeyPair, .register, .rekey, .deriveKey, .locate, .check, .get,
   .getAttributes, .getAttributeList, .activate, .revoke, .destroy,
   .encrypt, .decrypt, .signatureVerify, .sign, .mac,
   .deleteAttribute, .setAttribute, .modifyAttribute,
   .query, .discoverVersions, .rekeyKeyPair]

/-- Which code path handles the response of an operation. -/
inductive Style where
  /-- hand-written `_create`-like method building a `…Result` object; the pie
      method reads `result.result_reason.value` / `result.result_message.value` -/
  | resultObject
  /-- as `resultObject`, but the result is built by `_process_batch_items`, which
      dispatches on the operation echoed in the response -/
  | batchProcessor
  /-- the proxy returns a dict, `.value` reads are wrapped in try/except -/
  | dict
  /-- `send_request_payload` -/
  | generic
  /-- KMIPProxy-only operation: the result object built by `_process_batch_items` is returned -/
  | proxyResult
  deriving DecidableEq, Repr

def Op.style : Op → Style
  | .create | .register | .locate | .get | .activate | .revoke | .destroy | .mac => .resultObject
  | .createKeyPair | .getAttributes | .getAttributeList => .batchProcessor
  | .rekey | .deriveKey | .check | .encrypt | .decrypt | .signatureVerify | .sign => .dict
  | .deleteAttribute | .setAttribute | .modifyAttribute => .generic
  | .query | .discoverVersions | .rekeyKeyPair => .proxyResult

/-- ProxyKmipClient method (reports by return value / exception)? -/
def Op.isPie (op : Op) : Bool := op.style != .proxyResult

/-- Is the operation echoed in the response batch item?  (`other`: a different
operation is echoed — only the generic path looks.) -/
inductive Echo where
  | absent | same
  deriving DecidableEq, Repr, Inhabited

inductive Echo3 where
  | absent | same | other
  deriving DecidableEq, Repr, Inhabited

def Echo.lift : Echo → Echo3
  | .absent => .absent
  | .same => .same

/-- A decoded response batch item (kmip/core/messages/messages.py l.376-429):
Result Status is mandatory, Result Reason / Result Message / payload optional.
`status` is the ResultStatus enumeration value: 0 Success, 1 Operation Failed,
2 Operation Pending, 3 Operation Undone. -/
structure Item (P : Type) where
  echo : Echo
  status : Nat
  reason : Option Nat
  message : Option String
  payload : Option P
  deriving Repr

/-- Exceptions other than the operation-failure error. -/
inductive Exc where
  | attributeError | typeError | invalidMessage
  deriving DecidableEq, Repr, Inhabited

/-- The two operation-failure classes: `kmip.pie.exceptions.KmipOperationFailure`
and (generic path) `kmip.core.exceptions.OperationFailure`. -/
inductive FailCls where
  | pie | core
  deriving DecidableEq, Repr, Inhabited

/-- Result classes of kmip/services/results.py that reach the caller of a KMIPProxy-only operation. -/
inductive ResCls where
  | operationResult | queryResult | discoverVersionsResult | rekeyKeyPairResult
  deriving DecidableEq, Repr, Inhabited

/-- What a method returns. -/
inductive Data (P : Type) where
  /-- `None` by design (activate / revoke / destroy) -/
  | unit
  /-- `None`, or a tuple of `None`s: there was no payload to take data from -/
  | none
  /-- the operation's projection of payload `p` -/
  | proj (p : P)
  deriving DecidableEq, Repr

inductive Outcome (P : Type) where
  | returned (d : Data P)
  /-- operation-failure error carrying (status, reason, message); `message = none` is Python `None` -/
  | failure (cls : FailCls) (status reason : Nat) (message : Option String)
  | raised (e : Exc)
  /-- KMIPProxy result object with these attribute values -/
  | result (cls : ResCls) (status : Nat) (reason : Option Nat) (message : Option String) (payload : Option P)
  deriving DecidableEq, Repr

/-- `reason = result.result_reason.value; message = self._get_result_message(result);
raise KmipOperationFailure(status, reason, message)` — pie/client.py, the same three
lines in every result-object method.  `None.value` is an AttributeError (a missing
reason); `_get_result_message` answers `None` for a missing Result Message. -/
def raiseFromResultObject {P} (it : Item P) : Outcome P :=
  match it.reason with
  | none => .raised .attributeError
  | some r => .failure .pie it.status r it.message

/-- `raise KmipOperationFailure(status, result.get('result_reason'), result.get('result_message'))`
— pie/client.py l.665-669 etc.; the proxy stored `None` for an absent field
(kmip_client.py l.529-536).  The constructor evaluates `reason.name`. -/
def raiseFromDict {P} (it : Item P) : Outcome P :=
  match it.reason with
  | none => .raised .attributeError
  | some r => .failure .pie it.status r it.message

def dataOf {P} : Option P → Data P
  | none => .none
  | some p => .proj p

/-- Success branch of the result-object methods. -/
def successResultObject {P} (op : Op) (it : Item P) : Outcome P :=
  match op with
  | .activate | .revoke | .destroy => .returned .unit           -- `return`
  | .get =>                                                     -- object_factory.convert(None) → TypeError
    match it.payload with
    | none => .raised .typeError
    | some p => .returned (.proj p)
  | .mac =>                                                     -- result.uuid.value on None
    match it.payload with
    | none => .raised .attributeError
    | some p => .returned (.proj p)
  | _ => .returned (dataOf it.payload)                          -- result.uuid / result.uuids (None without payload)

/-- Success branch after `_process_batch_items`: without an echoed operation the
result is a bare `OperationResult` (kmip_client.py l.1282-1283, 1403-1407), which has
none of the data attributes; with it, the payload is read under `if payload:`. -/
def successBatchProcessor {P} (op : Op) (it : Item P) : Outcome P :=
  match it.echo with
  | .absent => .raised .attributeError
  | .same =>
    match op, it.payload with
    | .getAttributeList, none => .raised .typeError             -- sorted(None)
    | _, pl => .returned (dataOf pl)

/-- `send_request_payload` (kmip_client.py l.384-427) for a one-item response. -/
def genericHandle {P} (echo : Echo3) (status : Nat) (reason : Option Nat) (message : Option String)
    (payload : Option P) : Outcome P :=
  if status ≠ 0 then
    -- OperationFailure(status.value, reason.value, message.value if present else None)
    match reason with
    | none => .raised .attributeError
    | some r => .failure .core status r message
  else
    match echo with
    | .absent => .raised .attributeError                         -- batch_item.operation.value
    | .other => .raised .invalidMessage                          -- "does not match the request operation"
    | .same =>
      match payload with
      | none => .raised .invalidMessage                          -- isinstance(None, …ResponsePayload) is False
      | some p => .returned (.proj p)

/-- The result object a KMIPProxy-only operation hands back. -/
def proxyResult {P} (op : Op) (it : Item P) : Outcome P :=
  match it.echo with
  | .absent => .result .operationResult it.status it.reason it.message none
  | .same =>
    match op with
    | .discoverVersions => .result .discoverVersionsResult it.status it.reason it.message it.payload
    | .rekeyKeyPair => .result .rekeyKeyPairResult it.status it.reason it.message it.payload
    | _ => .result .queryResult it.status it.reason it.message it.payload

/-- **The decision**: what calling operation `op` does when the (single) response
batch item decodes to `it`. -/
def handle {P} (op : Op) (it : Item P) : Outcome P :=
  match op.style with
  | .resultObject =>
    if it.status = 0 then successResultObject op it else raiseFromResultObject it
  | .batchProcessor =>
    if it.status = 0 then successBatchProcessor op it else raiseFromResultObject it
  | .dict =>
    if it.status = 0 then .returned (dataOf it.payload) else raiseFromDict it
  | .generic => genericHandle it.echo.lift it.status it.reason it.message it.payload
  | .proxyResult => proxyResult op it

/-! ## the whole call: read one message, decode it, handle it -/

inductive CallOutcome (P : Type) where
  | frameError (e : FrameErr)
  /-- the codec raised while decoding the response -/
  | decodeError
  | handled (o : Outcome P)
  deriving Repr

/-- One client call on a scripted socket; `decode` is the response decoder (a
parameter: `none` = it raised). -/
def call {P} (decode : Bytes → Option (Item P)) (op : Op) (cs : List Bytes) : CallOutcome P :=
  match (clientRead cs).1 with
  | .error e => .frameError e
  | .ok frame =>
    match decode frame with
    | none => .decodeError
    | some it => .handled (handle op it)

/-- "the call handed data (or a result object claiming Success) back to the caller" -/
def CallOutcome.reportsSuccess {P} : CallOutcome P → Bool
  | .handled (.returned _) => true
  | .handled (.result _ st _ _ _) => st == 0
  | _ => false

end Kmip.Client
