/-
M9b — the rest of the cryptography plumbing of kmip/services/server/crypto/engine.py as PLANS:
which primitive is chosen with which parameters, which request field is wired to which argument of
the primitive, which post-processing is applied and which error a refusal is.  Transcribed from the
code as it is (line numbers: /repo at the time of writing):

  derive_key                 l.1068-1245      derivePlan, rawDerive
  _process_derive_key        kmip/services/server/engine.py l.2147-2220   deriveLength, engineParams, deriveFinish
  mac                        l.221-286        macPlan
  sign                       l.1341-1438      signPlan
  verify_signature           l.1440-1572      verifyPlan
  _encrypt_asymmetric        l.543-628        asymEncPlan
  _decrypt_asymmetric        l.914-1002       asymDecPlan
  wrap_key                   l.1247-1311      wrapPlan;   _process_get l.2590-2685   getWrapPlan
  create_symmetric_key       l.124-181        createSymPlan
  create_asymmetric_key_pair l.183-219, _create_rsa_key_pair l.1004-1066   createPairPlan

The primitives (OpenSSL through `cryptography`) are abstract: `Prims2`, whose algebraic laws are
FIELDS (hypotheses of the theorems in Props/C06Plans.lean), never axioms.

A refusal is a `PErr`; `PErr.reason` is the KMIP result reason the client sees.  `Reason.internal`
stands for an exception that is no `KmipError`: the crypto engine lets it escape and the server
answers General Failure.  The model reproduces where the code as it is does that.
-/
import KmipModel.Crypto
namespace Kmip.CryptoPlans
open Kmip.Crypto

/-- a backend hash class, by its name as character codes ("SHA256"), as in `Gen.cryptoEncHashes` -/
abbrev HashName := List Nat

/-- the look-up tables of `CryptographyEngine.__init__` (regenerated from /repo: `Gen.crypto…`) -/
structure Tables2 where
  sym : Crypto.Tables
  /-- `_encryption_hash_algorithms`: hashing algorithm ↦ (member name, backend hash name, digest bits) -/
  encHashes : List (Nat × List Nat × List Nat × Nat)
  /-- `_hash_algorithms`: HMAC cryptographic algorithm ↦ (member name, backend hash name, digest bits) -/
  macHashes : List (Nat × List Nat × List Nat × Nat)
  /-- `_digital_signature_algorithms`: ↦ (member name, backend hash name, cryptographic algorithm) -/
  dsa : List (Nat × List Nat × List Nat × Nat)
  /-- `_asymmetric_padding_methods` -/
  asymPadding : List (Nat × String)
  /-- keys of `_asymmetric_key_algorithms` -/
  asymAlgs : List Nat
  /-- `key_sizes` of the backend class of each symmetric algorithm -/
  keySizes : List (Nat × List Nat)

/-! ### enumeration values named by the code (checked against the regenerated enum tables in Props/C06Plans) -/
def rsa : Nat := 4                -- CryptographicAlgorithm.RSA
def padOAEP : Nat := 2            -- PaddingMethod.OAEP
def padPKCS1v15 : Nat := 8        -- PaddingMethod.PKCS1v15
def padPSS : Nat := 10            -- PaddingMethod.PSS
def mPBKDF2 : Nat := 1            -- DerivationMethod.*
def mHASH : Nat := 2
def mHMAC : Nat := 3
def mENCRYPT : Nat := 4
def mNIST800_108_C : Nat := 5
def wrapENCRYPT : Nat := 1        -- WrappingMethod.ENCRYPT
def nistKeyWrap : Nat := 13       -- BlockCipherMode.NIST_KEY_WRAP
def noEncoding : Nat := 1         -- EncodingOption.NO_ENCODING
def fmtPKCS1 : Nat := 3           -- KeyFormatType.PKCS_1
def fmtPKCS8 : Nat := 4           -- KeyFormatType.PKCS_8
def fmtRAW : Nat := 1             -- KeyFormatType.RAW

/-! ### refusals -/

inductive Reason where
  | invalidField | cryptographicFailure | operationNotSupported | encodingOptionError
  /-- no KmipError: the exception escapes the cryptography engine (General Failure at the server) -/
  | internal
  deriving Repr, DecidableEq

/-- the places where a non-KMIP exception can escape for a reason that the request parameters (and the
tables) alone decide -/
inductive Internal where
  /-- `self._asymmetric_padding_methods.get(PKCS1v15)` is None and is called (not on the real tables) -/
  | paddingClassMissing
  deriving Repr, DecidableEq

inductive PErr where
  -- derive_key
  | sym (e : Crypto.PlanErr)
  | encAlgMissing
  | hashMissing | hashUnsupported | hashBothInputs | hashNoInput | saltMissing | iterationsMissing
  | methodUnsupported
  | derivationDataMissing | keyMaterialMissing | hkdfLengthTooLarge | iterationsNotPositive
  /-- `algorithm(encryption_key)` / key loading refuses the key bytes (here: no key material at all) -/
  | keyInvalid
  -- _process_derive_key
  | lengthMissing | lengthNotMultiple | lengthNotPositive | outputTooShort
  -- mac
  | macUnsupported
  /-- `cmac.CMAC(ARC4(key))`: TypeError inside the try block -/
  | cmacStreamCipher
  -- sign
  | signNeedsAlgorithms | signHashUnsupported | signNotRsa | signPaddingMissing | signPaddingUnsupported
  | signHashMismatch | signAlgMismatch
  -- verify_signature
  | verifyHashMismatch | verifyAlgMismatch | verifyAlgUnsupported | verifyPssNeedsHash
  | verifyPaddingUnsupported
  /-- PKCS1v15 without a usable hash: `hash_algorithm()` raises TypeError inside the try block -/
  | verifyHashMissing
  -- asymmetric encryption
  | asymAlgUnsupported | asymHashUnsupported | asymPaddingUnsupported
  -- key wrapping
  | wrapMethodUnsupported | wrapAlgUnsupported
  | getWrapMethodNotSupported | getWrapParamsMissing | getWrapEncoding
  -- key creation
  | createAlgUnsupported | createLengthInvalid | pairAlgUnsupported
  /-- the primitive itself refused (key / data dependent); `r` is what the engine turns that into -/
  | primitiveFailed (r : Reason)
  | internal (w : Internal)
  deriving Repr, DecidableEq

def PErr.reason : PErr → Reason
  | .keyInvalid | .outputTooShort | .cmacStreamCipher | .verifyHashMissing => .cryptographicFailure
  | .getWrapMethodNotSupported => .operationNotSupported
  | .getWrapEncoding => .encodingOptionError
  | .primitiveFailed r => r
  | .internal _ => .internal
  | _ => .invalidField

instance {ε α : Type} [DecidableEq ε] [DecidableEq α] : DecidableEq (Except ε α) := fun a b =>
  match a, b with
  | .ok x, .ok y => if h : x = y then isTrue (by rw [h]) else isFalse (fun e => h (by cases e; rfl))
  | .error x, .error y => if h : x = y then isTrue (by rw [h]) else isFalse (fun e => h (by cases e; rfl))
  | .ok _, .error _ => isFalse (fun e => by cases e)
  | .error _, .ok _ => isFalse (fun e => by cases e)

/-! ### hashes -/

/-- `self._encryption_hash_algorithms.get(h)`: backend hash name and digest size in bytes -/
def lookupHash (T : Tables2) (h : Nat) : Option (HashName × Nat) :=
  (T.encHashes.lookup h).map (fun r => (r.2.1, r.2.2 / 8))

/-! ### asymmetric encryption (`_encrypt_asymmetric`, `_decrypt_asymmetric`) -/

/-- OAEP with MGF1 over the same hash and no label, or PKCS#1 v1.5 -/
inductive AsymScheme where
  | oaep (h : HashName)
  | pkcs1v15
  deriving Repr, DecidableEq

structure AsymParams where
  alg : Option Nat
  padding : Option Nat
  hash : Option Nat
  deriving Repr, DecidableEq

/-- l.578-628 -/
def asymEncPlan (T : Tables2) (p : AsymParams) : Except PErr AsymScheme :=
  if p.alg == some rsa then
    if p.padding == some padOAEP then
      match p.hash.bind (lookupHash T) with
      | none => .error .asymHashUnsupported
      | some (hn, _) => .ok (.oaep hn)
    else if p.padding == some padPKCS1v15 then .ok .pkcs1v15
    else .error .asymPaddingUnsupported
  else .error .asymAlgUnsupported

/-- l.950-1002 (a separate transcription: the two functions are separate code) -/
def asymDecPlan (T : Tables2) (p : AsymParams) : Except PErr AsymScheme :=
  if p.alg == some rsa then
    if p.padding == some padOAEP then
      match p.hash with
      | none => .error .asymHashUnsupported
      | some h =>
        match T.encHashes.lookup h with
        | none => .error .asymHashUnsupported
        | some r => .ok (.oaep r.2.1)
    else if p.padding == some padPKCS1v15 then .ok .pkcs1v15
    else .error .asymPaddingUnsupported
  else .error .asymAlgUnsupported

/-- what the engine turns a failure of loading the key / of the RSA operation into (both in try blocks) -/
def asymKeyFailure : Reason := .cryptographicFailure
def asymOpFailure : Reason := .cryptographicFailure

/-! ### signatures (`sign`, `verify_signature`) -/

inductive SigPad where
  | pss        -- PSS(mgf = MGF1(hash), salt_length = MAX_LENGTH)
  | pkcs1v15
  deriving Repr, DecidableEq

structure SigPlan where
  pad : SigPad
  /-- the message digest; for PSS also the MGF1 hash -/
  hash : HashName
  deriving Repr, DecidableEq

structure SigParams where
  dsa : Option Nat
  alg : Option Nat
  hash : Option Nat
  padding : Option Nat
  deriving Repr, DecidableEq

/-- `self._digital_signature_algorithms.get(d)`: (backend hash name, cryptographic algorithm) -/
def lookupDsa (T : Tables2) (d : Nat) : Option (HashName × Nat) :=
  (T.dsa.lookup d).map (fun r => (r.2.1, r.2.2))

/-- Enumeration members are truthy, so `if x:` is `x is not None`.  As in `verify_signature`, the
request's algorithms are COMPARED with those of a known digital signature algorithm; an unknown one leaves
`(None, None)` (and is therefore refused). -/
def signSelect (T : Tables2) (p : SigParams) : Except PErr (Option HashName × Option Nat) :=
  match p.dsa with
  | some d =>
    match lookupDsa T d with
    | some (dh, da) =>
      let given : Option HashName := (p.hash.bind (lookupHash T)).map (·.1)
      if given.isSome && given != some dh then .error .signHashMismatch
      else if p.alg.isSome && p.alg != some da then .error .signAlgMismatch
      else .ok (some dh, some da)
    | none => .ok (none, none)
  | none =>
    if p.alg.isSome && p.hash.isSome then .ok ((p.hash.bind (lookupHash T)).map (·.1), p.alg)
    else .error .signNeedsAlgorithms

/-- l.1393-1438 -/
def signFinish (T : Tables2) (h : Option HashName) (a : Option Nat) (padding : Option Nat) : Except PErr SigPlan :=
  match h with
  | none => .error .signHashUnsupported
  | some hn =>
    if a == some rsa then
      -- the private key is loaded here (failure: Invalid Field, `signKeyFailure`)
      match padding with
      | none => .error .signPaddingMissing
      | some pad =>
        if pad == padPSS then .ok ⟨.pss, hn⟩
        else if pad == padPKCS1v15 then
          -- `padding_method()` with `padding_method = self._asymmetric_padding_methods.get(padding, None)`
          match T.asymPadding.lookup pad with
          | some _ => .ok ⟨.pkcs1v15, hn⟩
          | none => .error (.internal .paddingClassMissing)
        else .error .signPaddingUnsupported
    else .error .signNotRsa

/-- `sign`, l.1377-1438 -/
def signPlan (T : Tables2) (p : SigParams) : Except PErr SigPlan :=
  match signSelect T p with
  | .error e => .error e
  | .ok (h, a) => signFinish T h a p.padding

def signKeyFailure : Reason := .invalidField
/-- `key.sign(…)` is in a try block -/
def signOpFailure : Reason := .cryptographicFailure

/-- l.1486-1516.  The request's algorithms are COMPARED with those of a known digital signature
algorithm; an unknown one is ignored (the request's own algorithms are used). -/
def verifySelect (T : Tables2) (p : SigParams) : Except PErr (Option HashName × Option Nat) :=
  let hashAlg : Option HashName := (p.hash.bind (lookupHash T)).map (·.1)
  match p.dsa.bind (lookupDsa T) with
  | some (dh, da) =>
    if hashAlg.isSome && hashAlg != some dh then .error .verifyHashMismatch
    else if p.alg.isSome && p.alg != some da then .error .verifyAlgMismatch
    else .ok (some dh, some da)
  | none => .ok (hashAlg, p.alg)

/-- l.1518-1572 -/
def verifyFinish (h : Option HashName) (a : Option Nat) (padding : Option Nat) : Except PErr SigPlan :=
  if a == some rsa then
    if padding == some padPSS then
      match h with
      | some hn => .ok ⟨.pss, hn⟩
      | none => .error .verifyPssNeedsHash
    else if padding == some padPKCS1v15 then
      -- the public key is loaded, then `public_key.verify(…, hash_algorithm())` inside a try block
      match h with
      | some hn => .ok ⟨.pkcs1v15, hn⟩
      | none => .error .verifyHashMissing
    else .error .verifyPaddingUnsupported
  else .error .verifyAlgUnsupported

/-- `verify_signature`, l.1486-1572 -/
def verifyPlan (T : Tables2) (p : SigParams) : Except PErr SigPlan :=
  match verifySelect T p with
  | .error e => .error e
  | .ok (h, a) => verifyFinish h a p.padding

def verifyKeyFailure : Reason := .cryptographicFailure
/-- InvalidSignature is the verdict False; every other exception of `verify` is mapped -/
def verifyOpFailure : Reason := .cryptographicFailure

/-! ### MAC (`mac`) -/

inductive MacPlan where
  /-- `hmac.HMAC(key, hash())`, `update(data)`, `finalize()` -/
  | hmac (h : HashName) (digestBytes : Nat)
  /-- `cmac.CMAC(cipher(key))`, `update(data)`, `finalize()` -/
  | cmac (alg : Nat) (cls : String) (blockBytes : Nat)
  deriving Repr, DecidableEq

/-- l.249-286: the HMAC table first, then the symmetric cipher table -/
def macPlan (T : Tables2) (alg : Option Nat) : Except PErr MacPlan :=
  match alg with
  | none => .error .macUnsupported
  | some a =>
    match T.macHashes.lookup a with
    | some r => .ok (.hmac r.2.1 (r.2.2 / 8))
    | none =>
      match T.sym.symAlgs.lookup a with
      | some (cls, blockBits) =>
        if blockBits == 0 then .error .cmacStreamCipher else .ok (.cmac a cls (blockBits / 8))
      | none => .error .macUnsupported

def macOpFailure : Reason := .cryptographicFailure

def MacPlan.outLen : MacPlan → Nat
  | .hmac _ n => n
  | .cmac _ _ n => n

/-! ### key wrapping (`wrap_key`, and what `_process_get` checks before it) -/

inductive WrapPlan where
  /-- `keywrap.aes_key_wrap(encryption_key, key_material)`: RFC 3394 -/
  | aesKeyWrap
  deriving Repr, DecidableEq

/-- l.1291-1311 -/
def wrapPlan (method : Option Nat) (alg : Option Nat) : Except PErr WrapPlan :=
  if method == some wrapENCRYPT then
    if alg == some nistKeyWrap then .ok .aesKeyWrap else .error .wrapAlgUnsupported
  else .error .wrapMethodUnsupported

def wrapOpFailure : Reason := .cryptographicFailure

/-- `_process_get` l.2590-2685, the part that reads the wrapping parameters: the wrapping method, the
cryptographic parameters of the encryption key information (present?, their block cipher mode) and the
encoding option; then `wrap_key(wrapping_method, block_cipher_mode)` -/
def getWrapPlan (method : Option Nat) (params : Option (Option Nat)) (encoding : Option Nat) :
    Except PErr WrapPlan :=
  if method != some wrapENCRYPT then .error .getWrapMethodNotSupported
  else
    match params with
    | none => .error .getWrapParamsMissing
    | some mode =>
      if encoding != some noEncoding then .error .getWrapEncoding
      else wrapPlan method mode

/-! ### key creation -/

structure CreateSymPlan where
  alg : Nat
  cls : String
  /-- `os.urandom(length // 8)` -/
  randomBytes : Nat
  format : Nat
  deriving Repr, DecidableEq

/-- l.151-181 -/
def createSymPlan (T : Tables2) (alg : Option Nat) (length : Int) : Except PErr CreateSymPlan :=
  match alg with
  | none => .error .createAlgUnsupported
  | some a =>
    match T.sym.symAlgs.lookup a with
    | none => .error .createAlgUnsupported
    | some (cls, _) =>
      if ((T.keySizes.lookup a).getD []).any (fun k => (k : Int) == length) then
        .ok ⟨a, cls, (length / 8).toNat, fmtRAW⟩
      else .error .createLengthInvalid

/-- `cryptography_algorithm(key_bytes)` in a try block -/
def createSymFailure : Reason := .cryptographicFailure

structure CreatePairPlan where
  /-- `rsa.generate_private_key(public_exponent, key_size)` -/
  publicExponent : Nat
  keySize : Int
  publicFormat : Nat
  privateFormat : Nat
  deriving Repr, DecidableEq

/-- l.212-219 and l.1004-1066: the only entry of the table is RSA ↦ `_create_rsa_key_pair` -/
def createPairPlan (T : Tables2) (alg : Option Nat) (length : Int) : Except PErr CreatePairPlan :=
  match alg with
  | none => .error .pairAlgUnsupported
  | some a =>
    if T.asymAlgs.contains a then .ok ⟨65537, length, fmtPKCS1, fmtPKCS8⟩
    else .error .pairAlgUnsupported

def createPairFailure : Reason := .cryptographicFailure

/-! ### key derivation (`derive_key`) -/

/-- which field of the request an argument of the primitive is taken from -/
inductive Src where
  | keyMaterial | derivationData | salt | iv | absent
  deriving Repr, DecidableEq

inductive DKind where
  | hash | hkdf | pbkdf2 | kbkdf | symEncrypt | rsaEncrypt
  deriving Repr, DecidableEq

/-- parameters of `derive_key`; byte strings by presence and length -/
structure DeriveParams where
  method : Nat
  /-- `derivation_length`, bytes -/
  length : Nat
  ddata : Option Nat
  keyMaterial : Option Nat
  hash : Option Nat
  salt : Option Nat
  iterations : Option Int
  encAlg : Option Nat
  mode : Option Nat
  padding : Option Nat
  iv : Option Nat
  deriving Repr, DecidableEq

structure DerivePlan where
  kind : DKind
  hash : Option HashName
  digestBytes : Nat
  /-- the output length the KDF object is constructed with -/
  askLength : Option Nat
  /-- key / password / input keying material of the primitive -/
  key : Src
  /-- hashed data / HKDF info / KBKDF fixed input / plain text -/
  data : Src
  salt : Src
  iterations : Option Nat
  sym : Option Crypto.Plan
  asym : Option AsymScheme
  deriving Repr, DecidableEq

def presence (o : Option Nat) (s : Src) : Src := if o.isSome then s else .absent

/-- `derive_key` -/
def derivePlan (T : Tables2) (p : DeriveParams) : Except PErr DerivePlan :=
  if p.method == mENCRYPT then
    if p.ddata.isNone then .error .derivationDataMissing
    else
    -- `self.encrypt(encryption_algorithm, key_material, derivation_data, cipher_mode, padding_method, iv_nonce)`
    match p.encAlg with
    | none => .error .encAlgMissing
    | some a =>
      if a == rsa then
        -- `_encrypt_asymmetric` without a hashing algorithm
        match asymEncPlan T ⟨some a, p.padding, none⟩ with
        | .error e => .error e
        | .ok s =>
          if p.keyMaterial.isNone then .error .keyInvalid
          else .ok ⟨.rsaEncrypt, none, 0, none, .keyMaterial, .derivationData, .absent, none, none, some s⟩
      else
        match T.sym.symAlgs.lookup a with
        | none => .error (.sym .unsupportedAlgorithm)
        | some _ =>
          -- `algorithm(encryption_key)` comes before every other check of `_encrypt_symmetric`
          if p.keyMaterial.isNone then .error .keyInvalid
          else
            match encPlan T.sym ⟨a, p.mode, p.padding, p.iv, false, none⟩ with
            | .error e => .error (.sym e)
            | .ok pl => .ok ⟨.symEncrypt, none, 0, none, .keyMaterial, .derivationData, .absent, none, some pl, none⟩
  else
    match p.hash with
    | none => .error .hashMissing
    | some h =>
      match lookupHash T h with
      | none => .error .hashUnsupported
      | some (hn, dg) =>
        if p.method == mHMAC then
          -- hkdf.HKDF(algorithm, length, salt, info = derivation_data).derive(key_material)
          if p.keyMaterial.isNone then .error .keyMaterialMissing
          else if p.length > 255 * dg then .error .hkdfLengthTooLarge
          else .ok ⟨.hkdf, some hn, dg, some p.length, .keyMaterial, presence p.ddata .derivationData,
                    presence p.salt .salt, none, none, none⟩
        else if p.method == mHASH then
          match p.ddata, p.keyMaterial with
          | some _, some _ => .error .hashBothInputs
          | some _, none => .ok ⟨.hash, some hn, dg, none, .absent, .derivationData, .absent, none, none, none⟩
          | none, some _ => .ok ⟨.hash, some hn, dg, none, .absent, .keyMaterial, .absent, none, none, none⟩
          | none, none => .error .hashNoInput
        else if p.method == mPBKDF2 then
          match p.salt with
          | none => .error .saltMissing
          | some _ =>
            match p.iterations with
            | none => .error .iterationsMissing
            | some i =>
              -- pbkdf2.PBKDF2HMAC(algorithm, length, salt, iterations).derive(key_material)
              if i < 1 then .error .iterationsNotPositive
              else if p.keyMaterial.isNone then .error .keyMaterialMissing
              else .ok ⟨.pbkdf2, some hn, dg, some p.length, .keyMaterial, .absent, .salt, some i.toNat, none, none⟩
        else if p.method == mNIST800_108_C then
          -- kbkdf.KBKDFHMAC(algorithm, CounterMode, length, rlen=4, llen=None, BeforeFixed, label=None,
          --                 context=None, fixed=derivation_data).derive(key_material)
          if p.ddata.isNone then .error .derivationDataMissing
          else if p.keyMaterial.isNone then .error .keyMaterialMissing
          else .ok ⟨.kbkdf, some hn, dg, some p.length, .keyMaterial, .derivationData, .absent, none, none, none⟩
        else .error .methodUnsupported

/-- length in bytes of what the primitive returns, given the lengths of the inputs (`rsaBytes`: size of
the RSA modulus) — by the length laws of `Prims2` -/
def DerivePlan.rawLen (pl : DerivePlan) (dataLen rsaBytes : Nat) : Nat :=
  match pl.kind with
  | .hash => pl.digestBytes
  | .hkdf | .pbkdf2 | .kbkdf => pl.askLength.getD 0
  | .symEncrypt =>
    match pl.sym with
    | some s => if s.padding.isSome then (dataLen / (s.blockBits / 8) + 1) * (s.blockBits / 8) else dataLen
    | none => 0
  | .rsaEncrypt => rsaBytes

/-! ### `_process_derive_key`: the requested length, and what is done with the output -/

/-- l.2153-2172: the Cryptographic Length of the template attribute, in bits (Python `%`, `//`: floor) -/
def deriveLength (bits : Option Int) : Except PErr Nat :=
  match bits with
  | none => .error .lengthMissing
  | some b =>
    if b % 8 == 0 then
      (if b / 8 ≤ 0 then .error .lengthNotPositive else .ok (b / 8).toNat)
    else .error .lengthNotMultiple

/-- l.2202-2208 on lengths: `derived_data[:derivation_length]` has `min` bytes -/
def deriveOutput (req : Nat) (outLen : Nat) : Except PErr Nat :=
  if req > outLen then .error .outputTooShort
  else if outLen > req then .ok (min req outLen)
  else .ok outLen

/-- l.2202-2208 on bytes -/
def deriveFinish (req : Nat) (out : Bytes) : Except PErr Bytes :=
  if req > out.length then .error .outputTooShort
  else if out.length > req then .ok (out.take req)
  else .ok out

/-- l.2213: the Cryptographic Length attribute of a derived SymmetricKey -/
def derivedKeyLengthAttr (n : Nat) : Nat := n * 8

/-- a DeriveKey request as `_process_derive_key` sees it -/
structure DeriveRequest where
  bits : Option Int
  method : Nat
  /-- value of the keying object -/
  key : Bytes
  ddata : Option Bytes
  salt : Option Bytes
  iv : Option Bytes
  iterations : Option Int
  hash : Option Nat
  encAlg : Option Nat
  mode : Option Nat
  padding : Option Nat

/-- l.2147-2149, l.2188-2200: the key material is always there, an absent IV is passed as `b''` -/
def engineParams (r : DeriveRequest) (n : Nat) : DeriveParams :=
  { method := r.method, length := n, ddata := r.ddata.map (·.length), keyMaterial := some r.key.length,
    hash := r.hash, salt := r.salt.map (·.length), iterations := r.iterations, encAlg := r.encAlg,
    mode := r.mode, padding := r.padding, iv := some ((r.iv.getD []).length) }

/-! ### abstract primitives -/

structure Prims2 where
  sym : Crypto.Prims
  hash : HashName → Bytes → Bytes
  hmac : HashName → Bytes → Bytes → Bytes                                   -- hash key data
  cmac : Nat → Bytes → Bytes → Bytes                                        -- algorithm key data
  hkdf : HashName → Nat → Option Bytes → Option Bytes → Bytes → Bytes       -- hash length salt info ikm
  pbkdf2 : HashName → Nat → Bytes → Nat → Bytes → Bytes                     -- hash length salt iterations password
  kbkdf : HashName → Nat → Bytes → Bytes → Bytes                            -- hash length fixed key
  /-- the public key of a private key -/
  pubOf : Bytes → Bytes
  /-- plan, private key, randomness, message; `none`: the primitive refuses (digest too large for the key …) -/
  rsaSign : SigPlan → Bytes → Bytes → Bytes → Option Bytes
  /-- plan, public key, message, signature -/
  rsaVerify : SigPlan → Bytes → Bytes → Bytes → Bool
  /-- scheme, public key, randomness, message; `none`: the primitive refuses (message too long …) -/
  rsaEnc : AsymScheme → Bytes → Bytes → Bytes → Option Bytes
  /-- scheme, private key, cipher text -/
  rsaDec : AsymScheme → Bytes → Bytes → Option Bytes
  aesWrap : Bytes → Bytes → Option Bytes                                    -- key-encryption key, key material
  -- the laws (hypotheses of the theorems)
  verify_sign : ∀ s k r m sg, rsaSign s k r m = some sg → rsaVerify s (pubOf k) m sg = true
  rsa_dec_enc : ∀ s k r m c, rsaEnc s (pubOf k) r m = some c → rsaDec s k c = some m
  hkdf_len : ∀ h n s i k, (hkdf h n s i k).length = n
  pbkdf2_len : ∀ h n s i k, (pbkdf2 h n s i k).length = n
  kbkdf_len : ∀ h n f k, (kbkdf h n f k).length = n

/-! ### the composed operations -/

def signOp (P : Prims2) (T : Tables2) (p : SigParams) (key rnd msg : Bytes) : Except PErr Bytes :=
  match signPlan T p with
  | .error e => .error e
  | .ok pl =>
    match P.rsaSign pl key rnd msg with
    | some sg => .ok sg
    | none => .error (.primitiveFailed signOpFailure)

def verifyOp (P : Prims2) (T : Tables2) (p : SigParams) (pub msg sg : Bytes) : Except PErr Bool :=
  match verifyPlan T p with
  | .error e => .error e
  | .ok pl => .ok (P.rsaVerify pl pub msg sg)

def asymEncryptOp (P : Prims2) (T : Tables2) (p : AsymParams) (pub rnd msg : Bytes) : Except PErr Bytes :=
  match asymEncPlan T p with
  | .error e => .error e
  | .ok s =>
    match P.rsaEnc s pub rnd msg with
    | some c => .ok c
    | none => .error (.primitiveFailed asymOpFailure)

def asymDecryptOp (P : Prims2) (T : Tables2) (p : AsymParams) (priv ct : Bytes) : Except PErr Bytes :=
  match asymDecPlan T p with
  | .error e => .error e
  | .ok s =>
    match P.rsaDec s priv ct with
    | some m => .ok m
    | none => .error (.primitiveFailed asymOpFailure)

def macOp (P : Prims2) (T : Tables2) (alg : Option Nat) (key data : Bytes) : Except PErr Bytes :=
  match macPlan T alg with
  | .error e => .error e
  | .ok (.hmac h _) => .ok (P.hmac h key data)
  | .ok (.cmac a _ _) => .ok (P.cmac a key data)

/-- the bytes of a request field -/
def DeriveRequest.pick (r : DeriveRequest) : Src → Option Bytes
  | .keyMaterial => some r.key
  | .derivationData => r.ddata
  | .salt => r.salt
  | .iv => r.iv
  | .absent => none

/-- what `derive_key` returns for an accepted plan: the primitive applied to the wired request fields
(`rnd`: the randomness of RSA encryption) -/
def rawDerive (P : Prims2) (pl : DerivePlan) (r : DeriveRequest) (rnd : Bytes) : Except PErr Bytes :=
  let hn := pl.hash.getD []
  let key := (r.pick pl.key).getD []
  match pl.kind with
  | .hash => .ok (P.hash hn ((r.pick pl.data).getD []))
  | .hkdf => .ok (P.hkdf hn (pl.askLength.getD 0) (r.pick pl.salt) (r.pick pl.data) key)
  | .pbkdf2 => .ok (P.pbkdf2 hn (pl.askLength.getD 0) ((r.pick pl.salt).getD []) (pl.iterations.getD 0) key)
  | .kbkdf => .ok (P.kbkdf hn (pl.askLength.getD 0) ((r.pick pl.data).getD []) key)
  | .symEncrypt =>
    match pl.sym with
    | some s => .ok (encryptWith P.sym s key (r.iv.getD []) ((r.pick pl.data).getD []))
    | none => .error (.primitiveFailed .cryptographicFailure)
  | .rsaEncrypt =>
    match pl.asym with
    | some s =>
      (match P.rsaEnc s key rnd ((r.pick pl.data).getD []) with
       | some c => .ok c
       | none => .error (.primitiveFailed asymOpFailure))
    | none => .error (.primitiveFailed asymOpFailure)

/-- `_process_derive_key` from the template's length to the value of the new object -/
def processDeriveKey (P : Prims2) (T : Tables2) (r : DeriveRequest) (rnd : Bytes) : Except PErr Bytes :=
  match deriveLength r.bits with
  | .error e => .error e
  | .ok n =>
    match derivePlan T (engineParams r n) with
    | .error e => .error e
    | .ok pl =>
      match rawDerive P pl r rnd with
      | .error e => .error e
      | .ok out => deriveFinish n out

end Kmip.CryptoPlans
