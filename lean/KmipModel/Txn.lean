/-
M10 — transactions and crash semantics.

One state-changing operation = the event trace  write₁ … writeₙ, COMMIT, respond
(SQLAlchemy flushes the pending rows as INSERT/UPDATE/DELETE statements, commits, and
only then the handler builds its response).  Trusted: SQLite's rollback journal makes
a transaction atomic and, once COMMIT returned, durable.  Under that hypothesis the
database a restarted server sees after a crash at event index `k` is `recover`.
-/
import KmipModel.Engine.Batch
namespace Kmip.Txn
open Kmip

inductive Event where
  | write (row : Nat)      -- one SQL statement touching one row (the row's identity is irrelevant here)
  | commit
  | respond                -- the result is handed back (acknowledged to the client)
  deriving DecidableEq, Repr

/-- the trace shape of one operation: all writes, then exactly one COMMIT, then the response -/
def planOf (nwrites : Nat) : List Event :=
  (List.range nwrites).map Event.write ++ [.commit, .respond]

/-- has the COMMIT been executed among the first `k` events? -/
def committed (t : List Event) (k : Nat) : Bool := (t.take k).contains .commit

/-- has the response been produced among the first `k` events? -/
def acknowledged (t : List Event) (k : Nat) : Bool := (t.take k).contains .respond

/-- the store a fresh engine sees after the process died having executed `k` events of an
operation whose complete effect is `eff` -/
def recover (e : Engine) (eff : Effect) (t : List Event) (k : Nat) : Store :=
  if committed t k then (applyEffect e eff).store else e.store

/-- a trace in which one COMMIT follows all writes and precedes the response -/
def WellFormed (t : List Event) : Prop :=
  ∃ ws, t = ws ++ [.commit, .respond] ∧ ∀ ev ∈ ws, ∃ r, ev = .write r

end Kmip.Txn
