/-
M5 — request processing: header checks, version decorator, dispatch, batch loop.
Transcribed from engine.py `process_request` (l.189-316), `_process_batch`
(l.355-434), `_process_operation` (l.1280-1329), `_kmip_version_supported`.
-/
import KmipModel.Engine.Ops
namespace Kmip

/-- minimum protocol version of each dispatched operation (the decorator argument) -/
def minVersion (op : Nat) : Option Nat :=
  if op == Op.setAttribute then some 20
  else if op == Op.encrypt || op == Op.decrypt || op == Op.sign || op == Op.signatureVerify || op == Op.mac then some 12
  else if op == Op.discoverVersions then some 11
  else if op == Op.create || op == Op.createKeyPair || op == Op.register || op == Op.deriveKey || op == Op.locate
       || op == Op.get || op == Op.getAttributes || op == Op.getAttributeList || op == Op.activate
       || op == Op.revoke || op == Op.destroy || op == Op.query || op == Op.modifyAttribute
       || op == Op.deleteAttribute then some 10
  else none

/-- `_process_operation(operation, payload)` including the version decorator -/
def processOperation (c : Ctx) (e : Engine) (it : Item) : R (Effect × Data) :=
  match minVersion it.payload.op with
  | none => kerr Rsn.operationNotSupported "operation is not supported by the server."
  | some mv =>
    if e.version < mv then kerr Rsn.operationNotSupported "operation is not supported by this KMIP version." else
    match it.payload with
    | .create ot t => opCreate c e ot t it.crypto
    | .createKeyPair cm pr pu => opCreateKeyPair c e cm pr pu it.crypto
    | .register ot t o => opRegister c e ot t o
    | .deriveKey ot us t _ _ => opDeriveKey c e ot us t it.crypto
    | .locate m o as => opLocate c e m o as
    | .get u f cp w => opGet c e u f cp w it.crypto
    | .getAttributes u ns => opGetAttributes c e u ns
    | .getAttributeList u => opGetAttributeList c e u
    | .activate u => opActivate c e u
    | .revoke u code => opRevoke c e u code
    | .destroy u => opDestroy c e u
    | .query fs => opQuery e fs
    | .discoverVersions vs => opDiscoverVersions c e vs
    | .encrypt u p => opEncrypt c e u p it.crypto
    | .decrypt u p => opDecrypt c e u p it.crypto
    | .sign u p => opSign c e u p it.crypto
    | .signatureVerify u p => opSignatureVerify c e u p it.crypto
    | .mac u a d => opMac c e u a d it.crypto
    | .setAttribute u a => opSetAttribute c e u a
    | .modifyAttribute u a cu nw => opModifyAttribute c e u a cu nw
    | .deleteAttribute u n i cu r => opDeleteAttribute c e u n i cu r
    | .unsupported _ => kerr Rsn.operationNotSupported "operation is not supported by the server."

/-- Outcome of a whole request: either a request-level error (the session turns it
into a one-item error response) or the list of item results. -/
inductive ReqResult where
  | rejected (reason : Nat) (msg : String)
  | results (rs : List ItemResult)
  deriving Repr, Inhabited

def batchIdMissing (it : Item) : Bool :=
  match it.batchId with
  | none => true
  | some s => s.isEmpty

/-- the `for batch_item in request_batch` loop -/
def processBatch (c : Ctx) (stop : Bool) : Engine → List Item → List ItemResult → Engine × List ItemResult
  | e, [], acc => (e, acc.reverse)
  | e, it :: rest, acc =>
    match processOperation c e it with
    | .ok (eff, d) => processBatch c stop (applyEffect e eff) rest (⟨it.payload.op, it.batchId, .ok d⟩ :: acc)
    | .error err =>
      let acc' := ⟨it.payload.op, it.batchId, .error err⟩ :: acc
      if stop then (e, acc'.reverse) else processBatch c stop e rest acc'

/-- `batch_error_cont_option`: only CONTINUE (1) keeps going after a failed item -/
def Request.stop (r : Request) : Bool :=
  match r.batchOption with
  | some 1 => false
  | _ => true

/-- `process_request(request, credential)` -/
def processRequest (c : Ctx) (e : Engine) (id : Identity) (r : Request) : Engine × ReqResult :=
  -- self._client_identity = [None, None]; self._id_placeholder = None
  let e := { e with identity := ⟨none, none⟩, placeholder := none }
  if !c.supportedVersions.contains r.version then
    (e, .rejected Rsn.invalidMessage "KMIP version is not supported by the server.") else
  let e := { e with version := r.version }
  let tsBad : Option String := match r.timeStamp with
    | some t =>
      if (c.now : Int) ≥ t && (c.now : Int) - t < 60 then none
      else if (c.now : Int) < t then some "Future request rejected by server."
      else some "Stale request rejected by server."
    | none => none
  match tsBad with
  | some m => (e, .rejected Rsn.invalidMessage m)
  | none =>
  if r.async == some true then (e, .rejected Rsn.invalidMessage "Asynchronous operations are not supported.") else
  let e := { e with identity := id }
  if r.batchOption == some 3 then (e, .rejected Rsn.invalidMessage "Undo option for batch handling is not supported.") else
  -- every item of a multi-item batch must carry an ID (checked before the loop)
  if r.items.length > 1 && r.items.any batchIdMissing then
    (e, .rejected Rsn.invalidMessage "Batch item ID is undefined.") else
  let (e', rs) := processBatch c r.stop e r.items []
  (e', .results rs)

end Kmip
