/-
JSON line protocol of the engine model (M4 + M5): parsers for request lines and printers
for results / store dumps, shared by the drivers (no proofs here; not part of any theorem).
-/
import Lean.Data.Json
import KmipModel.Engine.Batch
import KmipModel.Gen.Tables
open Lean
namespace Kmip.Wire
open Kmip

abbrev P := Except String

def jget (j : Json) (k : String) : Json := (j.getObjVal? k).toOption.getD Json.null

def asNat (j : Json) : P Nat := match j.getNat? with | .ok n => pure n | .error e => throw s!"nat: {e} in {j.compress}"
def asInt (j : Json) : P Int := match j.getInt? with | .ok n => pure n | .error e => throw s!"int: {e} in {j.compress}"
def asStr (j : Json) : P String := match j.getStr? with | .ok n => pure n | .error e => throw s!"str: {e} in {j.compress}"
def asBool (j : Json) : P Bool := match j.getBool? with | .ok n => pure n | .error e => throw s!"bool: {e} in {j.compress}"
def asArr (j : Json) : P (Array Json) := match j.getArr? with | .ok n => pure n | .error e => throw s!"arr: {e} in {j.compress}"
def opt {α} (f : Json → P α) (j : Json) : P (Option α) := if j.isNull then pure none else some <$> f j
def listOf {α} (f : Json → P α) (j : Json) : P (List α) := do
  if j.isNull then pure [] else (← asArr j).toList.mapM f

def pAVal (j : Json) : P AVal := do
  match (← asStr (jget j "k")) with
  | "enum" => .enum <$> asNat (jget j "v")
  | "int" => .int <$> asInt (jget j "v")
  | "text" => .text <$> asStr (jget j "v")
  | "bool" => .bool <$> asBool (jget j "v")
  | "name" => .name <$> asStr (jget j "v") <*> asNat (jget j "t")
  | "appinfo" => .appInfo <$> asStr (jget j "ns") <*> asStr (jget j "d")
  | "date" => .date <$> asInt (jget j "v")
  | "other" => pure .other
  | k => throw s!"aval kind {k}"

def pTAttr (j : Json) : P TAttr := do
  pure ⟨← asStr (jget j "name"), ← opt asInt (jget j "index"), ← pAVal (jget j "value")⟩

def pTemplate (j : Json) : P Template := do
  pure ⟨← asNat (jget j "tnames"), ← listOf pTAttr (jget j "attrs")⟩

def pRegObj (j : Json) : P RegObj := do
  pure ⟨← asNat (jget j "otype"), ← asStr (jget j "value"), ← opt asNat (jget j "alg"), ← opt asNat (jget j "len"),
        ← opt asNat (jget j "format"), ← opt asNat (jget j "subtype")⟩

def pCrypto (j : Json) : P Crypto := do
  if j.isNull then pure .internal else
  match (← asStr (jget j "k")) with
  | "ok" => .ok <$> asStr (jget j "t")
  | "ok2" => .ok2 <$> asStr (jget j "pub") <*> asStr (jget j "priv") <*> asNat (jget j "pubfmt") <*> asNat (jget j "privfmt")
  | "verdict" => .verdict <$> asBool (jget j "v")
  | "kmip" => .kmipError <$> asNat (jget j "reason")
  | "internal" => pure .internal
  | k => throw s!"crypto kind {k}"

def pWrap (j : Json) : P WrapSpec := do
  pure ⟨← asNat (jget j "method"), ← opt asStr (jget j "enckey"), ← asBool (jget j "encparams"),
        ← asBool (jget j "mackey"), ← asNat (jget j "attrnames"), ← opt asNat (jget j "encoding")⟩

def pPayload (j : Json) : P Payload := do
  let u ← opt asStr (jget j "uid")
  match (← asStr (jget j "op")) with
  | "create" => pure (Payload.create (← asNat (jget j "otype")) (← opt pTemplate (jget j "tmpl")))
  | "createKeyPair" => pure (Payload.createKeyPair (← opt pTemplate (jget j "common")) (← opt pTemplate (jget j "priv")) (← opt pTemplate (jget j "pub")))
  | "register" => pure (Payload.register (← asNat (jget j "otype")) (← opt pTemplate (jget j "tmpl")) (← opt pRegObj (jget j "obj")))
  | "deriveKey" => pure (Payload.deriveKey (← asNat (jget j "otype")) (← listOf asStr (jget j "uids")) (← opt pTemplate (jget j "tmpl")) true 0)
  | "locate" => pure (Payload.locate (← opt asInt (jget j "max")) (← opt asInt (jget j "offset")) (← listOf pTAttr (jget j "attrs")))
  | "get" => pure (Payload.get u (← opt asNat (jget j "format")) (← asBool (jget j "compression")) (← opt pWrap (jget j "wrap")))
  | "getAttributes" => pure (Payload.getAttributes u (← listOf asStr (jget j "names")))
  | "getAttributeList" => pure (Payload.getAttributeList u)
  | "activate" => pure (Payload.activate u)
  | "revoke" => pure (Payload.revoke u (← opt asNat (jget j "code")))
  | "destroy" => pure (Payload.destroy u)
  | "query" => pure (Payload.query (← listOf asNat (jget j "functions")))
  | "discoverVersions" => pure (Payload.discoverVersions (← listOf asNat (jget j "versions")))
  | "encrypt" => pure (Payload.encrypt u (← asBool (jget j "params")))
  | "decrypt" => pure (Payload.decrypt u (← asBool (jget j "params")))
  | "sign" => pure (Payload.sign u (← asBool (jget j "params")))
  | "signatureVerify" => pure (Payload.signatureVerify u (← asBool (jget j "params")))
  | "mac" => pure (Payload.mac u (← opt asNat (jget j "alg")) (← asBool (jget j "data")))
  | "setAttribute" => pure (Payload.setAttribute u (← pTAttr (jget j "attr")))
  | "modifyAttribute" => pure (Payload.modifyAttribute u (← opt pTAttr (jget j "attr")) (← opt pTAttr (jget j "current")) (← opt pTAttr (jget j "new")))
  | "deleteAttribute" => pure (Payload.deleteAttribute u (← opt asStr (jget j "name")) (← opt asInt (jget j "index")) (← opt pTAttr (jget j "current")) (← opt asStr (jget j "reference")))
  | "unsupported" => pure (Payload.unsupported (← asNat (jget j "code")))
  | k => throw s!"op {k}"

def pItem (j : Json) : P Item := do
  pure ⟨← pPayload j, ← opt asStr (jget j "bid"), ← pCrypto (jget j "crypto")⟩

def pRequest (j : Json) : P Request := do
  pure { version := ← asNat (jget j "version"), timeStamp := ← opt asInt (jget j "ts"),
         async := ← opt asBool (jget j "async"), batchOption := ← opt asNat (jget j "bopt"),
         maxResponseSize := ← opt asNat (jget j "maxsize"), items := ← listOf pItem (jget j "items") }

def pIdentity (j : Json) : P Identity := do
  pure ⟨← opt asStr (jget j "user"), ← opt (listOf asStr) (jget j "groups")⟩

def pPerm (j : Json) : P Perm := do
  match (← asStr j) with
  | "ALLOW_ALL" => pure .allowAll
  | "ALLOW_OWNER" => pure .allowOwner
  | "DISALLOW_ALL" => pure .disallowAll
  | _ => pure .other

/-- `[[otype, [[op, perm], …]], …]` -/
def pObjTable (j : Json) : P ObjTable := listOf (fun row => do
  let a ← asArr row
  let ops ← listOf (fun r => do
    let b ← asArr r
    pure (← asNat b[0]!, ← pPerm b[1]!)) a[1]!
  pure (← asNat a[0]!, ops)) j

def pBundle (j : Json) : P Bundle := do
  let groups ← opt (listOf (fun row => do
    let a ← asArr row
    pure (← asStr a[0]!, ← pObjTable a[1]!))) (jget j "groups")
  pure ⟨← opt pObjTable (jget j "preset"), groups⟩

def pPolicies (j : Json) : P Policies := listOf (fun row => do
  let a ← asArr row
  pure (← asStr a[0]!, ← pBundle a[1]!)) j

/-! output -/
def jOpt {α} (f : α → Json) : Option α → Json
  | none => Json.null
  | some a => f a
def jNat (n : Nat) : Json := Json.num n
def jInt (n : Int) : Json := Json.num (JsonNumber.fromInt n)

def jAVal : AVal → Json
  | .enum n => Json.mkObj [("k", "enum"), ("v", jNat n)]
  | .int n => Json.mkObj [("k", "int"), ("v", jInt n)]
  | .text s => Json.mkObj [("k", "text"), ("v", s)]
  | .bool b => Json.mkObj [("k", "bool"), ("v", b)]
  | .name s t => Json.mkObj [("k", "name"), ("v", s), ("t", jNat t)]
  | .appInfo a b => Json.mkObj [("k", "appinfo"), ("ns", a), ("d", b)]
  | .date n => Json.mkObj [("k", "date"), ("v", jInt n)]
  | .other => Json.mkObj [("k", "other")]

def jTAttr (a : TAttr) : Json :=
  Json.mkObj [("name", a.name), ("index", jOpt jInt a.index), ("value", jAVal a.value)]

def jData : Data → Json
  | .uid u => Json.mkObj [("k", "uid"), ("uid", u)]
  | .uidAttr u a => Json.mkObj [("k", "uidattr"), ("uid", u), ("attr", jOpt jTAttr a)]
  | .keyPair pr pu => Json.mkObj [("k", "keypair"), ("priv", pr), ("pub", pu)]
  | .uids us => Json.mkObj [("k", "uids"), ("uids", Json.arr (us.map Json.str).toArray)]
  | .object ot u v a l f st w => Json.mkObj [("k", "object"), ("otype", jNat ot), ("uid", u), ("value", v),
      ("alg", jOpt jNat a), ("len", jOpt jNat l), ("format", jOpt jNat f), ("subtype", jOpt jNat st), ("wrapped", w)]
  | .attrs u as => Json.mkObj [("k", "attrs"), ("uid", u), ("attrs", Json.arr (as.map jTAttr).toArray)]
  | .names u ns => Json.mkObj [("k", "names"), ("uid", u), ("names", Json.arr (ns.map Json.str).toArray)]
  | .ops os v => Json.mkObj [("k", "ops"), ("ops", Json.arr (os.map jNat).toArray), ("vendor", v)]
  | .versions vs => Json.mkObj [("k", "versions"), ("versions", Json.arr (vs.map jNat).toArray)]
  | .crypto u c => Json.mkObj [("k", "crypto"), ("uid", u), ("c", match c with
      | .ok t => Json.str t
      | .verdict b => Json.bool b
      | _ => Json.null)]

def jResult (r : ItemResult) : Json :=
  let base : List (String × Json) := [("op", jNat r.op), ("bid", jOpt Json.str r.batchId)]
  match r.result with
  | .ok d => Json.mkObj (base ++ [("status", Json.str "ok"), ("data", jData d)])
  | .error (.kmip rsn msg) => Json.mkObj (base ++ [("status", Json.str "fail"), ("reason", jNat rsn), ("msg", Json.str msg)])
  | .error (.internal site) => Json.mkObj (base ++ [("status", Json.str "fail"), ("reason", jNat Rsn.generalFailure), ("site", Json.str site)])

def jObj (o : Obj) : Json :=
  Json.mkObj [("uid", jNat o.uid), ("otype", jNat o.otype), ("owner", jOpt Json.str o.owner), ("policy", o.policy),
    ("names", Json.arr (o.names.map Json.str).toArray), ("groups", Json.arr (o.groups.map Json.str).toArray),
    ("appinfo", Json.arr (o.appInfo.map (fun p => Json.arr #[Json.str p.1, Json.str p.2])).toArray),
    ("sensitive", o.sensitive), ("date", jNat o.initialDate), ("state", jOpt jNat o.state),
    ("mask", jOpt jNat o.mask), ("alg", jOpt jNat o.alg), ("len", jOpt jNat o.len), ("format", jOpt jNat o.format),
    ("subtype", jOpt jNat o.subtype), ("value", o.value)]

structure DState where
  engine : Engine
  policies : Policies

def mkCtx (s : DState) (now : Nat) : Ctx :=
  { rules := Gen.attrRules, policies := s.policies, now := now, supportedVersions := Gen.supportedVersions }

end Kmip.Wire
