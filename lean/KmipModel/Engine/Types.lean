/-
M5 — engine state machine: data types.

The store is the list of rows of the `managed_objects` table (with the child
tables folded into each object); identifiers are issued from `nextUid`, which
stands for SQLite's AUTOINCREMENT sequence.  Key material is a token (hex
string) the model only copies.
-/
import KmipModel.Policy
import KmipModel.TableTypes
namespace Kmip

/-! ### constants (pinned to `kmip.core.enums` by `decide` theorems in Props/Pins.lean) -/
namespace OT
def certificate := 1
def symmetricKey := 2
def publicKey := 3
def privateKey := 4
def splitKey := 5
def template := 6
def secretData := 7
def opaqueData := 8
end OT

namespace St
def preActive := 1
def active := 2
def deactivated := 3
def compromised := 4
def destroyed := 5
def destroyedCompromised := 6
end St

namespace Op
def create := 1
def createKeyPair := 2
def register := 3
def deriveKey := 5
def locate := 8
def get := 10
def getAttributes := 11
def getAttributeList := 12
def modifyAttribute := 14
def deleteAttribute := 15
def activate := 18
def revoke := 19
def destroy := 20
def query := 24
def discoverVersions := 30
def encrypt := 31
def decrypt := 32
def sign := 33
def signatureVerify := 34
def mac := 35
def setAttribute := 49
end Op

namespace Rsn
def itemNotFound := 1
def invalidMessage := 4
def operationNotSupported := 5
def invalidField := 7
def cryptographicFailure := 10
def illegalOperation := 11
def permissionDenied := 12
def indexOutOfBounds := 14
def keyFormatTypeNotSupported := 16
def keyCompressionTypeNotSupported := 17
def encodingOptionError := 18
def readOnlyAttribute := 29
def multiValuedAttribute := 30
def attributeInstanceNotFound := 32
def attributeNotFound := 33
def generalFailure := 256
end Rsn

namespace Mask
def sign := 0x1
def verify := 0x2
def encrypt := 0x4
def decrypt := 0x8
def wrapKey := 0x10
def macGenerate := 0x80
def deriveKey := 0x200
/-- all members of `enums.CryptographicUsageMask` -/
def all := 0xFFFFFF
end Mask

/-- `bit ∈ managed_object.cryptographic_usage_masks` -/
def hasBit (mask bit : Nat) : Bool := (mask &&& bit) != 0

/-- Python's `value & m` for an arbitrary (possibly negative) integer `value` and a non-negative mask `m`:
two's complement, `-(n+1) = ~n`. -/
def landMask (a : Int) (m : Nat) : Nat :=
  match a with
  | .ofNat n => n &&& m
  | .negSucc n => m - (m &&& n)

/-! ### stored objects -/

/-- One managed object as the engine sees it through the ORM.
Fields that a Python class does not have are `none` (an access is then an
`AttributeError`, i.e. an internal error). -/
structure Obj where
  uid : Nat
  otype : Nat
  owner : Option String
  /-- `operation_policy_name`; `none` on insert becomes `"default"` (column default) -/
  policy : String
  names : List String
  groups : List String
  appInfo : List (String × String)
  sensitive : Bool
  initialDate : Nat
  /-- `none`: the class has no `state` attribute (OpaqueObject) -/
  state : Option Nat
  /-- `none`: the class has no `cryptographic_usage_masks` (OpaqueObject) -/
  mask : Option Nat
  /-- `hasKeyFields`: the class derives from `Key` (algorithm/length/format attributes exist) -/
  isKey : Bool
  alg : Option Nat
  len : Option Nat
  format : Option Nat
  /-- certificate type / secret data type / opaque type, by object type -/
  subtype : Option Nat
  value : String
  /-- transient, only on an object under construction: the request set `operation_policy_name` (to the empty text,
  too: the attribute test `if field:` treats it as unset, the INSERT stores it as it is; only `None` takes the column
  default).  `finalize` - through which every new object passes before it is inserted - reads it and resets it;
  nothing else reads it (`C05.server_assigned`). -/
  policyGiven : Bool := false
  deriving Repr, DecidableEq, Inhabited

structure Store where
  objs : List Obj
  nextUid : Nat
  deriving Repr, DecidableEq, Inhabited

/-- Engine = persistent store + the transient fields of `KmipEngine`. -/
structure Engine where
  store : Store
  placeholder : Option String
  version : Nat
  identity : Identity
  deriving Repr, DecidableEq, Inhabited

def Store.empty : Store := { objs := [], nextUid := 1 }
def Engine.init : Engine :=
  { store := Store.empty, placeholder := none, version := 12, identity := ⟨none, none⟩ }

/-- A fresh `KmipEngine` opened on the same database file. -/
def Engine.restart (e : Engine) : Engine := { Engine.init with store := e.store }

/-! ### identifiers -/

def digitVal (c : Char) : Option Nat :=
  if '0' ≤ c ∧ c ≤ '9' then some (c.toNat - '0'.toNat) else none

def parseNatAux : List Char → Nat → Option Nat
  | [], acc => some acc
  | c :: cs, acc => match digitVal c with
    | none => none
    | some d => parseNatAux cs (acc * 10 + d)

/-- Canonical decimal identifiers only (`"0"`, `"17"`); anything else addresses
no object.  (SQLite's numeric affinity also accepts `"01"`, `"1.0"`, `" 1"`; such
strings are outside the modelled request space.) -/
def parseUid (s : String) : Option Nat :=
  match s.toList with
  | [] => none
  | ['0'] => some 0
  | '0' :: _ => none
  | cs => parseNatAux cs 0

def Store.find (s : Store) (u : Nat) : Option Obj := s.objs.find? (·.uid == u)

def Store.lookup (s : Store) (uid : Option String) : Option Obj :=
  match uid with
  | none => none
  | some str => match parseUid str with
    | none => none
    | some u => s.find u

/-- Replace the object with identifier `u` by `f` of it. -/
def Store.update (s : Store) (u : Nat) (f : Obj → Obj) : Store :=
  { s with objs := s.objs.map (fun o => if o.uid == u then f o else o) }

def Store.delete (s : Store) (u : Nat) : Store :=
  { s with objs := s.objs.filter (fun o => !(o.uid == u)) }

/-- Insert a new row; the identifier is taken from the sequence. -/
def Store.insert (s : Store) (mk : Nat → Obj) : Store × Nat :=
  ({ objs := s.objs ++ [mk s.nextUid], nextUid := s.nextUid + 1 }, s.nextUid)

/-! ### requests -/

/-- Attribute values, as far as the engine looks at them. -/
inductive AVal where
  | enum (n : Nat)
  | int (n : Int)
  | text (s : String)
  | bool (b : Bool)
  | name (s : String) (ntype : Nat)
  | appInfo (ns data : String)
  | date (n : Int)
  | other
  deriving Repr, DecidableEq, Inhabited

structure TAttr where
  name : String
  index : Option Int
  value : AVal
  deriving Repr, DecidableEq, Inhabited

structure Template where
  templateNames : Nat          -- number of template names referenced
  attrs : List TAttr
  deriving Repr, DecidableEq, Inhabited

/-- The managed object carried by Register (already a well-typed secret). -/
structure RegObj where
  otype : Nat
  value : String
  alg : Option Nat
  len : Option Nat
  format : Option Nat
  subtype : Option Nat
  deriving Repr, DecidableEq, Inhabited

/-- Outcome scripted for the cryptography backend on this item. -/
inductive Crypto where
  | ok (token : String)
  | ok2 (pubToken privToken : String) (pubFormat privFormat : Nat)
  | verdict (valid : Bool)
  | kmipError (reason : Nat)
  | internal
  deriving Repr, DecidableEq, Inhabited

structure WrapSpec where
  wrappingMethod : Nat
  encKeyUid : Option String        -- encryption key information present?
  encKeyHasParams : Bool
  macKeyInfo : Bool
  attributeNames : Nat
  encodingOption : Option Nat
  deriving Repr, DecidableEq, Inhabited

inductive Payload where
  | create (otype : Nat) (tmpl : Option Template)
  | createKeyPair (common priv pub : Option Template)
  | register (otype : Nat) (tmpl : Option Template) (obj : Option RegObj)
  | deriveKey (otype : Nat) (uids : List String) (tmpl : Option Template)
      (hasDerivationData : Bool) (dataLen : Nat)
  | locate (maxItems offset : Option Int) (attrs : List TAttr)
  | get (uid : Option String) (format : Option Nat) (compression : Bool) (wrap : Option WrapSpec)
  | getAttributes (uid : Option String) (names : List String)
  | getAttributeList (uid : Option String)
  | activate (uid : Option String)
  | revoke (uid : Option String) (code : Option Nat)
  | destroy (uid : Option String)
  | query (functions : List Nat)
  | discoverVersions (versions : List Nat)
  | encrypt (uid : Option String) (hasParams : Bool)
  | decrypt (uid : Option String) (hasParams : Bool)
  | sign (uid : Option String) (hasParams : Bool)
  | signatureVerify (uid : Option String) (hasParams : Bool)
  | mac (uid : Option String) (paramAlg : Option Nat) (hasData : Bool)
  | setAttribute (uid : Option String) (attr : TAttr)
  /-- 1.x form: `attr`; 2.0 form: `current`/`new` -/
  | modifyAttribute (uid : Option String) (attr : Option TAttr) (current new : Option TAttr)
  /-- 1.x: name + index; 2.0: current attribute or attribute reference name -/
  | deleteAttribute (uid : Option String) (name : Option String) (index : Option Int)
      (current : Option TAttr) (reference : Option String)
  | unsupported (op : Nat)
  deriving Repr, Inhabited

structure Item where
  payload : Payload
  batchId : Option String
  crypto : Crypto
  deriving Repr, Inhabited

structure Request where
  version : Nat
  /-- is `version` one of the `ProtocolVersion` objects the server lists? -/
  timeStamp : Option Int
  async : Option Bool
  batchOption : Option Nat
  maxResponseSize : Option Nat
  items : List Item
  deriving Repr, Inhabited

/-! ### responses -/

inductive Err where
  | kmip (reason : Nat) (msg : String)
  | internal (site : String)
  deriving Repr, DecidableEq, Inhabited

/-- What a successful item returns (only the observable data). -/
inductive Data where
  | uid (u : String)
  | uidAttr (u : String) (attr : Option TAttr)
  | keyPair (priv pub : String)
  | uids (us : List String)
  | object (otype : Nat) (uid : String) (value : String) (alg len format subtype : Option Nat) (wrapped : Bool)
  | attrs (uid : String) (as : List TAttr)
  | names (uid : String) (ns : List String)
  | ops (ops : List Nat) (vendor : Bool)
  | versions (vs : List Nat)
  | crypto (uid : String) (c : Crypto)
  deriving Repr, DecidableEq, Inhabited

structure ItemResult where
  op : Nat
  batchId : Option String
  result : Except Err Data
  deriving Repr, Inhabited

def Payload.op : Payload → Nat
  | .create .. => Op.create
  | .createKeyPair .. => Op.createKeyPair
  | .register .. => Op.register
  | .deriveKey .. => Op.deriveKey
  | .locate .. => Op.locate
  | .get .. => Op.get
  | .getAttributes .. => Op.getAttributes
  | .getAttributeList .. => Op.getAttributeList
  | .activate .. => Op.activate
  | .revoke .. => Op.revoke
  | .destroy .. => Op.destroy
  | .query .. => Op.query
  | .discoverVersions .. => Op.discoverVersions
  | .encrypt .. => Op.encrypt
  | .decrypt .. => Op.decrypt
  | .sign .. => Op.sign
  | .signatureVerify .. => Op.signatureVerify
  | .mac .. => Op.mac
  | .setAttribute .. => Op.setAttribute
  | .modifyAttribute .. => Op.modifyAttribute
  | .deleteAttribute .. => Op.deleteAttribute
  | .unsupported op => op

end Kmip
