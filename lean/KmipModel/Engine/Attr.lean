/-
M5 — attribute rules, template processing, attribute get/set/delete.
Transcribed from kmip/services/server/engine.py l.549-1051 and
kmip/services/server/policy.py l.1099-1211.
-/
import KmipModel.Engine.Types
namespace Kmip

/-- Static context of one request: the rule table (generated), the operation
policies in force, and the server clock. -/
structure Ctx where
  rules : List AttrRule
  policies : Policies
  now : Nat
  supportedVersions : List Nat
  deriving Inhabited

abbrev R := Except Err

def kerr {α} (reason : Nat) (msg : String) : R α := .error (.kmip reason msg)
def ierr {α} (site : String) : R α := .error (.internal site)

def Ctx.rule? (c : Ctx) (name : String) : Option AttrRule := c.rules.find? (·.name == name)

def Ctx.isSupported (c : Ctx) (ver : Nat) (name : String) : Bool :=
  match c.rule? name with
  | some r => decide (r.versionAdded ≤ ver)
  | none => false

/-- the rule queries answer `False` for a name the table does not know -/
def Ctx.isDeprecated (c : Ctx) (ver : Nat) (name : String) : R Bool :=
  match c.rule? name with
  | some r =>
    match r.versionDeprecated with
    | some d => pure (decide (d ≤ ver))
    | none => pure false
  | none => pure false

def Ctx.isMultivalued (c : Ctx) (name : String) : R Bool :=
  pure (match c.rule? name with | some r => r.multivalued | none => false)
def Ctx.isModifiable (c : Ctx) (name : String) : R Bool :=
  pure (match c.rule? name with | some r => r.modifiableByClient | none => false)
def Ctx.isDeletable (c : Ctx) (name : String) : R Bool :=
  pure (match c.rule? name with | some r => r.deletableByClient | none => false)
def Ctx.isApplicable (c : Ctx) (name : String) (otype : Nat) : R Bool :=
  pure (match c.rule? name with | some r => r.appliesTo.contains otype | none => false)

/-! ### `_process_template_attribute` -/

/-- value(s) collected for one attribute name -/
inductive Collected where
  | single (v : AVal)
  | multi (vs : List AVal)
  deriving Repr, DecidableEq, Inhabited

abbrev AttrDict := List (String × Collected)

def AttrDict.get (d : AttrDict) (name : String) : Option Collected := d.lookup name

/-- dict update keeping first-insertion order -/
def AttrDict.set (d : AttrDict) (name : String) (v : Collected) : AttrDict :=
  if d.any (·.1 == name) then d.map (fun kv => if kv.1 == name then (name, v) else kv)
  else d ++ [(name, v)]

def AttrDict.erase (d : AttrDict) (name : String) : AttrDict := d.filter (fun kv => !(kv.1 == name))

def processTemplateStep (c : Ctx) (ver : Nat) (d : AttrDict) (a : TAttr) : R AttrDict := do
  if !c.isSupported ver a.name then
    kerr Rsn.invalidField s!"The {a.name} attribute is unsupported."
  else if (← c.isMultivalued a.name) then
    let values := match d.get a.name with
      | some (.multi vs) => vs
      | _ => []
    if a.index.isNone && values.length > 0 && ver < 20 then
      kerr Rsn.invalidField "Attribute index missing from multivalued attribute."
    else pure (d.set a.name (.multi (values ++ [a.value])))
  else
    match a.index with
    | some i =>
      if i != 0 then kerr Rsn.invalidField "Non-zero attribute index found for single-valued attribute."
      else if (d.get a.name).isSome then
        kerr Rsn.indexOutOfBounds s!"Cannot set multiple instances of the {a.name} attribute."
      else pure (d.set a.name (.single a.value))
    | none =>
      if (d.get a.name).isSome then
        kerr Rsn.indexOutOfBounds s!"Cannot set multiple instances of the {a.name} attribute."
      else pure (d.set a.name (.single a.value))

def processTemplate (c : Ctx) (ver : Nat) (t : Template) : R AttrDict := do
  if t.templateNames > 0 then kerr Rsn.itemNotFound "Attribute templates are not supported."
  else t.attrs.foldlM (processTemplateStep c ver) []

def processTemplate? (c : Ctx) (ver : Nat) (t : Option Template) : R AttrDict :=
  match t with
  | none => pure []
  | some t => processTemplate c ver t

/-! ### `_get_attribute_from_managed_object` -/

/-- What the getter returns: `none` = Python `None`. -/
inductive Got where
  | single (v : AVal)
  | multi (vs : List AVal)
  deriving Repr, DecidableEq, Inhabited

/-- the `elif attr_name == …` chain, as a table: attribute name ↦ getter -/
def getters : List (String × (Obj → R (Option Got))) :=
  [("Unique Identifier", fun o => pure (some (.single (.text (toString o.uid))))),
   ("Name", fun o => pure (some (.multi (o.names.map (fun n => .name n 1))))),
   ("Object Type", fun o => pure (some (.single (.enum o.otype)))),
   ("Cryptographic Algorithm", fun o =>
      if o.isKey then pure (o.alg.map (fun a => .single (.enum a))) else ierr "no attribute cryptographic_algorithm"),
   ("Cryptographic Length", fun o =>
      if o.isKey then pure (o.len.map (fun a => .single (.int a))) else ierr "no attribute cryptographic_length"),
   ("Certificate Type", fun o =>
      if o.otype == OT.certificate then pure (o.subtype.map (fun a => .single (.enum a)))
      else ierr "no attribute certificate_type"),
   ("Operation Policy Name", fun o => pure (some (.single (.text o.policy)))),
   ("Cryptographic Usage Mask", fun o =>
      match o.mask with
      | some m => pure (some (.single (.int m)))
      | none => ierr "no attribute cryptographic_usage_masks"),
   ("State", fun o =>
      match o.state with
      | some s => pure (some (.single (.enum s)))
      | none => ierr "no attribute state"),
   ("Initial Date", fun o => pure (some (.single (.date o.initialDate)))),
   ("Object Group", fun o => pure (some (.multi (o.groups.map .text)))),
   ("Application Specific Information", fun o => pure (some (.multi (o.appInfo.map (fun p => .appInfo p.1 p.2))))),
   ("Sensitive", fun o => pure (some (.single (.bool o.sensitive))))]

/-- every other name (attributes the server does not store, custom attributes): `None` -/
def getAttr (o : Obj) (name : String) : R (Option Got) :=
  match getters.lookup name with
  | some f => f o
  | none => pure none

/-- `_get_attributes_from_managed_object(obj, names)`; `names = []` means all. -/
def getAttrsStep (c : Ctx) (ver : Nat) (o : Obj) (name : String) : R (List TAttr) := do
  if !c.isSupported ver name then pure []
  else if (← c.isDeprecated ver name) then pure []
  else if !(← c.isApplicable name o.otype) then pure []
  else
    let v : Option Got := match getAttr o name with
      | .ok v => v
      | .error _ => none           -- `except Exception: attribute_value = None`
    match v with
    | none => pure []
    | some g =>
      if (← c.isMultivalued name) then
        match g with
        | .multi vs => pure ((List.range vs.length).zip vs |>.map (fun iv => ⟨name, some iv.1, iv.2⟩))
        | .single _ => ierr "enumerate over a non-iterable attribute value"
      else
        match g with
        | .single v => pure [⟨name, none, v⟩]
        | .multi _ => ierr "create_attribute on a list value"

def getAttrs (c : Ctx) (ver : Nat) (o : Obj) (names : List String) : R (List TAttr) := do
  let names := if names.isEmpty then c.rules.map (·.name) else names
  let parts ← names.mapM (getAttrsStep c ver o)
  pure parts.flatten

/-! ### `_set_attribute_on_managed_object` -/

def nameOf : AVal → Option String
  | .name s _ => some s
  | _ => none

def hasDup : List String → Bool
  | [] => false
  | x :: xs => xs.contains x || hasDup xs

/-- truthiness of the existing value / comparison / assignment for the five
single-valued attributes the server stores. -/
def setSingle (o : Obj) (name : String) (v : AVal) : R Obj :=
  if name == "Cryptographic Algorithm" then
    if !o.isKey then kerr Rsn.invalidField s!"Cannot set {name} attribute on this object." else
    match v with
    | .enum a =>
      match o.alg with
      | some e => if e != a then kerr Rsn.invalidField s!"Cannot overwrite the {name} attribute." else pure o
      | none => pure { o with alg := some a }
    | _ => ierr "attribute value has no enum value"
  else if name == "Cryptographic Length" then
    if !o.isKey then kerr Rsn.invalidField s!"Cannot set {name} attribute on this object." else
    match v with
    | .int a =>
      match o.len with
      | some e =>
        if e != 0 then
          if (e : Int) != a then kerr Rsn.invalidField s!"Cannot overwrite the {name} attribute." else pure o
        else if a < 0 then ierr "negative length" else pure { o with len := some a.toNat }
      | none => if a < 0 then ierr "negative length" else pure { o with len := some a.toNat }
    | _ => ierr "attribute value has no int value"
  else if name == "Cryptographic Usage Mask" then
    match o.mask with
    | none => kerr Rsn.invalidField s!"Cannot set {name} attribute on this object."
    | some e =>
      match v with
      | .int a =>
        let m := landMask a Mask.all
        if e != 0 then
          if e != m then kerr Rsn.invalidField s!"Cannot overwrite the {name} attribute." else pure o
        else pure { o with mask := some m }
      | _ => ierr "attribute value has no int value"
  else if name == "Operation Policy Name" then
    match v with
    | .text a =>
      if o.policy != "" then
        if o.policy != a then kerr Rsn.invalidField s!"Cannot overwrite the {name} attribute." else pure o
      else pure { o with policy := a, policyGiven := true }
    | _ => ierr "attribute value has no text value"
  else if name == "Sensitive" then
    match v with
    | .bool a =>
      if o.sensitive then
        if a != true then kerr Rsn.invalidField s!"Cannot overwrite the {name} attribute." else pure o
      else pure { o with sensitive := a }
    | _ => ierr "attribute value has no bool value"
  else
    match v with
    | .other => ierr "struct attribute value has no .value"
    | _ => kerr Rsn.invalidField s!"The {name} attribute is unsupported."

def setMulti (o : Obj) (name : String) (vs : List AVal) : R Obj :=
  if name == "Name" then
    if vs.all (fun v => (nameOf v).isSome) then
      let names := o.names ++ vs.filterMap nameOf
      if hasDup names then kerr Rsn.invalidField "Cannot set duplicate name values."
      else pure { o with names := names }
    else ierr "name value is not a Name structure"
  else if name == "Application Specific Information" then
    if vs.all (fun v => match v with | .appInfo .. => true | _ => false) then
      pure { o with appInfo := o.appInfo ++ vs.filterMap (fun v => match v with | .appInfo a b => some (a, b) | _ => none) }
    else ierr "value is not ApplicationSpecificInformation"
  else if name == "Object Group" then
    if vs.all (fun v => match v with | .text _ => true | _ => false) then
      pure { o with groups := o.groups ++ vs.filterMap (fun v => match v with | .text a => some a | _ => none) }
    else ierr "value is not a text string"
  else kerr Rsn.invalidField s!"The {name} attribute is unsupported."

/-- `_set_attribute_on_managed_object(obj, (name, value))` -/
def setAttr (c : Ctx) (o : Obj) (name : String) (v : Collected) : R Obj := do
  if (← c.isMultivalued name) then
    match v with
    | .multi vs => setMulti o name vs
    | .single _ => ierr "iterating a single attribute value"
  else
    match v with
    | .single v => setSingle o name v
    | .multi _ => ierr "list has no attribute value"

/-- `_set_attributes_on_managed_object(obj, attributes)` -/
def setAttrs (c : Ctx) (o : Obj) (d : AttrDict) : R Obj :=
  d.foldlM (fun o kv => do
    if (← c.isApplicable kv.1 o.otype) then setAttr c o kv.1 kv.2
    else kerr Rsn.invalidField s!"Cannot set {kv.1} attribute on object.") o

/-! ### `_get_attribute_index_from_managed_object` -/

def findIdx? {α} (p : α → Bool) : List α → Option Nat
  | [] => none
  | x :: xs => if p x then some 0 else (findIdx? p xs).map (· + 1)

/-- the `elif attribute_name == …` chain of the index look-up, as a table -/
def indexers : List (String × (Obj → AVal → R (Option Nat))) :=
  let z (b : Bool) : R (Option Nat) := pure (if b then some 0 else none)
  [("Application Specific Information", fun o v => match v with
      | .appInfo a b => pure (findIdx? (fun p => p.1 == a && p.2 == b) o.appInfo)
      | _ => ierr "value has no application_namespace"),
   ("Certificate Type", fun o v =>
      if o.otype == OT.certificate then (match v with | .enum a => z (o.subtype == some a) | _ => ierr "no .value")
      else ierr "no attribute certificate_type"),
   ("Cryptographic Algorithm", fun o v =>
      if o.isKey then (match v with | .enum a => z (o.alg == some a) | _ => ierr "no .value") else ierr "no attribute"),
   ("Cryptographic Length", fun o v =>
      if o.isKey then (match v with | .int a => z (o.len.map Int.ofNat == some a) | _ => ierr "no .value")
      else ierr "no attribute"),
   ("Cryptographic Usage Mask", fun o v => match o.mask, v with
      | some m, .int a => z ((m : Int) == a)
      | none, _ => ierr "no attribute"
      | _, _ => ierr "no .value"),
   ("Initial Date", fun o v => match v with | .date a => z ((o.initialDate : Int) == a) | _ => ierr "no .value"),
   ("Name", fun o v => match v with
      | .name s _ => pure (findIdx? (· == s) o.names)
      | _ => ierr "no name_value"),
   ("Object Group", fun o v => match v with | .text s => pure (findIdx? (· == s) o.groups) | _ => ierr "no .value"),
   ("Object Type", fun o v => match v with | .enum a => z (o.otype == a) | _ => ierr "no .value"),
   ("Operation Policy Name", fun o v => match v with | .text s => z (o.policy == s) | _ => ierr "no .value"),
   ("Sensitive", fun o v => match v with | .bool b => z (o.sensitive == b) | _ => ierr "no .value"),
   ("State", fun o v => match o.state, v with
      | some s, .enum a => z (s == a)
      | none, _ => ierr "no attribute state"
      | _, _ => ierr "no .value"),
   ("Unique Identifier", fun o v => match v with | .text s => z (toString o.uid == s) | _ => ierr "no .value")]

def attrIndex (o : Obj) (name : String) (v : AVal) : R (Option Nat) :=
  match indexers.lookup name with
  | some f => f o v
  | none => pure none

/-! ### `_set_attribute_on_managed_object_by_index` -/

def setNth {α} : List α → Nat → α → List α
  | [], _, _ => []
  | _ :: xs, 0, a => a :: xs
  | x :: xs, n + 1, a => x :: setNth xs n a

def setByIndex (o : Obj) (name : String) (v : AVal) (i : Nat) : R Obj :=
  if name == "Application Specific Information" then
    if i < o.appInfo.length then
      match v with
      | .appInfo a b => pure { o with appInfo := setNth o.appInfo i (a, b) }
      | _ => ierr "value has no application_namespace"
    else ierr "list index out of range"
  else if name == "Name" then
    match v with
    | .name s _ => if i < o.names.length then pure { o with names := setNth o.names i s } else ierr "list index out of range"
    | _ => ierr "no name_value"
  else if name == "Object Group" then
    if i < o.groups.length then
      match v with
      | .text s => pure { o with groups := setNth o.groups i s }
      | _ => ierr "no .value"
    else ierr "list index out of range"
  else pure o

/-! ### `_delete_attribute_from_managed_object` -/

/-- `if 0 <= i < len(l): l.pop(i)` else Item Not Found -/
def popAt {α} (l : List α) (i : Int) : R (List α) :=
  if 0 ≤ i && i < l.length then pure (l.eraseIdx i.toNat)
  else kerr Rsn.itemNotFound "Could not locate the attribute instance with the specified index"

def eraseFirst {α} [BEq α] : List α → α → List α
  | [], _ => []
  | x :: xs, a => if x == a then xs else x :: eraseFirst xs a

def delGeneric {α} [BEq α] (l : List α) (value : Option α) (valueTruthy : Bool) (index : Option Int) : R (List α) :=
  match value with
  | some a =>
    if valueTruthy then
      if l.contains a then pure (eraseFirst l a)
      else kerr Rsn.itemNotFound "Could not locate the attribute instance with the specified value"
    else
      match index with
      | some i => popAt l i
      | none => pure []
  | none =>
    match index with
    | some i => popAt l i
    | none => pure []

/-- `(attribute_name, attribute_index, attribute_value)` -/
def delAttr (c : Ctx) (o : Obj) (name : String) (index : Option Int) (value : Option AVal) : R Obj := do
  if !(← c.isApplicable name o.otype) then
    kerr Rsn.itemNotFound s!"The '{name}' attribute is not applicable."
  else if !(← c.isDeletable name) then
    kerr Rsn.permissionDenied "Cannot delete a required attribute."
  else if (← c.isMultivalued name) then
    if name == "Name" then
      match value with
      | some (.name s _) => do
        let l ← delGeneric o.names (some s) (s != "") index
        pure { o with names := l }
      | some (.text s) => do
        let l ← delGeneric o.names (some s) (s != "") index
        pure { o with names := l }
      | some _ => ierr "attribute value is neither a Name nor a text string"
      | none => do
        let l ← delGeneric o.names none false index
        pure { o with names := l }
    else if name == "Application Specific Information" then
      match value with
      | some (.appInfo a b) => do
        let l ← delGeneric o.appInfo (some (a, b)) true index
        pure { o with appInfo := l }
      | some _ => ierr "value has no application_namespace"
      | none => do
        let l ← delGeneric o.appInfo none false index
        pure { o with appInfo := l }
    else if name == "Object Group" then
      match value with
      | some (.text s) => do
        let l ← delGeneric o.groups (some s) true index
        pure { o with groups := l }
      | some _ => ierr "no .value"
      | none => do
        let l ← delGeneric o.groups none false index
        pure { o with groups := l }
    else kerr Rsn.invalidField s!"The '{name}' attribute is not supported."
  else kerr Rsn.invalidField s!"The '{name}' attribute is not supported."

end Kmip
