/-
M5 — the operation handlers of `KmipEngine` (engine.py l.1229-3226).
Each handler is `Ctx → Engine → … → R (Effect × Data)`; a failing handler
returns no new engine (the caller keeps the old one).
-/
import KmipModel.Engine.Attr
namespace Kmip

/-- What a successful handler does to the store.  The batch loop applies it
(`applyEffect`); a failing handler has no effect by construction. -/
inductive Effect where
  | none
  /-- new rows; identifiers are assigned from the sequence in list order -/
  | insert (os : List Obj)
  /-- the row with identifier `o'.uid` is replaced by `o'` -/
  | update (o' : Obj)
  | delete (uid : Nat)
  deriving Repr, DecidableEq, Inhabited

def Store.insertAll (s : Store) : List Obj → Store
  | [] => s
  | o :: os => Store.insertAll (s.insert (fun n => { o with uid := n })).1 os

def applyEffect (e : Engine) : Effect → Engine
  | .none => e
  | .insert os =>
    { e with store := e.store.insertAll os,
             -- the placeholder is the identifier of the last object inserted
             placeholder := if os.isEmpty then e.placeholder
                            else some (toString (e.store.nextUid + os.length - 1)) }
  | .update o' => { e with store := e.store.update o'.uid (fun _ => o') }
  | .delete u => { e with store := e.store.delete u }

/-- `unique_identifier = self._id_placeholder; if payload.unique_identifier: …` -/
def uidOr (u : Option String) (ph : Option String) : Option String :=
  match u with
  | some s => if s = "" then ph else some s
  | none => ph

/-- Activate, Revoke, Destroy and MAC test the truth value of the Unique Identifier OBJECT (`payload.unique_identifier`
is the primitive there, not its text: engine.py l.2782, 2828, 2874, 3200), which is true whatever it holds: an EMPTY
identifier is used as it is and addresses nothing; the other handlers test the text, for which empty is false.
(Found by the end-to-end check M17, round 8: batch [Create; Activate ""] under Continue.) -/
def uidOrObj (u : Option String) (ph : Option String) : Option String :=
  match u with
  | some s => some s
  | none => ph

def showUid (u : Option String) : String :=
  match u with
  | some s => s
  | none => "None"

def notFoundMsg (u : Option String) : String := s!"Could not locate object: {showUid u}"

/-- `_get_object_with_access_controls(uid, operation)` -/
def getWithAccess (c : Ctx) (e : Engine) (uid : Option String) (op : Nat) : R Obj :=
  match e.store.lookup uid with
  | none => kerr Rsn.itemNotFound (notFoundMsg uid)
  | some o =>
    if allowedByPolicy c.policies o.policy e.identity o.owner o.otype op then pure o
    else kerr Rsn.permissionDenied (notFoundMsg uid)

/-- `_list_objects_with_access_controls(operation)` -/
def listWithAccess (c : Ctx) (e : Engine) (op : Nat) : List Obj :=
  e.store.objs.filter (fun o => allowedByPolicy c.policies o.policy e.identity o.owner o.otype op)

def hexBytes (token : String) : Nat := token.length / 2

/-- a freshly constructed pie object before attributes are applied -/
def newObj (otype : Nat) (value : String) : Obj :=
  { uid := 0, otype := otype, owner := none, policy := "", names := [], groups := [], appInfo := [],
    sensitive := false, initialDate := 0,
    state := if otype == OT.opaqueData then none else some St.preActive,
    mask := if otype == OT.opaqueData then none else some 0,
    isKey := otype == OT.symmetricKey || otype == OT.publicKey || otype == OT.privateKey || otype == OT.splitKey,
    alg := none, len := none, format := none, subtype := none, value := value }

/-- owner, initial date, column default of the policy name (taken by `None` only: a request that SET the name to the
empty text stores the empty text), identifier -/
def finalize (c : Ctx) (e : Engine) (o : Obj) : Obj :=
  { o with owner := e.identity.user, initialDate := c.now,
           policy := if o.policy = "" ∧ o.policyGiven = false then "default" else o.policy,
           policyGiven := false }

def cryptoErr {α} (cr : Crypto) : R α :=
  match cr with
  | .kmipError r => kerr r "cryptography engine error"
  | _ => ierr "cryptography engine raised"

/-! ### Create -/
def reqAlg (d : AttrDict) (msg : String) : R Nat :=
  match d.get "Cryptographic Algorithm" with
  | some (.single (.enum a)) => pure a
  | some _ => ierr "algorithm value"
  | none => kerr Rsn.invalidField msg

def reqLen (d : AttrDict) (msg : String) : R Int :=
  match d.get "Cryptographic Length" with
  | some (.single (.int l)) => pure l
  | some _ => ierr "length value"
  | none => kerr Rsn.invalidField msg

def reqMask (d : AttrDict) (msg : String) : R Unit :=
  if (d.get "Cryptographic Usage Mask").isNone then kerr Rsn.invalidField msg else pure ()

def cryptoToken (cr : Crypto) : R String :=
  match cr with
  | .ok token => pure token
  | other => cryptoErr other

def cryptoPair (cr : Crypto) : R (String × String × Nat × Nat) :=
  match cr with
  | .ok2 a b f g => pure (a, b, f, g)
  | other => cryptoErr other

def opCreate (c : Ctx) (e : Engine) (otype : Nat) (tmpl : Option Template) (cr : Crypto) : R (Effect × Data) := do
  if otype != OT.symmetricKey then kerr Rsn.invalidField "Cannot create this object with the Create operation." else
  let d ← processTemplate? c e.version tmpl
  let alg ← reqAlg d "The cryptographic algorithm must be specified as an attribute."
  let len ← reqLen d "The cryptographic length must be specified as an attribute."
  reqMask d "The cryptographic usage mask must be specified as an attribute."
  let token ← cryptoToken cr
  if (hexBytes token * 8 : Int) != len then ierr "SymmetricKey.validate: length mismatch" else
  let o ← setAttrs c { newObj OT.symmetricKey token with alg := some alg, len := some len.toNat, format := some 1 } d
  pure (.insert [finalize c e o], .uid (toString e.store.nextUid))

/-! ### CreateKeyPair -/
def mergeCommon (common specific : AttrDict) : AttrDict :=
  common.foldl (fun acc kv => if acc.any (·.1 == kv.1) then acc else acc ++ [kv]) specific

def requireKeyAttrs (d : AttrDict) (which : String) : R (Nat × Int) := do
  let alg ← reqAlg d s!"The cryptographic algorithm must be specified as an attribute for the {which} key."
  let len ← reqLen d s!"The cryptographic length must be specified as an attribute for the {which} key."
  reqMask d s!"The cryptographic usage mask must be specified as an attribute for the {which} key."
  pure (alg, len)

def opCreateKeyPair (c : Ctx) (e : Engine) (common priv pub : Option Template) (cr : Crypto) :
    R (Effect × Data) := do
  let dpub ← processTemplate? c e.version pub
  let dpriv ← processTemplate? c e.version priv
  let dcom ← processTemplate? c e.version common
  let dpub := mergeCommon dcom dpub
  let dpriv := mergeCommon dcom dpriv
  let pk ← requireKeyAttrs dpub "public"
  let sk ← requireKeyAttrs dpriv "private"
  if pk.1 != sk.1 then kerr Rsn.invalidField "The public and private key algorithms must be the same." else
  if pk.2 != sk.2 then kerr Rsn.invalidField "The public and private key lengths must be the same." else
  let t ← cryptoPair cr
  let po ← setAttrs c { newObj OT.publicKey t.1 with alg := some pk.1, len := some pk.2.toNat, format := some t.2.2.1 } dpub
  let so ← setAttrs c { newObj OT.privateKey t.2.1 with alg := some pk.1, len := some pk.2.toNat, format := some t.2.2.2 } dpriv
  pure (.insert [finalize c e po, finalize c e so],
        .keyPair (toString (e.store.nextUid + 1)) (toString e.store.nextUid))

/-! ### Register -/
def registrable (otype : Nat) : Bool :=
  otype == OT.certificate || otype == OT.symmetricKey || otype == OT.publicKey || otype == OT.privateKey
  || otype == OT.splitKey || otype == OT.secretData || otype == OT.opaqueData

/-- `ObjectFactory.convert(secret)` (kmip/pie/factory.py l.36-147 + the `validate()` methods of
kmip/pie/objects.py): what the pie classes refuse.  The TypeError / ValueError / AttributeError they raise is
answered Invalid Field (engine.py `_process_register`, after the repair 8101ec5).  Unwrapped keys only (the
model's `RegObj` carries no key wrapping data). -/
def convertCheck (ro : RegObj) : R Unit :=
  if ro.otype == OT.certificate then
    if ro.subtype == some 1 then pure () else kerr Rsn.invalidField "core certificate type not supported"
  else if ro.otype == OT.symmetricKey || ro.otype == OT.publicKey || ro.otype == OT.privateKey
          || ro.otype == OT.splitKey then
    match ro.alg, ro.len, ro.format with
    | some _, some l, some f =>
      if ro.otype == OT.symmetricKey then
        if hexBytes ro.value * 8 != l then kerr Rsn.invalidField "key length not equal to key value length"
        else if f != 1 then kerr Rsn.invalidField "core key format type not compatible with Pie SymmetricKey"
        else pure ()
      else if ro.otype == OT.publicKey then
        if f == 1 || f == 5 || f == 3 then pure () else kerr Rsn.invalidField "key format type must be one of Raw, X.509, PKCS#1"
      else if ro.otype == OT.privateKey then
        if f == 1 || f == 3 || f == 4 then pure () else kerr Rsn.invalidField "key format type must be one of Raw, PKCS#1, PKCS#8"
      else pure ()
    | _, _, _ => kerr Rsn.invalidField "The object is missing a field required to register it."
  else if ro.subtype.isNone then kerr Rsn.invalidField "The object is missing a field required to register it."
  else pure ()

def opRegister (c : Ctx) (e : Engine) (otype : Nat) (tmpl : Option Template) (obj : Option RegObj) :
    R (Effect × Data) := do
  if !registrable otype then kerr Rsn.invalidField "The object type is not supported." else
  match obj with
  | none => kerr Rsn.invalidField "Cannot register a secret in absentia."
  | some ro =>
    let d ← processTemplate? c e.version tmpl
    convertCheck ro
    let o ← setAttrs c { newObj ro.otype ro.value with alg := ro.alg, len := ro.len, format := ro.format, subtype := ro.subtype } d
    pure (.insert [finalize c e o], .uid (toString e.store.nextUid))

/-! ### DeriveKey -/
def derivable (otype : Nat) : Bool :=
  otype == OT.secretData || otype == OT.symmetricKey || otype == OT.publicKey || otype == OT.privateKey

def deriveBases (c : Ctx) (e : Engine) : List String → R (List Obj)
  | [] => pure []
  | u :: us => do
    let o ← getWithAccess c e (some u) Op.get
    if !derivable o.otype then kerr Rsn.invalidField "Object is not a suitable type for key derivation." else
    match o.mask with
    | none => ierr "no attribute cryptographic_usage_masks"
    | some m =>
      if !hasBit m Mask.deriveKey then kerr Rsn.invalidField "The DeriveKey bit must be set." else
      let rest ← deriveBases c e us
      pure (o :: rest)

def deriveLen (d : AttrDict) : R Nat :=
  match d.get "Cryptographic Length" with
  | some (.single (.int l)) =>
    if l % 8 == 0 then
      if l / 8 ≤ 0 then kerr Rsn.invalidField "The cryptographic length must be greater than zero."
      else pure (l / 8).toNat
    else kerr Rsn.invalidField "The cryptographic length must be a multiple of 8."
  | some _ => ierr "length value"
  | none => kerr Rsn.invalidField "The cryptographic length must be provided in the template attribute."

def deriveAlg (otype : Nat) (d : AttrDict) : R (Option Nat) :=
  if otype == OT.symmetricKey then
    match d.get "Cryptographic Algorithm" with
    | some (.single (.enum a)) => pure (some a)
    | some _ => ierr "algorithm value"
    | none => kerr Rsn.invalidField "The cryptographic algorithm must be provided."
  else pure none

def derivedObj (otype : Nat) (alg : Option Nat) (bytes : Nat) (value : String) : Obj :=
  if otype == OT.symmetricKey then
    { newObj OT.symmetricKey value with alg := alg, len := some (bytes * 8), format := some 1 }
  else { newObj OT.secretData value with subtype := some 2 }

def opDeriveKey (c : Ctx) (e : Engine) (otype : Nat) (uids : List String) (tmpl : Option Template)
    (cr : Crypto) : R (Effect × Data) := do
  let d ← processTemplate? c e.version tmpl
  if !(otype == OT.symmetricKey || otype == OT.secretData) then
    kerr Rsn.invalidField "Key derivation can only generate a SymmetricKey or SecretData object." else
  let bases ← deriveBases c e uids
  if bases.isEmpty then ierr "existing_objects[0]: list index out of range" else
  let bytes ← deriveLen d
  let alg ← deriveAlg otype d
  let token ← cryptoToken cr
  if bytes > hexBytes token then
    kerr Rsn.cryptographicFailure "The specified length exceeds the output of the derivation method." else
  let o ← setAttrs c (derivedObj otype alg bytes (token.take (2 * bytes)).toString)
            (if otype == OT.secretData then d.erase "Cryptographic Length" else d)
  pure (.insert [finalize c e o], .uid (toString e.store.nextUid))

/-! ### Locate -/

structure DateTrack where
  value : Option Nat := none
  start : Option Int := none
  stop : Option Int := none
  deriving Repr, DecidableEq, Inhabited

/-- `_track_date_attributes` -/
def trackDate (t : DateTrack) (v : Int) : R DateTrack :=
  match t.start with
  | none => pure { t with start := some v }
  | some s =>
    match t.stop with
    | none => if v > s then pure { t with stop := some v } else pure { t with stop := some s, start := some v }
    | some _ => kerr Rsn.invalidField "Too many Initial Date attributes provided."

/-- `_is_valid_date` -/
def validDate (value : Nat) (start stop : Option Int) : Bool :=
  match start with
  | none => true
  | some s =>
    match stop with
    | some e => !((value : Int) < s) && !((value : Int) > e)
    | none => s == (value : Int)

/-- Result of looking at one filter attribute for one object. -/
inductive FilterStep where
  | pass (t : DateTrack)
  | fail
  deriving Repr, DecidableEq, Inhabited

/-- how Locate compares one filter attribute with the stored value (the `elif name == …` chain) -/
inductive MatchKind where
  | appInfo | group | name | enumEq | intEq | textEq | mask | date
  deriving DecidableEq, Repr

def matchKinds : List (String × MatchKind) :=
  [("Application Specific Information", .appInfo), ("Object Group", .group), ("Name", .name),
   ("State", .enumEq), ("Object Type", .enumEq), ("Cryptographic Algorithm", .enumEq),
   ("Cryptographic Length", .intEq), ("Unique Identifier", .textEq), ("Operation Policy Name", .textEq),
   ("Cryptographic Usage Mask", .mask), ("Certificate Type", .enumEq), ("Initial Date", .date)]

def passIf (t : DateTrack) (b : Bool) : R FilterStep := pure (if b then .pass t else .fail)

/-- compare one filter value with the value the getter returned -/
def compareFilter (o : Obj) (t : DateTrack) (a : TAttr) (got : Got) : R FilterStep :=
  match matchKinds.lookup a.name with
  | some .appInfo =>
    match a.value, got with
    | .appInfo ns d, .multi vs => passIf t (vs.contains (.appInfo ns d))
    | _, _ => ierr "value has no application_namespace"
  | some .group =>
    match a.value, got with
    | .text s, .multi vs => passIf t (vs.contains (.text s))
    | _, _ => ierr "no .value"
  | some .name =>
    match got with
    | .multi vs => passIf t (vs.contains a.value)
    | _ => ierr "name list"
  | some .enumEq =>
    match a.value, got with
    | .enum v, .single (.enum x) => passIf t (v == x)
    | _, _ => ierr "no .value"
  | some .intEq =>
    match a.value, got with
    | .int v, .single (.int x) => passIf t (v == x)
    | _, _ => ierr "no .value"
  | some .textEq =>
    match a.value, got with
    | .text v, .single (.text x) => passIf t (v == x)
    | _, _ => ierr "no .value"
  | some .mask =>
    match a.value, got with
    | .int v, .single (.int x) =>
      passIf t (((landMask v Mask.all) &&& (Mask.all ^^^ x.toNat)) == 0)
    | _, _ => ierr "no .value"
  | some .date =>
    match a.value with
    | .date v => do
      let t' ← trackDate { t with value := some o.initialDate } v
      pure (.pass t')
    | _ => ierr "no .value"
  | none =>
    -- generic branch `value.value != attribute` (reached for Sensitive only)
    match a.value, got with
    | .bool v, .single (.bool x) => passIf t (v == x)
    | _, _ => ierr "no .value"

def filterOne (c : Ctx) (o : Obj) (t : DateTrack) (a : TAttr) : R FilterStep := do
  if !(← c.isApplicable a.name o.otype) then pure .fail else
  -- `except AttributeError`: an object that does not carry the attribute cannot match
  match getAttr o a.name with
  | .error _ => pure .fail
  | .ok none => pure (.pass t)
  | .ok (some got) => compareFilter o t a got

/-- the per-object loop over the filter attributes (with `break`) -/
def filterObj (c : Ctx) (o : Obj) : DateTrack → List TAttr → R (Bool × DateTrack)
  | t, [] => pure (true, t)
  | t, a :: as => do
    match (← filterOne c o t a) with
    | .fail => pure (false, t)
    | .pass t' => filterObj c o t' as

def matchesObj (c : Ctx) (o : Obj) (attrs : List TAttr) : R Bool := do
  let (add, t) ← filterObj c o {} attrs
  match t.value with
  | some v => if v != 0 then pure (add && validDate v t.start t.stop) else pure add
  | none => pure add

/-- stable sort by initial date, newest first (insertion sort; equal dates keep their order) -/
def insertDesc (o : Obj) : List Obj → List Obj
  | [] => [o]
  | x :: xs => if x.initialDate ≤ o.initialDate then o :: x :: xs else x :: insertDesc o xs

def sortDesc : List Obj → List Obj
  | [] => []
  | x :: xs => insertDesc x (sortDesc xs)

/-- Python's normalisation of a slice bound for a list of length `n`: negative bounds count from the end -/
def pyIdx (n : Nat) (i : Int) : Nat := if i < 0 then ((n : Int) + i).toNat else min i.toNat n

/-- `l[start:stop]` -/
def pySlice {α} (l : List α) (start stop : Int) : List α :=
  (l.take (pyIdx l.length stop)).drop (pyIdx l.length start)

/-- `managed_objects[offset:offset + maximum]` / `[offset:]` / `[:maximum]` (engine.py l.2513-2526), with
Python's semantics for negative integers (both fields are signed Integers on the wire) -/
def slice {α} (l : List α) (offset maxItems : Option Int) : List α :=
  match offset, maxItems with
  | some o, some m => pySlice l o (o + m)
  | some o, none => l.drop (pyIdx l.length o)
  | none, some m => l.take (pyIdx l.length m)
  | none, none => l

/-- the filtering loop (skipped entirely when the request has no attributes) -/
def locateFilter (c : Ctx) (attrs : List TAttr) : List Obj → R (List Obj)
  | [] => pure []
  | o :: os => do
    let keep ← matchesObj c o attrs
    let rest ← locateFilter c attrs os
    pure (if keep then o :: rest else rest)

def locateMatched (c : Ctx) (visible : List Obj) (attrs : List TAttr) : R (List Obj) :=
  if attrs.isEmpty then pure visible else locateFilter c attrs visible

def opLocate (c : Ctx) (e : Engine) (maxItems offset : Option Int) (attrs : List TAttr) : R (Effect × Data) := do
  let matched ← locateMatched c (listWithAccess c e Op.locate) attrs
  pure (.none, .uids ((slice (sortDesc matched) offset maxItems).map (fun o => toString o.uid)))

/-! ### Get -/
def coreObject (o : Obj) (value : String) (wrapped : Bool) (uid : String) : R Data :=
  if o.otype == OT.certificate || o.otype == OT.opaqueData then
    pure (.object o.otype uid value none none none o.subtype wrapped)
  else if o.otype == OT.secretData then
    pure (.object o.otype uid value none none (some 2) o.subtype wrapped)
  else if o.isKey then
    pure (.object o.otype uid value o.alg o.len o.format none wrapped)
  else kerr Rsn.invalidField "The object type is not supported."

def checkFormat (o : Obj) (format : Option Nat) : R Unit :=
  match format with
  | some f =>
    if !o.isKey then kerr Rsn.keyFormatTypeNotSupported "Key format is not applicable to the specified object." else
    if o.format != some f then kerr Rsn.keyFormatTypeNotSupported "Key format conversion is unsupported." else pure ()
  | none => pure ()

def getWrapKey (c : Ctx) (e : Engine) (ku : String) : R Obj :=
  match getWithAccess c e (some ku) Op.get with
  | .ok k => pure k
  | .error _ => kerr Rsn.itemNotFound "Wrapping key does not exist."

def wrapGuards (c : Ctx) (e : Engine) (o : Obj) (w : WrapSpec) (cr : Crypto) : R String := do
  if w.wrappingMethod != 1 then kerr Rsn.operationNotSupported "Wrapping method is not supported." else
  match w.encKeyUid with
  | some ku =>
    let key ← getWrapKey c e ku
    if key.otype != OT.symmetricKey then
      kerr Rsn.illegalOperation "The wrapping encryption key is not a key." else
    if key.state != some St.active then
      kerr Rsn.permissionDenied "Encryption key must be activated to be used for key wrapping." else
    if !hasBit (key.mask.getD 0) Mask.wrapKey then
      kerr Rsn.permissionDenied "The WrapKey bit must be set." else
    if w.attributeNames > 0 then kerr Rsn.illegalOperation "Wrapping object attributes is not supported." else
    if !w.encKeyHasParams then
      kerr Rsn.invalidField "The cryptographic parameters of the encryption key information must be specified." else
    if w.encodingOption != some 1 then kerr Rsn.encodingOptionError "Encoding option is not supported." else
    if o.otype == OT.certificate || o.otype == OT.opaqueData then
      kerr Rsn.illegalOperation "Key wrapping is not supported for this object." else
    cryptoToken cr
  | none =>
    if w.macKeyInfo then
      kerr Rsn.permissionDenied "Key wrapping with MAC/signing key information is not supported."
    else kerr Rsn.permissionDenied "Either the encryption key information or the MAC/signature key information must be specified."

def opGet (c : Ctx) (e : Engine) (uid : Option String) (format : Option Nat) (compression : Bool)
    (wrap : Option WrapSpec) (cr : Crypto) : R (Effect × Data) := do
  let uid := uidOr uid e.placeholder
  if compression then kerr Rsn.keyCompressionTypeNotSupported "Key compression is not supported." else
  let o ← getWithAccess c e uid Op.get
  checkFormat o format
  match wrap with
  | none =>
    let data ← coreObject o o.value false (showUid uid)
    pure (.none, data)
  | some w =>
    let token ← wrapGuards c e o w cr
    let data ← coreObject o token true (showUid uid)
    pure (.none, data)

/-! ### GetAttributes / GetAttributeList -/
def opGetAttributes (c : Ctx) (e : Engine) (uid : Option String) (names : List String) : R (Effect × Data) := do
  let uid := uidOr uid e.placeholder
  let o ← getWithAccess c e uid Op.getAttributes
  let as ← getAttrs c e.version o names
  pure (.none, .attrs (showUid uid) as)

def opGetAttributeList (c : Ctx) (e : Engine) (uid : Option String) : R (Effect × Data) := do
  let uid := uidOr uid e.placeholder
  let o ← getWithAccess c e uid Op.getAttributeList
  let as ← getAttrs c e.version o []
  -- the response payload keeps the first occurrence of each name
  pure (.none, .names (showUid uid) (as.map (·.name)).eraseDups)

/-! ### Activate / Revoke / Destroy -/
def opActivate (c : Ctx) (e : Engine) (uid : Option String) : R (Effect × Data) := do
  let uid := uidOrObj uid e.placeholder
  let o ← getWithAccess c e uid Op.activate
  match o.state with
  | none => kerr Rsn.illegalOperation "The object has no state and cannot be activated."
  | some s =>
    if s != St.preActive then
      kerr Rsn.permissionDenied "The object state is not pre-active and cannot be activated."
    else pure (.update { o with state := some St.active }, .uid (showUid uid))

def opRevoke (c : Ctx) (e : Engine) (uid : Option String) (code : Option Nat) : R (Effect × Data) := do
  match code with
  | none => kerr Rsn.invalidField "revocation reason code must be specified"
  | some code =>
    let uid := uidOrObj uid e.placeholder
    let o ← getWithAccess c e uid Op.revoke
    match o.state with
    | none => kerr Rsn.illegalOperation "The object has no state and cannot be revoked."
    | some s =>
      if code == 2 then
        let s' := if s == St.destroyed then St.destroyedCompromised else St.compromised
        pure (.update { o with state := some s' }, .uid (showUid uid))
      else if s != St.active then
        kerr Rsn.illegalOperation "The object is not active and cannot be revoked with reason other than KEY_COMPROMISE"
      else pure (.update { o with state := some St.deactivated }, .uid (showUid uid))

def opDestroy (c : Ctx) (e : Engine) (uid : Option String) : R (Effect × Data) := do
  let uid := uidOrObj uid e.placeholder
  let o ← getWithAccess c e uid Op.destroy
  if o.state == some St.active then kerr Rsn.permissionDenied "Object is active and cannot be destroyed."
  else pure (.delete o.uid, .uid (showUid uid))

/-! ### Query / DiscoverVersions -/
def opQuery (e : Engine) (functions : List Nat) : R (Effect × Data) :=
  -- `payload.query_functions` is `None` for an empty list: `x in None` is a TypeError
  if functions.isEmpty then ierr "argument of type 'NoneType' is not iterable" else
  let base := [Op.create, Op.createKeyPair, Op.register, Op.deriveKey, Op.locate, Op.get, Op.getAttributes,
               Op.getAttributeList, Op.activate, Op.revoke, Op.destroy, Op.query]
  let ops := if functions.contains 1 then
      base ++ (if e.version ≥ 11 then [Op.discoverVersions] else [])
           ++ (if e.version ≥ 12 then [Op.encrypt, Op.decrypt, Op.sign, Op.signatureVerify, Op.mac] else [])
    else []
  pure (.none, .ops ops (functions.contains 3))

def opDiscoverVersions (c : Ctx) (e : Engine) (versions : List Nat) : R (Effect × Data) :=
  if versions.isEmpty then pure (.none, .versions c.supportedVersions)
  else pure (.none, .versions (versions.filter (fun v => c.supportedVersions.contains v)))

/-! ### cryptographic operations -/
def cryptoGuard (c : Ctx) (e : Engine) (uid : Option String) (hasParams : Bool) (kind bit : Nat) : R Obj := do
  let o ← getWithAccess c e uid Op.get
  if !hasParams then kerr Rsn.invalidField "The cryptographic parameters must be specified." else
  if o.otype != kind then kerr Rsn.permissionDenied "The requested key is not of the required kind." else
  if o.state != some St.active then kerr Rsn.permissionDenied "The key must be in the Active state." else
  if !hasBit (o.mask.getD 0) bit then kerr Rsn.permissionDenied "The usage mask bit must be set." else
  pure o

def cryptoResult (uid : Option String) (cr : Crypto) : R (Effect × Data) :=
  match cr with
  | .ok t => pure (.none, .crypto (showUid uid) (.ok t))
  | .verdict b => pure (.none, .crypto (showUid uid) (.verdict b))
  | other => cryptoErr other

def opEncrypt (c : Ctx) (e : Engine) (uid : Option String) (hasParams : Bool) (cr : Crypto) : R (Effect × Data) := do
  let uid := uidOr uid e.placeholder
  let _ ← cryptoGuard c e uid hasParams OT.symmetricKey Mask.encrypt
  cryptoResult uid cr

def opDecrypt (c : Ctx) (e : Engine) (uid : Option String) (hasParams : Bool) (cr : Crypto) : R (Effect × Data) := do
  let uid := uidOr uid e.placeholder
  let _ ← cryptoGuard c e uid hasParams OT.symmetricKey Mask.decrypt
  cryptoResult uid cr

def opSign (c : Ctx) (e : Engine) (uid : Option String) (hasParams : Bool) (cr : Crypto) : R (Effect × Data) := do
  let uid := uidOr uid e.placeholder
  let _ ← cryptoGuard c e uid hasParams OT.privateKey Mask.sign
  cryptoResult uid cr

def opSignatureVerify (c : Ctx) (e : Engine) (uid : Option String) (hasParams : Bool) (cr : Crypto) :
    R (Effect × Data) := do
  let uid := uidOr uid e.placeholder
  let _ ← cryptoGuard c e uid hasParams OT.publicKey Mask.verify
  cryptoResult uid cr

def opMac (c : Ctx) (e : Engine) (uid : Option String) (paramAlg : Option Nat) (hasData : Bool) (cr : Crypto) :
    R (Effect × Data) := do
  let uid := uidOrObj uid e.placeholder
  let o ← getWithAccess c e uid Op.get
  if paramAlg.isNone && !(o.isKey && o.alg.isSome) then
    kerr Rsn.permissionDenied "The cryptographic algorithm must be specified for the MAC operation" else
  if o.value = "" then kerr Rsn.permissionDenied "A secret key value must be specified for the MAC operation" else
  if !hasData then kerr Rsn.permissionDenied "No data to be MACed" else
  -- `getattr(managed_object, 'state', None)` / `getattr(…, 'cryptographic_usage_masks', [])`
  if o.state != some St.active then
    kerr Rsn.permissionDenied "Object is not in a state that can be used for MACing." else
  if !hasBit (o.mask.getD 0) Mask.macGenerate then kerr Rsn.permissionDenied "MAC Generate must be set." else
  cryptoResult uid cr

/-! ### SetAttribute / ModifyAttribute / DeleteAttribute -/
def opSetAttribute (c : Ctx) (e : Engine) (uid : Option String) (a : TAttr) : R (Effect × Data) := do
  let uid := uidOr uid e.placeholder
  let o ← getWithAccess c e uid Op.setAttribute
  if (← c.isMultivalued a.name) then kerr Rsn.multiValuedAttribute "The attribute is multi-valued." else
  if !(← c.isModifiable a.name) then kerr Rsn.readOnlyAttribute "The attribute is read-only." else
  let o' ← setAttrs c o [(a.name, .single a.value)]
  pure (.update { o' with uid := o.uid }, .uid (showUid uid))

def gotLength : Option Got → R Nat
  | some (.multi vs) => pure vs.length
  | some (.single _) => ierr "len() of a single value"
  | none => pure 0          -- `if existing_attributes is None: existing_attributes = []`

def nthAttr (as : List TAttr) (i : Nat) (site : String) : R TAttr :=
  match as[i]? with
  | some m => pure m
  | none => ierr site

/-- 2.0: verify that the current attribute (or any value) exists -/
def checkCurrent (o : Obj) (name : String) (current : Option TAttr) : R Unit :=
  match current with
  | none =>
    match getAttr o name with
    | .ok none => kerr Rsn.attributeNotFound "The attribute is not set on the managed object."
    | .ok (some _) => pure ()
    | .error err => .error err
  | some cur =>
    match attrIndex o name cur.value with
    | .ok none => kerr Rsn.attributeNotFound "The specified current attribute could not be found on the managed object."
    | .ok (some _) => pure ()
    | .error err => .error err

def currentIndex (o : Obj) (name : String) (current : Option TAttr) : R Nat :=
  match current with
  | none => kerr Rsn.attributeInstanceNotFound "The attribute is multivalued so the current attribute must be specified."
  | some cur =>
    match attrIndex o name cur.value with
    | .ok none => kerr Rsn.attributeNotFound "The specified current attribute could not be found on the managed object."
    | .ok (some i) => pure i
    | .error err => .error err

/-- `current_attribute.tag != new_attribute.tag` -/
def currentMismatch (current : Option TAttr) (name : String) : Bool :=
  match current with
  | some cur => cur.name != name
  | none => false

/-- the modified object and the attribute echoed in the response -/
def modifyCore (c : Ctx) (ver : Nat) (o : Obj) (attr current new : Option TAttr) : R (Obj × Option TAttr) := do
  if ver ≥ 20 then
    match new with
    | none => ierr "payload.new_attribute is None"
    | some nw =>
      if !(← c.isModifiable nw.name) then kerr Rsn.permissionDenied "The attribute is read-only and cannot be modified." else
      if currentMismatch current nw.name then
        kerr Rsn.invalidField "The current attribute and the new attribute must be instances of the same attribute." else
      if (← c.isMultivalued nw.name) then
        let i ← currentIndex o nw.name current
        let o' ← setByIndex o nw.name nw.value i
        pure (o', none)
      else
        checkCurrent o nw.name current
        let o' ← setSingle o nw.name nw.value
        pure (o', none)
  else
    match attr with
    | none => ierr "payload.attribute is None"
    | some a =>
      if !(← c.isModifiable a.name) then kerr Rsn.permissionDenied "The attribute is read-only and cannot be modified." else
      if (← c.isMultivalued a.name) then
        let n ← gotLength (← getAttr o a.name)
        if 0 ≤ a.index.getD 0 && a.index.getD 0 < n then
          let o' ← setByIndex o a.name a.value (a.index.getD 0).toNat
          let as ← getAttrs c ver o' [a.name]
          let m ← nthAttr as (a.index.getD 0).toNat "existing_attributes[attribute_index]"
          pure (o', some m)
        else kerr Rsn.itemNotFound "No matching attribute instance could be found for the specified attribute index."
      else
        if a.index.isSome then kerr Rsn.invalidField "The attribute index cannot be specified for a single-valued attribute." else
        let existing ← getAttrs c ver o [a.name]
        if existing.isEmpty then kerr Rsn.invalidField "The attribute is not set on the managed object." else
        let o' ← setSingle o a.name a.value
        let as ← getAttrs c ver o' [a.name]
        let m ← nthAttr as 0 "existing_attributes[0]"
        pure (o', some m)

def opModifyAttribute (c : Ctx) (e : Engine) (uid : Option String) (attr current new : Option TAttr) :
    R (Effect × Data) := do
  let uid := uidOr uid e.placeholder
  let o ← getWithAccess c e uid Op.modifyAttribute
  let r ← modifyCore c e.version o attr current new
  pure (.update { r.1 with uid := o.uid }, .uidAttr (showUid uid) r.2)

/-- 1.x: the attribute instance echoed by DeleteAttribute -/
def deletedAttr (existing : List TAttr) (idx : Int) : R (Option TAttr) :=
  if existing.length > 0 then
    if idx == 0 then pure existing[0]?
    else if 0 ≤ idx && idx < existing.length then pure existing[idx.toNat]?
    else kerr Rsn.itemNotFound "Could not locate the attribute instance with the specified index"
  else pure none

def deleteCore (c : Ctx) (ver : Nat) (o : Obj) (name : Option String) (index : Option Int)
    (current : Option TAttr) (reference : Option String) : R (Obj × Option TAttr) := do
  if ver ≥ 20 then
    match current, reference with
    | some cur, _ =>
      let o' ← delAttr c o cur.name none (some cur.value)
      pure (o', none)
    | none, some r =>
      let o' ← delAttr c o r none none
      pure (o', none)
    | none, none => kerr Rsn.invalidMessage "The DeleteAttribute request must specify the current attribute or an attribute reference."
  else
    match name with
    | none => kerr Rsn.invalidMessage "The DeleteAttribute request must specify the attribute name."
    | some nm =>
      if nm = "" then kerr Rsn.invalidMessage "The DeleteAttribute request must specify the attribute name." else
      let existing ← getAttrs c ver o [nm]
      let deleted ← deletedAttr existing (index.getD 0)
      let o' ← delAttr c o nm (some (index.getD 0)) none
      pure (o', deleted)

def opDeleteAttribute (c : Ctx) (e : Engine) (uid : Option String) (name : Option String) (index : Option Int)
    (current : Option TAttr) (reference : Option String) : R (Effect × Data) := do
  let uid := uidOr uid e.placeholder
  let o ← getWithAccess c e uid Op.deleteAttribute
  let r ← deleteCore c e.version o name index current reference
  pure (.update { r.1 with uid := o.uid }, .uidAttr (showUid uid) r.2)

end Kmip
