/-
The composed server model: bytes on a connection → frames (M7 `Session`) → request decoding (M14 `Decode`) →
identity establishment (M7) → engine (M5 `processRequest`) → response envelope (`EngineResponse`).
Every component model is tied to /repo by its own correspondence check; this file only plugs them together
by instantiating the parameters of the session model (decoder, engine, its state) with the other models.
What stays a parameter: the cryptography backend (an oracle giving each batch item its answer), the clock and
the policies in force (`ctxOf`), and the length of an encoded response (`encLen`, the codec's business).
-/
import KmipModel.Session
import KmipModel.Decode
import KmipModel.EngineResponse
namespace Kmip.Server
open Kmip Kmip.Session

/-- the cryptography backend's answers for the items of a request, in order (missing answers = the backend
raised something that is not a KMIP error) -/
abbrev Oracle := Request → List Crypto

def fillCrypto (items : List Item) (answers : List Crypto) : List Item :=
  (items.zip (answers ++ List.replicate items.length Crypto.internal)).map (fun p => { p.1 with crypto := p.2 })

def withOracle (orc : Oracle) (req : Request) : Request :=
  { req with items := fillCrypto req.items (orc req) }

structure World where
  /-- clock and operation policies when a request arrives at the engine -/
  ctxOf : Engine → Ctx
  oracle : Oracle
  encLen : Response (List ItemResult) → Ver → Option Nat
  /-- `engine.default_protocol_version` as the decoder's default -/
  defaultVer : Nat := 12

def verOf (req : Request) : Ver := (req.version / 10, req.version % 10)

/-- `RequestMessage.read` as the session calls it -/
def parse (w : World) (bs : Bytes) : Option Request :=
  match Decode.decodeFrame w.defaultVer bs with
  | .ok r => some r
  | .error _ => none

/-- `engine.process_request(request, identity)`: the batch results with the requested maximum size and the
request's version, or the KMIP error that rejects the request as a whole -/
def engineEntry (w : World) (e : Engine) (req : Request) (id : Identity) : EngineOut (List ItemResult) × Engine :=
  match processRequest (w.ctxOf e) e id (withOracle w.oracle req) with
  | (e', .results rs) => (.ok rs (req.maxResponseSize.map Int.ofNat) (verOf req), e')
  | (e', .rejected reason _) => (.kmipError reason, e')

def serverEnv (w : World) : Env Request (List ItemResult) Engine where
  parse := parse w
  version := verOf
  engine := engineEntry w
  encLen := w.encLen

/-- one connection: the bytes the transport delivers (in whatever chunks) against an engine state -/
def serve (w : World) (cfg : SessionCfg) (peer : Option Cert) (e : Engine) (c : Conn) :
    List (Event Request (List ItemResult)) × Engine :=
  run (serverEnv w) cfg peer e c

end Kmip.Server
