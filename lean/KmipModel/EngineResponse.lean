/-
How the engine model's outcome (M5 `ReqResult`) becomes a response message tree (M1 items), by the composition
transcribed in `KmipModel/Envelope.lean` (`_process_batch` / `_build_response` / `build_error_response`).
The encoding of the response PAYLOAD contents is a parameter (it is the codec's business, C01); everything the
envelope talks about - header, batch count, per-item operation / ID / status / reason / message - is fixed here.
-/
import KmipModel.Engine.Batch
import KmipModel.Envelope
namespace Kmip.EngineResponse
open Kmip Kmip.TTLV

def bytesOf (s : String) : Bytes := s.toUTF8.toList

/-- protocol version as carried by the header: 12 ↦ (1, 2) -/
def verPair (v : Nat) : Int × Int := ((v / 10 : Nat), (v % 10 : Nat))

/-- `_process_batch`: a handler's payload, a KmipError (status Operation Failed, its reason and text), or any
other exception (General Failure with the fixed text) -/
def outcomeOf (enc : Data → List TTLV.Item) : Except Err Data → Envelope.Outcome
  | .ok d => .success (.struct Envelope.tResponsePayload (enc d))
  | .error (.kmip reason msg) => .failure 1 reason (bytesOf msg)
  | .error (.internal _) =>
    .failure 1 Rsn.generalFailure (bytesOf "Operation failed. See the server logs for more information.")

def itemOf (enc : Data → List TTLV.Item) (r : ItemResult) : Envelope.ItemResult :=
  ⟨some r.op, r.batchId.map bytesOf, outcomeOf enc r.result⟩

/-- the response message for a request: the batch results, or - when the request was rejected as a whole - the
one-item error response the session builds with the request's version -/
def responseOf (enc : Data → List TTLV.Item) (c : Ctx) (req : Request) : ReqResult → TTLV.Item
  | .results rs => Envelope.buildResponse (verPair req.version) c.now (rs.map (itemOf enc))
  | .rejected reason msg => Envelope.buildErrorResponse (verPair req.version) c.now reason (bytesOf msg)

end Kmip.EngineResponse
