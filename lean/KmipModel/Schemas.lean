/-
M3 — the schema table: one `Schema` per Struct class of /repo, transcribed by hand from its read()/write() pair
(file and lines in the comment of each entry).  Stage 2 covers the message envelope (messages.py, contents.py)
the payloads of Activate, Destroy, Revoke, MAC, DiscoverVersions, Get, GetAttributeList (request),
GetAttributes, Create, and the structures TemplateAttribute, Credential, UsernamePasswordCredential, Name,
EncryptionKeyInformation, KeyWrappingSpecification; the other classes are exercised on the
implementation only (C01 structure monitors) and listed as not-in-table in the evidence.

Deviations of the code that a flat field list cannot express are noted at the entry:
 * RequestMessage / ResponseMessage read `batch_count` items from the enclosing stream and do not check for
   trailing data (messages.py l.475-492, l.519-537): `many` here, the count is compared by the harness;
 * ResponseBatchItem reads the payload only when an Operation was present (l.415-421);
 * Authentication / Query need at least one element of their repeated field.
-/
import KmipModel.Schema
namespace Kmip.Schema

def tInt : Kind := .prim 2
def tEnum : Kind := .prim 5
def tBool : Kind := .prim 6
def tText : Kind := .prim 7
def tBytes : Kind := .prim 8
def tDate : Kind := .prim 9

/-- contents.py ProtocolVersion l.28-170 -/
def protocolVersion : Schema := ⟨"ProtocolVersion", 0x420069, [
  { tag := 0x42006A, kind := tInt, card := .one },
  { tag := 0x42006B, kind := tInt, card := .one }]⟩

/-- messages.py RequestHeader l.34-145 -/
def requestHeader : Schema := ⟨"RequestHeader", 0x420077, [
  { tag := 0x420069, kind := .struct, card := .one },      -- protocol version
  { tag := 0x420050, kind := tInt, card := .opt },         -- maximum response size
  { tag := 0x420007, kind := tBool, card := .opt },        -- asynchronous indicator
  { tag := 0x42000C, kind := .struct, card := .opt },      -- authentication
  { tag := 0x42000E, kind := tEnum, card := .opt },        -- batch error continuation option
  { tag := 0x420010, kind := tBool, card := .opt },        -- batch order option
  { tag := 0x420092, kind := tDate, card := .opt },        -- time stamp
  { tag := 0x42000D, kind := tInt, card := .one }]⟩        -- batch count

/-- messages.py ResponseHeader (read l.184-217, write l.219-248) -/
def responseHeader : Schema := ⟨"ResponseHeader", 0x42007A, [
  { tag := 0x420069, kind := .struct, card := .one },
  { tag := 0x420092, kind := tDate, card := .one },
  { tag := 0x420155, kind := tBytes, card := .opt, vmin := 20 },       -- server hashed password, KMIP 2.0
  { tag := 0x420106, kind := tText, card := .opt },                    -- server correlation value
  { tag := 0x42000D, kind := tInt, card := .one }]⟩

/-- messages.py RequestBatchItem l.252-348 -/
def requestBatchItem : Schema := ⟨"RequestBatchItem", 0x42000F, [
  { tag := 0x42005C, kind := tEnum, card := .one },                    -- operation
  { tag := 0x420154, kind := tBool, card := .opt, vmin := 20 },        -- ephemeral, KMIP 2.0
  { tag := 0x420093, kind := tBytes, card := .opt },                   -- unique batch item ID
  { tag := 0x420079, kind := .struct, card := .one },                  -- request payload
  { tag := 0x420051, kind := .struct, card := .opt }]⟩                 -- message extension

/-- messages.py ResponseBatchItem l.351-465 -/
def responseBatchItem : Schema := ⟨"ResponseBatchItem", 0x42000F, [
  { tag := 0x42005C, kind := tEnum, card := .opt },
  { tag := 0x420093, kind := tBytes, card := .opt },
  { tag := 0x42007F, kind := tEnum, card := .one },                    -- result status
  { tag := 0x42007E, kind := tEnum, card := .opt },                    -- result reason
  { tag := 0x42007D, kind := tText, card := .opt },                    -- result message
  { tag := 0x420006, kind := tBytes, card := .opt },                   -- asynchronous correlation value
  { tag := 0x42007C, kind := .struct, card := .opt },                  -- response payload
  { tag := 0x420051, kind := .struct, card := .opt }]⟩

/-- messages.py RequestMessage l.468-508 -/
def requestMessage : Schema := ⟨"RequestMessage", 0x420078, [
  { tag := 0x420077, kind := .struct, card := .one },
  { tag := 0x42000F, kind := .struct, card := .many }]⟩

/-- messages.py ResponseMessage l.511-556 -/
def responseMessage : Schema := ⟨"ResponseMessage", 0x42007B, [
  { tag := 0x42007A, kind := .struct, card := .one },
  { tag := 0x42000F, kind := .struct, card := .many }]⟩

/-- contents.py Authentication l.245-370 (at least one credential) -/
def authentication : Schema := ⟨"Authentication", 0x42000C, [
  { tag := 0x420023, kind := .struct, card := .many }]⟩

/-- payloads/activate.py -/
def activateRequest : Schema := ⟨"ActivateRequestPayload", 0x420079, [
  { tag := 0x420094, kind := tText, card := .opt }]⟩
def activateResponse : Schema := ⟨"ActivateResponsePayload", 0x42007C, [
  { tag := 0x420094, kind := tText, card := .one }]⟩

/-- payloads/destroy.py -/
def destroyRequest : Schema := ⟨"DestroyRequestPayload", 0x420079, [
  { tag := 0x420094, kind := tText, card := .opt }]⟩
def destroyResponse : Schema := ⟨"DestroyResponsePayload", 0x42007C, [
  { tag := 0x420094, kind := tText, card := .one }]⟩

/-- payloads/revoke.py; objects.py RevocationReason -/
def revokeRequest : Schema := ⟨"RevokeRequestPayload", 0x420079, [
  { tag := 0x420094, kind := tText, card := .opt },
  { tag := 0x420081, kind := .struct, card := .one },                  -- revocation reason
  { tag := 0x420021, kind := tDate, card := .opt }]⟩                   -- compromise occurrence date
def revokeResponse : Schema := ⟨"RevokeResponsePayload", 0x42007C, [
  { tag := 0x420094, kind := tText, card := .one }]⟩
def revocationReason : Schema := ⟨"RevocationReason", 0x420081, [
  { tag := 0x420082, kind := tEnum, card := .one },
  { tag := 0x420080, kind := tText, card := .opt }]⟩

/-- payloads/mac.py -/
def macRequest : Schema := ⟨"MACRequestPayload", 0x420079, [
  { tag := 0x420094, kind := tText, card := .opt },
  { tag := 0x42002B, kind := .struct, card := .opt },                  -- cryptographic parameters
  { tag := 0x4200C2, kind := tBytes, card := .one }]⟩                  -- data
def macResponse : Schema := ⟨"MACResponsePayload", 0x42007C, [
  { tag := 0x420094, kind := tText, card := .one },
  { tag := 0x4200C6, kind := tBytes, card := .one }]⟩                  -- MAC data

/-- payloads/discover_versions.py -/
def discoverVersionsRequest : Schema := ⟨"DiscoverVersionsRequestPayload", 0x420079, [
  { tag := 0x420069, kind := .struct, card := .many }]⟩
def discoverVersionsResponse : Schema := ⟨"DiscoverVersionsResponsePayload", 0x42007C, [
  { tag := 0x420069, kind := .struct, card := .many }]⟩

/-- payloads/get.py GetRequestPayload l.157-216 -/
def getRequest : Schema := ⟨"GetRequestPayload", 0x420079, [
  { tag := 0x420094, kind := tText, card := .opt },
  { tag := 0x420042, kind := tEnum, card := .opt },                    -- key format type
  { tag := 0x420041, kind := tEnum, card := .opt },                    -- key compression type
  { tag := 0x420047, kind := .struct, card := .opt }]⟩                 -- key wrapping specification

/-- payloads/get_attribute_list.py request l.73-103 -/
def getAttributeListRequest : Schema := ⟨"GetAttributeListRequestPayload", 0x420079, [
  { tag := 0x420094, kind := tText, card := .opt }]⟩

/-- payloads/get_attributes.py request l.115-190: attribute names below 2.0, attribute references from 2.0 -/
def getAttributesRequest : Schema := ⟨"GetAttributesRequestPayload", 0x420079, [
  { tag := 0x420094, kind := tText, card := .opt },
  { tag := 0x42000A, kind := tText, card := .many, vmax := 14 },
  { tag := 0x42013B, kind := .enumOrStruct, card := .many, vmin := 20 }]⟩

/-- payloads/get_attributes.py response l.347-399 -/
def getAttributesResponse : Schema := ⟨"GetAttributesResponsePayload", 0x42007C, [
  { tag := 0x420094, kind := tText, card := .one },
  { tag := 0x420008, kind := .struct, card := .many, vmax := 14 },     -- Attribute*
  { tag := 0x420125, kind := .struct, card := .one, vmin := 20 }]⟩     -- Attributes

/-- payloads/create.py request l.126-206, response l.412-468 -/
def createRequest : Schema := ⟨"CreateRequestPayload", 0x420079, [
  { tag := 0x420057, kind := tEnum, card := .one },                    -- object type
  { tag := 0x420091, kind := .struct, card := .one, vmax := 14 },      -- template attribute
  { tag := 0x420125, kind := .struct, card := .one, vmin := 20 },      -- attributes
  { tag := 0x42015F, kind := .struct, card := .opt, vmin := 20 }]⟩     -- protection storage masks
def createResponse : Schema := ⟨"CreateResponsePayload", 0x42007C, [
  { tag := 0x420057, kind := tEnum, card := .one },
  { tag := 0x420094, kind := tText, card := .one },
  { tag := 0x420091, kind := .struct, card := .opt, vmax := 14 }]⟩

/-- objects.py TemplateAttribute, Credential, UsernamePasswordCredential, EncryptionKeyInformation,
KeyWrappingSpecification; attributes.py Name -/
def templateAttribute : Schema := ⟨"TemplateAttribute", 0x420091, [
  { tag := 0x420053, kind := .struct, card := .many },                 -- Name*
  { tag := 0x420008, kind := .struct, card := .many }]⟩                -- Attribute*
def credential : Schema := ⟨"Credential", 0x420023, [
  { tag := 0x420024, kind := tEnum, card := .one },
  { tag := 0x420025, kind := .struct, card := .one }]⟩
def usernamePasswordCredential : Schema := ⟨"UsernamePasswordCredential", 0x420025, [
  { tag := 0x420099, kind := tText, card := .one },
  { tag := 0x4200A1, kind := tText, card := .opt }]⟩
def name : Schema := ⟨"Name", 0x420053, [
  { tag := 0x420055, kind := tText, card := .one },
  { tag := 0x420054, kind := tEnum, card := .one }]⟩
def encryptionKeyInformation : Schema := ⟨"EncryptionKeyInformation", 0x420036, [
  { tag := 0x420094, kind := tText, card := .one },
  { tag := 0x42002B, kind := .struct, card := .opt }]⟩
def keyWrappingSpecification : Schema := ⟨"KeyWrappingSpecification", 0x420047, [
  { tag := 0x42009E, kind := tEnum, card := .one },                    -- wrapping method
  { tag := 0x420036, kind := .struct, card := .opt },                  -- encryption key information
  { tag := 0x42004E, kind := .struct, card := .opt },                  -- MAC/signature key information
  { tag := 0x42000A, kind := tText, card := .many },                   -- attribute names
  { tag := 0x4200A3, kind := tEnum, card := .opt }]⟩                   -- encoding option

/-- payloads/create_key_pair.py response: the template attributes exist below KMIP 2.0 only (reader and writer) -/
def createKeyPairResponse : Schema := ⟨"CreateKeyPairResponsePayload", 0x42007C, [
  { tag := 0x420066, kind := tText, card := .one },                    -- private key unique identifier
  { tag := 0x42006F, kind := tText, card := .one },                    -- public key unique identifier
  { tag := 0x420065, kind := .struct, card := .opt, vmax := 14 },      -- private key template attribute
  { tag := 0x42006E, kind := .struct, card := .opt, vmax := 14 }]⟩     -- public key template attribute

def schemas : List Schema := [
  createKeyPairResponse, getRequest, getAttributeListRequest, getAttributesRequest, getAttributesResponse, createRequest, createResponse,
  templateAttribute, credential, usernamePasswordCredential, name, encryptionKeyInformation,
  keyWrappingSpecification,
  protocolVersion, requestHeader, responseHeader, requestBatchItem, responseBatchItem, requestMessage,
  responseMessage, authentication, activateRequest, activateResponse, destroyRequest, destroyResponse,
  revokeRequest, revokeResponse, revocationReason, macRequest, macResponse, discoverVersionsRequest,
  discoverVersionsResponse]

def versions : List Nat := [10, 11, 12, 13, 14, 20]

def schemaByName (n : String) : Option Schema := schemas.find? (fun s => s.name == n)

end Kmip.Schema
