/-
M1 — TTLV as the KMIP specification defines it (KMIP 1.x §9.1 / KMIP 2.0 "TTLV encoding").
Written from the specification text, NOT from /repo:

  §9.1.1.1 Item Tag     three bytes, first byte 0x42 (standard) or 0x54 (extension), big-endian
  §9.1.1.2 Item Type    one byte: 01 Structure, 02 Integer, 03 Long Integer, 04 Big Integer,
                        05 Enumeration, 06 Boolean, 07 Text String, 08 Byte String, 09 Date-Time,
                        0A Interval
  §9.1.1.3 Item Length  32-bit big-endian number of bytes in the Item Value (padding NOT counted,
                        except for Big Integer whose sign-extension bytes are part of the value);
                        mandated: Integer 4, Long Integer 8, Big Integer multiple of 8, Enumeration 4,
                        Boolean 8, Date-Time 8, Interval 4; Structure = total length of its (padded) items
  §9.1.1.4 Item Value   Integers/Long Integers/Big Integers big-endian two's complement, Enumerations and
                        Intervals unsigned 32-bit, Booleans the 8-byte values 0 and 1, Text String UTF-8
                        bytes without terminator, Date-Time a signed 64-bit POSIX time; Integer,
                        Enumeration, Interval, Text String and Byte String values are followed by zero
                        bytes up to the next multiple of 8.

`Item` is the value tree, `encode` the serialiser, `decode` a strict parser (fuel = input length is
always enough), `WF` the well-formedness predicate stated from the text above without reference to
`encode`/`decode`.  A Big Integer carries its encoded length so that every accepted byte string is
represented exactly; `PVal.minimal`/`Item.canonical` say that no redundant sign-extension group is
present (the "minimal number of leading sign-extended bytes" reading of §9.1.1.4).

Not modelled: UTF-8 validity of Text String content (bytes are kept as they are); the Date-Time Extended
type (0x0B, KMIP 2.0 only — /repo never emits it).
-/
import KmipModel.Bytes
namespace Kmip.TTLV

inductive PVal where
  | integer (v : Int)
  | longInteger (v : Int)
  | bigInteger (v : Int) (len : Nat)
  | enumeration (v : Nat)
  | boolean (b : Bool)
  | textString (s : Bytes)
  | byteString (s : Bytes)
  | dateTime (v : Int)
  | interval (v : Nat)
  deriving DecidableEq, Repr

inductive Item where
  | prim (tag : Nat) (v : PVal)
  | struct (tag : Nat) (kids : List Item)
  deriving Repr

/-- §9.1.1.1: standard tags 42xxxx, extension tags 54xxxx -/
def tagOk (t : Nat) : Bool := (0x420000 ≤ t && t < 0x430000) || (0x540000 ≤ t && t < 0x550000)

def PVal.typeCode : PVal → Nat
  | .integer _ => 2
  | .longInteger _ => 3
  | .bigInteger _ _ => 4
  | .enumeration _ => 5
  | .boolean _ => 6
  | .textString _ => 7
  | .byteString _ => 8
  | .dateTime _ => 9
  | .interval _ => 10

/-- the Item Value without padding -/
def PVal.valBytes : PVal → Bytes
  | .integer v => be 4 (toTC 4 v)
  | .longInteger v => be 8 (toTC 8 v)
  | .bigInteger v len => be len (toTC len v)
  | .enumeration v => be 4 v
  | .boolean b => be 8 (if b then 1 else 0)
  | .textString s => s
  | .byteString s => s
  | .dateTime v => be 8 (toTC 8 v)
  | .interval v => be 4 v

/-- values that have an encoding: ranges of the fixed-width types, 32-bit length field -/
def PVal.Valid : PVal → Prop
  | .integer v => fitsTC 4 v
  | .longInteger v => fitsTC 8 v
  | .bigInteger v len => len % 8 = 0 ∧ 0 < len ∧ len < 256 ^ 4 ∧ fitsTC len v
  | .enumeration v => v < 256 ^ 4
  | .boolean _ => True
  | .textString s => s.length < 256 ^ 4
  | .byteString s => s.length < 256 ^ 4
  | .dateTime v => fitsTC 8 v
  | .interval v => v < 256 ^ 4

instance (v : PVal) : Decidable v.Valid := by
  cases v <;> unfold PVal.Valid <;> exact inferInstance

/-- smallest multiple of 8 bytes that holds `v` in two's complement -/
def bigLen (v : Int) : Nat := 8 * (bitlen (if 0 ≤ v then v.toNat else (-v - 1).toNat) / 64 + 1)

/-- no redundant sign-extension group in a Big Integer -/
def PVal.minimal : PVal → Bool
  | .bigInteger v len => len == bigLen v
  | _ => true

def header (t ty len : Nat) : Bytes := be 3 t ++ (be 1 ty ++ be 4 len)

mutual
def encode : Item → Bytes
  | .prim t v => header t v.typeCode v.valBytes.length ++ (v.valBytes ++ zeros (padLen v.valBytes.length))
  | .struct t ks => header t 1 (encodeList ks).length ++ encodeList ks
def encodeList : List Item → Bytes
  | [] => []
  | i :: is => encode i ++ encodeList is
end

mutual
def Item.Valid : Item → Prop
  | .prim t v => tagOk t = true ∧ v.Valid
  | .struct t ks => tagOk t = true ∧ validList ks ∧ (encodeList ks).length < 256 ^ 4
def validList : List Item → Prop
  | [] => True
  | i :: is => i.Valid ∧ validList is
end

mutual
def Item.canonical : Item → Bool
  | .prim _ v => v.minimal
  | .struct _ ks => canonicalList ks
def canonicalList : List Item → Bool
  | [] => true
  | i :: is => i.canonical && canonicalList is
end

/-- drop redundant sign-extension groups (the canonical form of a value) -/
def PVal.canon : PVal → PVal
  | .bigInteger v _ => .bigInteger v (bigLen v)
  | v => v

mutual
def Item.canon : Item → Item
  | .prim t v => .prim t v.canon
  | .struct t ks => .struct t (canonList ks)
def canonList : List Item → List Item
  | [] => []
  | i :: is => i.canon :: canonList is
end

/-! ### strict decoder -/

def splitHeader (bs : Bytes) : Option (Nat × Nat × Nat × Bytes) :=
  match takeExact 3 bs with
  | none => none
  | some (tg, r1) =>
    match takeExact 1 r1 with
    | none => none
    | some (ty, r2) =>
      match takeExact 4 r2 with
      | none => none
      | some (ln, r3) => some (ofBE tg, ofBE ty, ofBE ln, r3)

/-- value of a primitive from its type code, declared length and value bytes; rejects wrong fixed
lengths, Big Integer lengths that are not a positive multiple of 8, Booleans other than 0/1, unknown types -/
def decodeVal (ty len : Nat) (value : Bytes) : Option PVal :=
  if ty = 2 then (if len = 4 then some (.integer (ofTC 4 (ofBE value))) else none)
  else if ty = 3 then (if len = 8 then some (.longInteger (ofTC 8 (ofBE value))) else none)
  else if ty = 4 then (if len % 8 = 0 ∧ 0 < len then some (.bigInteger (ofTC len (ofBE value)) len) else none)
  else if ty = 5 then (if len = 4 then some (.enumeration (ofBE value)) else none)
  else if ty = 6 then
    (if len = 8 then
      (if ofBE value = 0 then some (.boolean false)
       else if ofBE value = 1 then some (.boolean true) else none)
     else none)
  else if ty = 7 then some (.textString value)
  else if ty = 8 then some (.byteString value)
  else if ty = 9 then (if len = 8 then some (.dateTime (ofTC 8 (ofBE value))) else none)
  else if ty = 10 then (if len = 4 then some (.interval (ofBE value)) else none)
  else none

mutual
/-- one item from the front of `bs`; the remainder is returned -/
def decode : Nat → Bytes → Option (Item × Bytes)
  | 0, _ => none
  | f + 1, bs =>
    match splitHeader bs with
    | none => none
    | some (t, ty, len, rest) =>
      if tagOk t = true then
        if ty = 1 then
          match takeExact len rest with
          | none => none
          | some (body, rest') =>
            match decodeList f body with
            | none => none
            | some ks => some (.struct t ks, rest')
        else
          match takeExact len rest with
          | none => none
          | some (value, r1) =>
            match takeExact (padLen len) r1 with
            | none => none
            | some (pad, r2) =>
              if allZero pad = true then
                match decodeVal ty len value with
                | none => none
                | some v => some (.prim t v, r2)
              else none
      else none
/-- a sequence of items that must use up `bs` entirely (no trailing garbage inside a structure) -/
def decodeList : Nat → Bytes → Option (List Item)
  | _, [] => some []
  | 0, _ :: _ => none
  | f + 1, b :: bs =>
    match decode f (b :: bs) with
    | none => none
    | some (i, rest) =>
      match decodeList f rest with
      | none => none
      | some is => some (i :: is)
end

/-- a whole byte string is exactly one item -/
def decodeAll (bs : Bytes) : Option Item :=
  match decode bs.length bs with
  | some (i, []) => some i
  | _ => none

/-! ### well-formedness, stated from the specification text -/

/-- per-type constraints on declared length and value bytes (§9.1.1.3 / §9.1.1.4) -/
def primOk (ty len : Nat) (value : Bytes) : Prop :=
  (ty = 2 ∧ len = 4) ∨ (ty = 3 ∧ len = 8) ∨ (ty = 4 ∧ len % 8 = 0 ∧ 0 < len) ∨ (ty = 5 ∧ len = 4) ∨
  (ty = 6 ∧ len = 8 ∧ (value = [0, 0, 0, 0, 0, 0, 0, 0] ∨ value = [0, 0, 0, 0, 0, 0, 0, 1])) ∨
  ty = 7 ∨ ty = 8 ∨ (ty = 9 ∧ len = 8) ∨ (ty = 10 ∧ len = 4)

mutual
/-- `bs` is exactly one well-formed TTLV item -/
inductive WF : Bytes → Prop
  | prim (t ty len : Nat) (value : Bytes) :
      tagOk t = true → value.length = len → len < 256 ^ 4 → primOk ty len value →
      WF (be 3 t ++ (be 1 ty ++ (be 4 len ++ (value ++ zeros (padLen len)))))
  | struct (t : Nat) (body : Bytes) :
      tagOk t = true → body.length < 256 ^ 4 → WFList body →
      WF (be 3 t ++ (be 1 1 ++ (be 4 body.length ++ body)))
/-- `bs` is a concatenation of well-formed items -/
inductive WFList : Bytes → Prop
  | nil : WFList []
  | cons (a b : Bytes) : WF a → WFList b → WFList (a ++ b)
end

end Kmip.TTLV
