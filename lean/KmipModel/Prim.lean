/-
M2 — the primitive codecs of /repo/kmip/core/primitives.py as they are, quirks included.

Transcribed from (line numbers of kmip/core/primitives.py):
  Base.write_tag / write_type / write_length            l.109-133  (`pack('!I', tag)[1:]`, length overflow check)
  Base.read_tag / read_type / read_length               l.47-99    (tag and type must equal the expected ones)
  Integer      validate l.239-256, write l.231-237, read l.206-229 (`!i`, 4 value bytes + 4 pad bytes, pad must be 0)
  LongInteger  validate l.371-390, write l.357-369, read l.331-355 (`!q`)
  BigInteger   write l.479-513 (bit-string algorithm: width 64*(len(bin|v|)//64+1) bits, two's complement by
               invert-and-increment), read l.429-477 (length % 8, zero length is an IndexError)
               — modelled arithmetically, see `pyBigLen`
  Enumeration  validate l.633-659 (MAX = 4294967296, one too many), write l.618-631 (`!I`), read l.583-616
  Boolean      write l.754-784 (`!Q`), read l.710-752 (the declared length is NOT checked; 8 bytes are read)
  TextString   __init__ l.821-839 (length = number of characters), write_value l.869-876 (`pack('!c', char.encode())`:
               a non-ASCII character encodes to 2+ bytes and `pack` raises), read_value l.841-862 (`c.decode()`
               of a single byte >= 0x80 raises)
  ByteString   l.911-975
  DateTime     = LongInteger with type 9 (l.1008-1038)
  Interval     validate l.1114-1132 (MAX = 4294967296, one too many), write l.1099-1112, read l.1064-1097

Encoders return `Except` so that "constructible (validate passes) but write raises" is expressible.
-/
import KmipModel.Bytes
namespace Kmip.Prim
open Kmip.TTLV

/-- a value held by one of the primitive classes (Python ints are unbounded, text is a list of code points) -/
inductive PyVal where
  | integer (v : Int)
  | longInteger (v : Int)
  | bigInteger (v : Int)
  | enumeration (v : Int)
  | boolean (b : Bool)
  | textString (cps : List Nat)
  | byteString (s : Bytes)
  | dateTime (v : Int)
  | interval (v : Int)
  deriving DecidableEq, Repr

inductive EncErr where
  | packRange        -- struct.error: number out of range for the format
  | nonAscii         -- struct.error: char format requires a bytes object of length 1
  | lengthOverflow   -- WriteOverflowError from write_length
  deriving DecidableEq, Repr

inductive DecErr where
  | short | tag | type | length | pad | value
  deriving DecidableEq, Repr

/-- enums.Types value written by the class -/
def PyVal.typeCode : PyVal → Nat
  | .integer _ => 2
  | .longInteger _ => 3
  | .bigInteger _ => 4
  | .enumeration _ => 5
  | .boolean _ => 6
  | .textString _ => 7
  | .byteString _ => 8
  | .dateTime _ => 9
  | .interval _ => 10

/-- `validate()` passes, i.e. the constructor accepts the value -/
def PyVal.constructible : PyVal → Prop
  | .integer v => -2147483648 ≤ v ∧ v ≤ 2147483647
  | .longInteger v => -9223372036854775808 ≤ v ∧ v ≤ 9223372036854775807
  | .bigInteger _ => True
  | .enumeration v => 0 ≤ v ∧ v ≤ 4294967296
  | .boolean _ => True
  | .textString _ => True
  | .byteString _ => True
  | .dateTime v => -9223372036854775808 ≤ v ∧ v ≤ 9223372036854775807
  | .interval v => 0 ≤ v ∧ v ≤ 4294967296

instance (v : PyVal) : Decidable v.constructible := by
  cases v <;> unfold PyVal.constructible <;> exact inferInstance

/-- number of bytes BigInteger.write emits: `len("{0:b}".format(abs v))` rounded up to the NEXT multiple of 64 bits
(a full extra group when the bit length already is a multiple of 64) -/
def pyBigLen (v : Int) : Nat := 8 * (bitlen v.natAbs / 64 + 1)

/-- `struct.pack` of a signed number on `n` bytes (`!i`, `!q`): range checked -/
def packSigned (n : Nat) (v : Int) : Except EncErr Bytes :=
  if fitsTC n v then .ok (be n (toTC n v)) else .error .packRange

/-- `struct.pack` of an unsigned number on `n` bytes (`!I`, `!Q`): range checked -/
def packUnsigned (n : Nat) (v : Int) : Except EncErr Bytes :=
  if 0 ≤ v ∧ v < ((256 ^ n : Nat) : Int) then .ok (be n v.toNat) else .error .packRange

/-- TextString.write_value: one byte per character, ASCII only -/
def packText : List Nat → Except EncErr Bytes
  | [] => .ok []
  | c :: cs => if c < 128 then (packText cs).map (UInt8.ofNat c :: ·) else .error .nonAscii

/-- value bytes (declared length many) and the pad bytes written after them -/
def pyValue : PyVal → Except EncErr (Bytes × Bytes)
  | .integer v => (packSigned 4 v).map (·, zeros 4)
  | .longInteger v => (packSigned 8 v).map (·, [])
  | .bigInteger v =>
      let n := pyBigLen v
      .ok (if 0 ≤ v then be n v.natAbs else be n (256 ^ n - v.natAbs), [])
  | .enumeration v => (packUnsigned 4 v).map (·, zeros 4)
  | .boolean b => .ok (be 8 (if b then 1 else 0), [])
  | .textString cps => (packText cps).map (fun bs => (bs, zeros (padLen cps.length)))
  | .byteString s => .ok (s, zeros (padLen s.length))
  | .dateTime v => (packSigned 8 v).map (·, [])
  | .interval v => (packUnsigned 4 v).map (·, zeros 4)

/-- the `length` attribute written by write_length -/
def pyLength : PyVal → Nat
  | .integer _ => 4
  | .longInteger _ => 8
  | .bigInteger v => pyBigLen v
  | .enumeration _ => 4
  | .boolean _ => 8
  | .textString cps => cps.length
  | .byteString s => s.length
  | .dateTime _ => 8
  | .interval _ => 4

/-- `X(value, tag).write(stream)`: tag (low three bytes of `pack('!I', tag)`), type, length, value, padding -/
def pyEncode (tag : Nat) (v : PyVal) : Except EncErr Bytes :=
  if pyLength v < 256 ^ 4 then
    match pyValue v with
    | .ok (value, pad) => .ok (be 3 tag ++ (be 1 v.typeCode ++ (be 4 (pyLength v) ++ (value ++ pad))))
    | .error e => .error e
  else .error .lengthOverflow

/-- `write` of an object whose fields were set by `read` instead of the constructor.  The only class for which
this differs: TextString.read_value (l.851-853) computes `padding_length = 8 - length % 8` and skips the pad
bytes when that is 8, but — unlike ByteString.read_value (l.943-946) — never resets the attribute to 0, so a
decoded TextString whose length is a multiple of 8 writes eight zero bytes after its value. -/
def pyReencode (tag : Nat) (v : PyVal) : Except EncErr Bytes :=
  match v with
  | .textString cps => if cps.length % 8 = 0 then (pyEncode tag v).map (· ++ zeros 8) else pyEncode tag v
  | _ => pyEncode tag v

/-! ### decoders -/

def readHeader (tag ty : Nat) (bs : Bytes) : Except DecErr (Nat × Bytes) :=
  match takeExact 3 bs with
  | none => .error .short
  | some (tg, r1) =>
    if ofBE tg = tag then
      match takeExact 1 r1 with
      | none => .error .short
      | some (tyb, r2) =>
        if ofBE tyb = ty then
          match takeExact 4 r2 with
          | none => .error .short
          | some (ln, r3) => .ok (ofBE ln, r3)
        else .error .type
    else .error .tag

/-- value + 4 pad bytes of the 32-bit classes -/
def read4Pad (r : Bytes) : Except DecErr (Nat × Bytes) :=
  match takeExact 4 r with
  | none => .error .short
  | some (vb, r1) =>
    match takeExact 4 r1 with
    | none => .error .short
    | some (pb, r2) => if ofBE pb = 0 then .ok (ofBE vb, r2) else .error .pad

def readPadded (len : Nat) (r : Bytes) : Except DecErr (Bytes × Bytes) :=
  match takeExact len r with
  | none => .error .short
  | some (vb, r1) =>
    match takeExact (padLen len) r1 with
    | none => .error .short
    | some (pb, r2) => if allZero pb then .ok (vb, r2) else .error .pad

/-- `X(tag=tag).read(stream)` for the class `ty`; `member` is the enumeration class's membership test.
Returns the value and what is left in the stream.  Only accept/reject, the value and the remainder are meant
to be faithful; WHICH error is raised first is not (the correspondence does not observe it). -/
def pyDecode (ty : Nat) (tag : Nat) (member : Nat → Bool) (bs : Bytes) : Except DecErr (PyVal × Bytes) :=
  match readHeader tag ty bs with
  | .error e => .error e
  | .ok (len, r) =>
    if ty = 2 then
      (if len = 4 then (read4Pad r).map (fun (x, r') => (.integer (ofTC 4 x), r')) else .error .length)
    else if ty = 3 then
      (if len = 8 then
        match takeExact 8 r with
        | none => .error .short
        | some (vb, r') => .ok (.longInteger (ofTC 8 (ofBE vb)), r')
       else .error .length)
    else if ty = 4 then
      (if len % 8 = 0 then
        (if len = 0 then .error .value else
          match takeExact len r with
          | none => .error .short
          | some (vb, r') => .ok (.bigInteger (ofTC len (ofBE vb)), r'))
       else .error .length)
    else if ty = 5 then
      (if len = 4 then
        match read4Pad r with
        | .error e => .error e
        | .ok (x, r') => if member x then .ok (.enumeration x, r') else .error .value
       else .error .length)
    else if ty = 6 then
      match takeExact 8 r with
      | none => .error .short
      | some (vb, r') =>
        if ofBE vb = 1 then .ok (.boolean true, r')
        else if ofBE vb = 0 then .ok (.boolean false, r') else .error .value
    else if ty = 7 then
      match readPadded len r with
      | .error e => .error e
      | .ok (vb, r') =>
        if vb.all (fun b => b.toNat < 128) then .ok (.textString (vb.map UInt8.toNat), r') else .error .value
    else if ty = 8 then
      (readPadded len r).map (fun (vb, r') => (.byteString vb, r'))
    else if ty = 9 then
      (if len = 8 then
        match takeExact 8 r with
        | none => .error .short
        | some (vb, r') => .ok (.dateTime (ofTC 8 (ofBE vb)), r')
       else .error .length)
    else if ty = 10 then
      (if len = 4 then (read4Pad r).map (fun (x, r') => (.interval x, r')) else .error .length)
    else .error .type

end Kmip.Prim
