/-
M2 — the primitive codecs of /repo/kmip/core/primitives.py as they are (after the fix commits 0d11984, bfd0b64,
a1ba6ef, 92c759e).

Transcribed from kmip/core/primitives.py:
  Base.write_tag / write_type / write_length   (`pack('!I', tag)[1:]`, length overflow check)
  Base.read_tag / read_type / read_length      (tag and type must equal the expected ones)
  Integer      validate, write, read (`!i`, 4 value bytes + 4 pad bytes, pad must be 0)
  LongInteger  validate, write, read (`!q`)
  BigInteger   write (bit-string algorithm: width = the smallest multiple of 64 bits that holds the value in two's
               complement, decided by abs(v) for v >= 0 and abs(v) - 1 for v < 0; two's complement by
               invert-and-increment), read (length % 8, zero length is an IndexError) — modelled arithmetically
  Enumeration  validate (MAX = 4294967295), write (`!I`), read
  Boolean      write (`!Q`), read (the declared length is NOT checked; 8 bytes are read)
  TextString   __init__ (length = number of bytes of `value.encode('utf-8')`), write_value (those bytes + zero
               padding), read_value (`length` bytes, `data.decode('utf-8')`, padding_length reset to 0 when 8)
  ByteString
  DateTime     = LongInteger with type 9
  Interval     validate (MAX = 4294967295), write, read

TEXT.  A TextString value (a Python `str`) is represented here by its UTF-8 encoding, a byte string satisfying
`validUtf8` (RFC 3629 / Unicode table 3-7: shortest form, no surrogates, at most U+10FFFF).  ASSUMED, not proved:
CPython's `str.encode('utf-8')` and `bytes.decode('utf-8')` (strict) are mutually inverse bijections between
the strs `encode` accepts (those without lone surrogates) and the byte strings satisfying `validUtf8`, and
`decode` raises on every other byte string.  Under this assumption `constructible (.textString s) = validUtf8 s`
is "the constructor accepts the str" (it calls `encode` to compute the length) and equality of byte strings is
equality of strs.  The correspondence exercises the assumption on 1-, 2-, 3- and 4-byte sequences, boundary
code points and mutated encodings on every run.

Encoders return `Except` so that "constructible (validate passes) but write raises" stays expressible (today:
only values whose length does not fit the 32-bit length field).
-/
import KmipModel.Bytes
namespace Kmip.Prim
open Kmip.TTLV

/-- a value held by one of the primitive classes (Python ints are unbounded, text is its UTF-8 encoding) -/
inductive PyVal where
  | integer (v : Int)
  | longInteger (v : Int)
  | bigInteger (v : Int)
  | enumeration (v : Int)
  | boolean (b : Bool)
  | textString (utf8 : Bytes)
  | byteString (s : Bytes)
  | dateTime (v : Int)
  | interval (v : Int)
  deriving DecidableEq, Repr

inductive EncErr where
  | packRange        -- struct.error: number out of range for the format
  | notUtf8          -- not a value a TextString can hold (see TEXT above); never raised by /repo
  | lengthOverflow   -- WriteOverflowError from write_length
  deriving DecidableEq, Repr

inductive DecErr where
  | short | tag | type | length | pad | value
  deriving DecidableEq, Repr

/-- enums.Types value written by the class -/
def PyVal.typeCode : PyVal → Nat
  | .integer _ => 2
  | .longInteger _ => 3
  | .bigInteger _ => 4
  | .enumeration _ => 5
  | .boolean _ => 6
  | .textString _ => 7
  | .byteString _ => 8
  | .dateTime _ => 9
  | .interval _ => 10

/-- well-formed UTF-8 (Unicode table 3-7) -/
def validUtf8 : Bytes → Bool
  | [] => true
  | b0 :: rest =>
    if b0 < 0x80 then validUtf8 rest
    else if 0xC2 ≤ b0 ∧ b0 ≤ 0xDF then
      (match rest with
       | b1 :: r => (0x80 ≤ b1 && b1 ≤ 0xBF) && validUtf8 r
       | _ => false)
    else if 0xE0 ≤ b0 ∧ b0 ≤ 0xEF then
      (match rest with
       | b1 :: b2 :: r =>
         ((if b0 = 0xE0 then 0xA0 ≤ b1 && b1 ≤ 0xBF
           else if b0 = 0xED then 0x80 ≤ b1 && b1 ≤ 0x9F
           else 0x80 ≤ b1 && b1 ≤ 0xBF) && (0x80 ≤ b2 && b2 ≤ 0xBF)) && validUtf8 r
       | _ => false)
    else if 0xF0 ≤ b0 ∧ b0 ≤ 0xF4 then
      (match rest with
       | b1 :: b2 :: b3 :: r =>
         ((if b0 = 0xF0 then 0x90 ≤ b1 && b1 ≤ 0xBF
           else if b0 = 0xF4 then 0x80 ≤ b1 && b1 ≤ 0x8F
           else 0x80 ≤ b1 && b1 ≤ 0xBF) && (0x80 ≤ b2 && b2 ≤ 0xBF) && (0x80 ≤ b3 && b3 ≤ 0xBF)) && validUtf8 r
       | _ => false)
    else false

/-- `validate()` passes, i.e. the constructor accepts the value -/
def PyVal.constructible : PyVal → Prop
  | .integer v => -2147483648 ≤ v ∧ v ≤ 2147483647
  | .longInteger v => -9223372036854775808 ≤ v ∧ v ≤ 9223372036854775807
  | .bigInteger _ => True
  | .enumeration v => 0 ≤ v ∧ v ≤ 4294967295
  | .boolean _ => True
  | .textString s => validUtf8 s = true
  | .byteString _ => True
  | .dateTime v => -9223372036854775808 ≤ v ∧ v ≤ 9223372036854775807
  | .interval v => 0 ≤ v ∧ v ≤ 4294967295

instance (v : PyVal) : Decidable v.constructible := by
  cases v <;> unfold PyVal.constructible <;> exact inferInstance

/-- number of bytes BigInteger.write emits: `len(sizing)` rounded up to the next multiple of 64 bits, where
`sizing` is the binary text of `abs v` (v >= 0) or of `abs v - 1` (v < 0) -/
def pyBigLen (v : Int) : Nat := 8 * (bitlen (if 0 ≤ v then v.natAbs else v.natAbs - 1) / 64 + 1)

/-- `struct.pack` of a signed number on `n` bytes (`!i`, `!q`): range checked -/
def packSigned (n : Nat) (v : Int) : Except EncErr Bytes :=
  if fitsTC n v then .ok (be n (toTC n v)) else .error .packRange

/-- `struct.pack` of an unsigned number on `n` bytes (`!I`, `!Q`): range checked -/
def packUnsigned (n : Nat) (v : Int) : Except EncErr Bytes :=
  if 0 ≤ v ∧ v < ((256 ^ n : Nat) : Int) then .ok (be n v.toNat) else .error .packRange

/-- TextString.write_value: the UTF-8 bytes of the str (the error branch is never reached from /repo: such a
value cannot be held by a TextString) -/
def packText (s : Bytes) : Except EncErr Bytes := if validUtf8 s then .ok s else .error .notUtf8

/-- value bytes (declared length many) and the pad bytes written after them -/
def pyValue : PyVal → Except EncErr (Bytes × Bytes)
  | .integer v => (packSigned 4 v).map (·, zeros 4)
  | .longInteger v => (packSigned 8 v).map (·, [])
  | .bigInteger v =>
      let n := pyBigLen v
      .ok (if 0 ≤ v then be n v.natAbs else be n (256 ^ n - v.natAbs), [])
  | .enumeration v => (packUnsigned 4 v).map (·, zeros 4)
  | .boolean b => .ok (be 8 (if b then 1 else 0), [])
  | .textString s => (packText s).map (fun bs => (bs, zeros (padLen s.length)))
  | .byteString s => .ok (s, zeros (padLen s.length))
  | .dateTime v => (packSigned 8 v).map (·, [])
  | .interval v => (packUnsigned 4 v).map (·, zeros 4)

/-- the `length` attribute written by write_length -/
def pyLength : PyVal → Nat
  | .integer _ => 4
  | .longInteger _ => 8
  | .bigInteger v => pyBigLen v
  | .enumeration _ => 4
  | .boolean _ => 8
  | .textString s => s.length
  | .byteString s => s.length
  | .dateTime _ => 8
  | .interval _ => 4

/-- `X(value, tag).write(stream)`: tag (low three bytes of `pack('!I', tag)`), type, length, value, padding -/
def pyEncode (tag : Nat) (v : PyVal) : Except EncErr Bytes :=
  if pyLength v < 256 ^ 4 then
    match pyValue v with
    | .ok (value, pad) => .ok (be 3 tag ++ (be 1 v.typeCode ++ (be 4 (pyLength v) ++ (value ++ pad))))
    | .error e => .error e
  else .error .lengthOverflow

/-- `padding_length` as TextString.read_value / ByteString.read_value leave it behind:
`8 - length % 8`, reset to 0 when that is 8 -/
def decodedPad (len : Nat) : Nat := if 8 - len % 8 = 8 then 0 else 8 - len % 8

/-- `write` of an object whose fields were set by `read` instead of the constructor: the same as `pyEncode`
except that Text / Byte Strings use the padding length computed by `read_value` (`decodedPad`) -/
def pyReencode (tag : Nat) (v : PyVal) : Except EncErr Bytes :=
  if pyLength v < 256 ^ 4 then
    match v, pyValue v with
    | .textString s, .ok (value, _) =>
      .ok (be 3 tag ++ (be 1 v.typeCode ++ (be 4 (pyLength v) ++ (value ++ zeros (decodedPad s.length)))))
    | .byteString s, .ok (value, _) =>
      .ok (be 3 tag ++ (be 1 v.typeCode ++ (be 4 (pyLength v) ++ (value ++ zeros (decodedPad s.length)))))
    | _, .ok (value, pad) => .ok (be 3 tag ++ (be 1 v.typeCode ++ (be 4 (pyLength v) ++ (value ++ pad))))
    | _, .error e => .error e
  else .error .lengthOverflow

/-! ### decoders -/

def readHeader (tag ty : Nat) (bs : Bytes) : Except DecErr (Nat × Bytes) :=
  match takeExact 3 bs with
  | none => .error .short
  | some (tg, r1) =>
    if ofBE tg = tag then
      match takeExact 1 r1 with
      | none => .error .short
      | some (tyb, r2) =>
        if ofBE tyb = ty then
          match takeExact 4 r2 with
          | none => .error .short
          | some (ln, r3) => .ok (ofBE ln, r3)
        else .error .type
    else .error .tag

/-- value + 4 pad bytes of the 32-bit classes -/
def read4Pad (r : Bytes) : Except DecErr (Nat × Bytes) :=
  match takeExact 4 r with
  | none => .error .short
  | some (vb, r1) =>
    match takeExact 4 r1 with
    | none => .error .short
    | some (pb, r2) => if ofBE pb = 0 then .ok (ofBE vb, r2) else .error .pad

def readPadded (len : Nat) (r : Bytes) : Except DecErr (Bytes × Bytes) :=
  match takeExact len r with
  | none => .error .short
  | some (vb, r1) =>
    match takeExact (padLen len) r1 with
    | none => .error .short
    | some (pb, r2) => if allZero pb then .ok (vb, r2) else .error .pad

/-- `X(tag=tag).read(stream)` for the class `ty`; `member` is the enumeration class's membership test.
Returns the value and what is left in the stream.  Only accept/reject, the value and the remainder are meant
to be faithful; WHICH error is raised first is not (the correspondence does not observe it). -/
def pyDecode (ty : Nat) (tag : Nat) (member : Nat → Bool) (bs : Bytes) : Except DecErr (PyVal × Bytes) :=
  match readHeader tag ty bs with
  | .error e => .error e
  | .ok (len, r) =>
    if ty = 2 then
      (if len = 4 then (read4Pad r).map (fun (x, r') => (.integer (ofTC 4 x), r')) else .error .length)
    else if ty = 3 then
      (if len = 8 then
        match takeExact 8 r with
        | none => .error .short
        | some (vb, r') => .ok (.longInteger (ofTC 8 (ofBE vb)), r')
       else .error .length)
    else if ty = 4 then
      (if len % 8 = 0 then
        (if len = 0 then .error .value else
          match takeExact len r with
          | none => .error .short
          | some (vb, r') => .ok (.bigInteger (ofTC len (ofBE vb)), r'))
       else .error .length)
    else if ty = 5 then
      (if len = 4 then
        match read4Pad r with
        | .error e => .error e
        | .ok (x, r') => if member x then .ok (.enumeration x, r') else .error .value
       else .error .length)
    else if ty = 6 then
      match takeExact 8 r with
      | none => .error .short
      | some (vb, r') =>
        if ofBE vb = 1 then .ok (.boolean true, r')
        else if ofBE vb = 0 then .ok (.boolean false, r') else .error .value
    else if ty = 7 then
      match readPadded len r with
      | .error e => .error e
      | .ok (vb, r') =>
        if validUtf8 vb then .ok (.textString vb, r') else .error .value
    else if ty = 8 then
      (readPadded len r).map (fun (vb, r') => (.byteString vb, r'))
    else if ty = 9 then
      (if len = 8 then
        match takeExact 8 r with
        | none => .error .short
        | some (vb, r') => .ok (.dateTime (ofTC 8 (ofBE vb)), r')
       else .error .length)
    else if ty = 10 then
      (if len = 4 then (read4Pad r).map (fun (x, r') => (.interval x, r')) else .error .length)
    else .error .type

end Kmip.Prim
