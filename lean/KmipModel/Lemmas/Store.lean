/-
Store invariants: identifiers strictly increasing in row order and below the
AUTOINCREMENT sequence.  Preserved by *every* effect.
-/
import KmipModel.Lemmas.EffSpec
namespace Kmip

def Store.Inv (s : Store) : Prop :=
  s.objs.Pairwise (fun a b => a.uid < b.uid) ∧ ∀ o ∈ s.objs, o.uid < s.nextUid

theorem Store.inv_empty : Store.empty.Inv := by simp [Store.Inv, Store.empty]

theorem Store.inv_insert (s : Store) (o : Obj) (h : s.Inv) :
    (s.insert (fun n => { o with uid := n })).1.Inv := by
  obtain ⟨hp, hb⟩ := h
  simp only [Store.insert, Store.Inv]
  constructor
  · rw [List.pairwise_append]
    refine ⟨hp, by simp, ?_⟩
    intro a ha b hb'
    simp only [List.mem_singleton] at hb'
    subst hb'
    exact hb a ha
  · intro x hx
    simp only [List.mem_append, List.mem_singleton] at hx
    rcases hx with hx | rfl
    · exact Nat.lt_succ_of_lt (hb x hx)
    · exact Nat.lt_succ_self _

theorem Store.Inv.unique {s : Store} (hi : s.Inv) {a b : Obj} (ha : a ∈ s.objs) (hb : b ∈ s.objs)
    (h : a.uid = b.uid) : a = b := by
  rcases List.mem_iff_getElem.mp ha with ⟨i, hi', rfl⟩
  rcases List.mem_iff_getElem.mp hb with ⟨j, hj', rfl⟩
  by_cases hij : i = j
  · subst hij; rfl
  · exfalso
    rcases Nat.lt_or_gt_of_ne hij with hlt | hlt
    · have := List.pairwise_iff_getElem.mp hi.1 i j hi' hj' hlt; omega
    · have := List.pairwise_iff_getElem.mp hi.1 j i hj' hi' hlt; omega

theorem Store.insert_nextUid (s : Store) (mk : Nat → Obj) : (s.insert mk).1.nextUid = s.nextUid + 1 := rfl

theorem Store.insertAll_spec (s : Store) (os : List Obj) (h : s.Inv) :
    (s.insertAll os).Inv ∧ s.nextUid ≤ (s.insertAll os).nextUid ∧
    (∀ x ∈ (s.insertAll os).objs, x ∈ s.objs ∨
        (s.nextUid ≤ x.uid ∧ ∃ o ∈ os, x = { o with uid := x.uid })) := by
  induction os generalizing s with
  | nil => exact ⟨h, Nat.le_refl _, fun x hx => Or.inl hx⟩
  | cons o os ih =>
    simp only [Store.insertAll]
    have h1 := Store.inv_insert s o h
    have ih' := ih (s.insert (fun n => { o with uid := n })).1 h1
    refine ⟨ih'.1, Nat.le_trans (Nat.le_succ _) ih'.2.1, ?_⟩
    intro x hx
    rcases ih'.2.2 x hx with hx' | ⟨hx', o2, ho2, hxo⟩
    · simp only [Store.insert, List.mem_append, List.mem_singleton] at hx'
      rcases hx' with hx' | rfl
      · exact Or.inl hx'
      · exact Or.inr ⟨Nat.le_refl _, o, List.mem_cons_self, rfl⟩
    · exact Or.inr ⟨Nat.le_of_succ_le hx', o2, List.mem_cons_of_mem _ ho2, hxo⟩

theorem Store.inv_update (s : Store) (o' : Obj) (h : s.Inv) : (s.update o'.uid (fun _ => o')).Inv := by
  obtain ⟨hp, hb⟩ := h
  simp only [Store.update, Store.Inv]
  have huid : ∀ o : Obj, (if (o.uid == o'.uid) = true then o' else o).uid = o.uid := by
    intro o; split
    · rename_i h; simp at h; exact h.symm
    · rfl
  constructor
  · rw [List.pairwise_map]
    exact hp.imp (fun {a b} hab => by rw [huid a, huid b]; exact hab)
  · intro x hx
    simp only [List.mem_map] at hx
    obtain ⟨y, hy, rfl⟩ := hx
    rw [huid y]; exact hb y hy

theorem Store.inv_delete (s : Store) (u : Nat) (h : s.Inv) : (s.delete u).Inv := by
  obtain ⟨hp, hb⟩ := h
  simp only [Store.delete, Store.Inv]
  exact ⟨hp.filter _, fun x hx => hb x (List.mem_filter.mp hx).1⟩

/-- identifiers present after an effect were present before, or are fresh (≥ the old sequence value) -/
def Store.Extends (s s' : Store) : Prop :=
  s.nextUid ≤ s'.nextUid ∧ ∀ x ∈ s'.objs, (∃ y ∈ s.objs, y.uid = x.uid) ∨ s.nextUid ≤ x.uid

theorem Store.Extends.refl (s : Store) : s.Extends s := ⟨Nat.le_refl _, fun x hx => Or.inl ⟨x, hx, rfl⟩⟩

theorem Store.Extends.trans {a b c : Store} (h1 : a.Extends b) (h2 : b.Extends c) : a.Extends c := by
  refine ⟨Nat.le_trans h1.1 h2.1, fun x hx => ?_⟩
  rcases h2.2 x hx with ⟨y, hy, hxy⟩ | hge
  · rcases h1.2 y hy with ⟨z, hz, hzy⟩ | hge
    · exact Or.inl ⟨z, hz, hzy.trans hxy⟩
    · exact Or.inr (hxy ▸ hge)
  · exact Or.inr (Nat.le_trans h1.1 hge)

theorem applyEffect_inv (e : Engine) (eff : Effect) (h : e.store.Inv) :
    (applyEffect e eff).store.Inv ∧ e.store.Extends (applyEffect e eff).store := by
  cases eff with
  | none => exact ⟨h, Store.Extends.refl _⟩
  | insert os =>
    have hs := Store.insertAll_spec e.store os h
    simp only [applyEffect]
    refine ⟨hs.1, hs.2.1, fun x hx => ?_⟩
    rcases hs.2.2 x hx with hx' | hx'
    · exact Or.inl ⟨x, hx', rfl⟩
    · exact Or.inr hx'.1
  | update o' =>
    refine ⟨Store.inv_update _ _ h, Nat.le_refl _, fun x hx => ?_⟩
    simp only [applyEffect, Store.update, List.mem_map] at hx
    obtain ⟨y, hy, rfl⟩ := hx
    refine Or.inl ⟨y, hy, ?_⟩
    split
    · rename_i hh; simp at hh; exact hh
    · rfl
  | delete u =>
    refine ⟨Store.inv_delete _ _ h, Nat.le_refl _, fun x hx => ?_⟩
    simp only [applyEffect, Store.delete] at hx
    exact Or.inl ⟨x, (List.mem_filter.mp hx).1, rfl⟩

/-! ### the batch loop as a fold -/

/-- declarative reading of `_process_batch` -/
def batchSpec (c : Ctx) (stop : Bool) : Engine → List Item → Engine × List ItemResult
  | e, [] => (e, [])
  | e, it :: rest =>
    match processOperation c e it with
    | .ok (eff, d) =>
      let r := batchSpec c stop (applyEffect e eff) rest
      (r.1, ⟨it.payload.op, it.batchId, .ok d⟩ :: r.2)
    | .error err =>
      if stop then (e, [⟨it.payload.op, it.batchId, .error err⟩])
      else
        let r := batchSpec c stop e rest
        (r.1, ⟨it.payload.op, it.batchId, .error err⟩ :: r.2)

theorem processBatch_eq (c : Ctx) (stop : Bool) (e : Engine) (items : List Item) (acc : List ItemResult) :
    processBatch c stop e items acc =
      ((batchSpec c stop e items).1, acc.reverse ++ (batchSpec c stop e items).2) := by
  induction items generalizing e acc with
  | nil => simp [processBatch, batchSpec]
  | cons it rest ih =>
    simp only [processBatch, batchSpec]
    cases h : processOperation c e it with
    | ok r =>
      obtain ⟨eff, d⟩ := r
      simp only [ih]; simp
    | error err =>
      simp only
      cases stop <;> simp [ih]

theorem batchSpec_inv (c : Ctx) (stop : Bool) (e : Engine) (items : List Item) (h : e.store.Inv) :
    (batchSpec c stop e items).1.store.Inv ∧ e.store.Extends (batchSpec c stop e items).1.store := by
  induction items generalizing e with
  | nil => exact ⟨h, Store.Extends.refl _⟩
  | cons it rest ih =>
    simp only [batchSpec]
    split
    · rename_i eff d _
      have h1 := applyEffect_inv e eff h
      have h2 := ih (applyEffect e eff) h1.1
      exact ⟨h2.1, h1.2.trans h2.2⟩
    · split
      · exact ⟨h, Store.Extends.refl _⟩
      · exact ih e h

end Kmip
