/-
Non-interference of stored key material, part 3: two engine states that differ only in
stored values (`SameButValues`) answer whole batches, requests and histories alike.

Why a RELATION here and not an equation `… (e.mapV g) … = (… e …).mapV g`: an item that inserts
an object takes its value from the request / the backend answer, so after the item the new object
carries the SAME value in both runs while `(…).mapV g` would scramble it — the equation is false as
soon as a batch creates an object and then reads it (`C20Engine.mapV_equation_false_for_batches` in Props/C20Engine.lean).  The
relation "equal after blanking every value" is the most general one (any two states that differ only
in values, empty ↔ empty, are related) and it is preserved by every effect.
-/
import KmipModel.Lemmas.ValueNIOps
namespace Kmip

/-! ### the canonical scrambling and the relation -/

/-- every non-empty value becomes the same token -/
def blank (s : String) : String := if s = "" then "" else "*"

theorem blank_empty (s : String) : blank s = "" ↔ s = "" := by
  unfold blank
  split
  · simp [*]
  · simp [*]

theorem blank_comp (g : String → String) (hg : ∀ s, g s = "" ↔ s = "") : blank ∘ g = blank := by
  funext s
  simp only [Function.comp, blank, hg]

theorem blank_eq_iff (a b : String) : blank a = blank b ↔ (a = "" ↔ b = "") := by
  unfold blank
  by_cases ha : a = "" <;> by_cases hb : b = "" <;> simp [ha, hb]

/-- **Two engine states that differ only in the stored values** (key material, secret bytes,
certificate bytes), an empty value being empty in both: they are equal once every non-empty value is
replaced by the same token.  (`sameButValues_iff` spells this out field by field.) -/
def SameButValues (e e' : Engine) : Prop := e.mapV blank = e'.mapV blank

theorem SameButValues.refl (e : Engine) : SameButValues e e := rfl
theorem SameButValues.symm {e e' : Engine} (h : SameButValues e e') : SameButValues e' e := Eq.symm h
theorem SameButValues.trans {a b c : Engine} (h1 : SameButValues a b) (h2 : SameButValues b c) :
    SameButValues a c := Eq.trans h1 h2

theorem Store.mapV_comp (g h : String → String) (s : Store) : (s.mapV g).mapV h = s.mapV (h ∘ g) := by
  simp only [Store.mapV, List.map_map]
  rfl

theorem Engine.mapV_comp (g h : String → String) (e : Engine) : (e.mapV g).mapV h = e.mapV (h ∘ g) := by
  simp only [Engine.mapV, Store.mapV_comp]

/-- scrambling with any emptiness-preserving function gives a state that differs only in values -/
theorem sameButValues_mapV (g : String → String) (hg : ∀ s, g s = "" ↔ s = "") (e : Engine) :
    SameButValues (e.mapV g) e := by
  unfold SameButValues
  rw [Engine.mapV_comp, blank_comp g hg]

/-- one object differs from another only in its value -/
def ObjSame (o o' : Obj) : Prop := o' = { o with value := o'.value } ∧ (o.value = "" ↔ o'.value = "")

theorem objSame_iff (o o' : Obj) : o.mapV blank = o'.mapV blank ↔ ObjSame o o' := by
  cases o; cases o'
  simp only [Obj.mapV, ObjSame, Obj.mk.injEq, blank_eq_iff]
  constructor
  · rintro ⟨h1, h2, h3, h4, h5, h6, h7, h8, h9, h10, h11, h12, h13, h14, h15, h16, h17, h18⟩
    exact ⟨⟨h1.symm, h2.symm, h3.symm, h4.symm, h5.symm, h6.symm, h7.symm, h8.symm, h9.symm, h10.symm, h11.symm,
      h12.symm, h13.symm, h14.symm, h15.symm, h16.symm, trivial, h18.symm⟩, h17⟩
  · rintro ⟨⟨h1, h2, h3, h4, h5, h6, h7, h8, h9, h10, h11, h12, h13, h14, h15, h16, _, h18⟩, h17⟩
    exact ⟨h1.symm, h2.symm, h3.symm, h4.symm, h5.symm, h6.symm, h7.symm, h8.symm, h9.symm, h10.symm, h11.symm,
      h12.symm, h13.symm, h14.symm, h15.symm, h16.symm, h17, h18.symm⟩

/-- two lists related element by element (same length) -/
inductive Forall2 {α β} (R : α → β → Prop) : List α → List β → Prop
  | nil : Forall2 R [] []
  | cons {a b l l'} : R a b → Forall2 R l l' → Forall2 R (a :: l) (b :: l')

theorem Forall2.length_eq {α β} {R : α → β → Prop} {l : List α} {l' : List β} (h : Forall2 R l l') :
    l.length = l'.length := by
  induction h with
  | nil => rfl
  | cons _ _ ih => simp only [List.length_cons, ih]

theorem Forall2.get? {α β} {R : α → β → Prop} {l : List α} {l' : List β} (h : Forall2 R l l') (i : Nat) :
    (l[i]? = none ∧ l'[i]? = none) ∨ (∃ a b, l[i]? = some a ∧ l'[i]? = some b ∧ R a b) := by
  induction h generalizing i with
  | nil => exact Or.inl ⟨rfl, rfl⟩
  | cons hab _ ih =>
    cases i with
    | zero => exact Or.inr ⟨_, _, rfl, rfl, hab⟩
    | succ i => simpa using ih i

theorem map_eq_map_iff_forall₂ {α β} (f : α → β) (l l' : List α) :
    l.map f = l'.map f ↔ Forall2 (fun a b => f a = f b) l l' := by
  induction l generalizing l' with
  | nil =>
    cases l' with
    | nil => exact ⟨fun _ => .nil, fun _ => rfl⟩
    | cons b l' => exact ⟨fun h => by simp at h, fun h => by cases h⟩
  | cons a l ih =>
    cases l' with
    | nil => exact ⟨fun h => by simp at h, fun h => by cases h⟩
    | cons b l' =>
      simp only [List.map_cons, List.cons.injEq, ih]
      exact ⟨fun h => .cons h.1 h.2, fun h => by cases h with | cons h1 h2 => exact ⟨h1, h2⟩⟩

/-- `SameButValues` field by field: same transient fields, same identifier sequence, and the rows
pairwise equal except for the value, which is empty in both or in neither. -/
theorem sameButValues_iff (e e' : Engine) :
    SameButValues e e' ↔
      e.placeholder = e'.placeholder ∧ e.version = e'.version ∧ e.identity = e'.identity ∧
      e.store.nextUid = e'.store.nextUid ∧ Forall2 ObjSame e.store.objs e'.store.objs := by
  obtain ⟨⟨objs, n⟩, p, v, i⟩ := e
  obtain ⟨⟨objs', n'⟩, p', v', i'⟩ := e'
  simp only [SameButValues, Engine.mapV, Store.mapV, Engine.mk.injEq, Store.mk.injEq, map_eq_map_iff_forall₂,
    objSame_iff]
  constructor
  · rintro ⟨⟨h1, h2⟩, h3, h4, h5⟩; exact ⟨h3, h4, h5, h2, h1⟩
  · rintro ⟨h3, h4, h5, h2, h1⟩; exact ⟨⟨h1, h2⟩, h3, h4, h5⟩

/-- the transient fields may be reset alike on both sides -/
theorem SameButValues.withFields {e e' : Engine} (h : SameButValues e e') (p : Option String) (v : Nat)
    (i : Identity) : SameButValues ⟨e.store, p, v, i⟩ ⟨e'.store, p, v, i⟩ := by
  have hs : e.store.mapV blank = e'.store.mapV blank := congrArg Engine.store h
  show Engine.mk _ _ _ _ = Engine.mk _ _ _ _
  rw [hs]

/-! ### one item -/

/-- two outcomes of an item that are equal up to stored values -/
def OutSame (r r' : R (Effect × Data)) : Prop := r.map (outMapV blank) = r'.map (outMapV blank)

/-- **One item on two states that differ only in values.** -/
theorem processOperation_same (c : Ctx) {e e' : Engine} (h : SameButValues e e') (it : Item) :
    OutSame (processOperation c e it) (processOperation c e' it) := by
  unfold OutSame
  rw [← processOperation_mapV blank c e blank_empty, ← processOperation_mapV blank c e' blank_empty, h]

/-- two answers that are equal except for the value carried by an unwrapped Get answer -/
inductive DataSame : Data → Data → Prop
  | same (d : Data) : DataSame d d
  | got (ot : Nat) (u v v' : String) (a l f s : Option Nat) : (v = "" ↔ v' = "") →
      DataSame (.object ot u v a l f s false) (.object ot u v' a l f s false)

theorem Data.mapV_cases (g : String → String) (d : Data) :
    (∃ ot u v a l f s, d = .object ot u v a l f s false) ∨ d.mapV g = d := by
  cases d with
  | object ot u v a l f s w =>
    cases w with
    | false => exact Or.inl ⟨ot, u, v, a, l, f, s, rfl⟩
    | true => exact Or.inr rfl
  | _ => exact Or.inr rfl

theorem dataSame_of_mapV {d d' : Data} (h : d.mapV blank = d'.mapV blank) : DataSame d d' := by
  rcases Data.mapV_cases blank d with ⟨ot, u, v, a, l, f, s, rfl⟩ | hd
  · rcases Data.mapV_cases blank d' with ⟨ot', u', v', a', l', f', s', rfl⟩ | hd'
    · simp only [Data.mapV, Data.object.injEq] at h
      obtain ⟨rfl, rfl, hv, rfl, rfl, rfl, rfl, _⟩ := h
      exact .got _ _ _ _ _ _ _ _ ((blank_eq_iff _ _).mp hv)
    · rw [hd'] at h
      subst h
      exact .got _ _ _ _ _ _ _ _ (blank_empty v).symm
  · rcases Data.mapV_cases blank d' with ⟨ot', u', v', a', l', f', s', rfl⟩ | hd'
    · rw [hd] at h
      subst h
      exact .got _ _ _ _ _ _ _ _ (blank_empty v')
    · rw [hd, hd'] at h
      subst h
      exact .same _

theorem mapV_of_dataSame {d d' : Data} (h : DataSame d d') : d.mapV blank = d'.mapV blank := by
  cases h with
  | same => rfl
  | got ot u v v' a l f s hv => simp only [Data.mapV, (blank_eq_iff v v').mpr hv]

/-- What `OutSame` says, in plain terms: both fail with the SAME error, or both succeed with answers
that are `DataSame` and effects that are equal up to the value of an updated object. -/
theorem outSame_cases {r r' : R (Effect × Data)} (h : OutSame r r') :
    (∃ err, r = .error err ∧ r' = .error err) ∨
    (∃ eff d eff' d', r = .ok (eff, d) ∧ r' = .ok (eff', d') ∧ eff.mapV blank = eff'.mapV blank ∧ DataSame d d') := by
  unfold OutSame at h
  cases r with
  | error err =>
    cases r' with
    | error err' => simp only [map_error, Except.error.injEq] at h; subst h; exact Or.inl ⟨_, rfl, rfl⟩
    | ok p' => simp [Except.map] at h
  | ok p =>
    cases r' with
    | error err' => simp [Except.map] at h
    | ok p' =>
      simp only [map_ok, Except.ok.injEq, outMapV, Prod.mk.injEq] at h
      exact Or.inr ⟨p.1, p.2, p'.1, p'.2, rfl, rfl, h.1, dataSame_of_mapV h.2⟩

/-! ### effects -/

/-- scrambling the new store corresponds to scrambling inserted objects as well -/
def Effect.mapVAll (g : String → String) : Effect → Effect
  | .insert os => .insert (os.map (Obj.mapV g))
  | .update o => .update (o.mapV g)
  | eff => eff

theorem Effect.mapVAll_of_mapV {g : String → String} {eff eff' : Effect} (h : eff.mapV g = eff'.mapV g) :
    eff.mapVAll g = eff'.mapVAll g := by
  cases eff <;> cases eff' <;> simp only [Effect.mapV] at h <;>
    first
    | rfl
    | (cases h; rfl)
    | (simp only [Effect.update.injEq] at h; simp only [Effect.mapVAll, h])
    | (cases h)

theorem Store.insertAll_mapV (g : String → String) (s : Store) (os : List Obj) :
    (s.insertAll os).mapV g = (s.mapV g).insertAll (os.map (Obj.mapV g)) := by
  induction os generalizing s with
  | nil => rfl
  | cons o os ih =>
    simp only [Store.insertAll, List.map_cons, ih]
    congr 1
    simp only [Store.insert, Store.mapV, List.map_append, List.map_cons, List.map_nil]
    rfl

theorem Store.insertAll_nextUid (s : Store) (os : List Obj) : (s.insertAll os).nextUid = s.nextUid + os.length := by
  induction os generalizing s with
  | nil => rfl
  | cons o os ih => simp only [Store.insertAll, ih, Store.insert, List.length_cons]; omega

theorem Store.update_mapV (g : String → String) (s : Store) (o' : Obj) :
    (s.update o'.uid (fun _ => o')).mapV g = (s.mapV g).update (o'.mapV g).uid (fun _ => o'.mapV g) := by
  simp only [Store.update, Store.mapV, List.map_map, Obj.mapV_uid]
  congr 1
  apply List.map_congr_left
  intro o _
  simp only [Function.comp, Obj.mapV_uid]
  split_both <;> rfl

theorem Store.delete_mapV (g : String → String) (s : Store) (u : Nat) :
    (s.delete u).mapV g = (s.mapV g).delete u := by
  simp only [Store.delete, Store.mapV, List.filter_map]
  rfl

/-- **Applying an effect commutes with scrambling** (inserted objects included). -/
theorem applyEffect_mapV (g : String → String) (e : Engine) (eff : Effect) :
    (applyEffect e eff).mapV g = applyEffect (e.mapV g) (eff.mapVAll g) := by
  cases eff with
  | none => rfl
  | insert os =>
    simp only [applyEffect, Effect.mapVAll, Engine.mapV, Store.insertAll_mapV, List.isEmpty_map, List.length_map,
      Store.mapV_nextUid]
  | update o' =>
    simp only [applyEffect, Effect.mapVAll, Engine.mapV, Store.update_mapV]
  | delete u =>
    simp only [applyEffect, Effect.mapVAll, Engine.mapV, Store.delete_mapV]

/-- related states stay related under related effects -/
theorem applyEffect_same {e e' : Engine} {eff eff' : Effect} (h : SameButValues e e')
    (heff : eff.mapV blank = eff'.mapV blank) : SameButValues (applyEffect e eff) (applyEffect e' eff') := by
  unfold SameButValues at *
  rw [applyEffect_mapV, applyEffect_mapV, h, Effect.mapVAll_of_mapV heff]

/-! ### batches -/

def ItemResult.mapV (g : String → String) (r : ItemResult) : ItemResult :=
  { r with result := r.result.map (Data.mapV g) }

/-- two item results: same operation, same batch id, same error — or answers that are `DataSame` -/
def ItemSame (r r' : ItemResult) : Prop :=
  r.op = r'.op ∧ r.batchId = r'.batchId ∧
    ((∃ err, r.result = .error err ∧ r'.result = .error err) ∨
     (∃ d d', r.result = .ok d ∧ r'.result = .ok d' ∧ DataSame d d'))

/-- **A batch on two states that differ only in values**: the final states differ only in values
and the item results are pairwise `ItemSame`. -/
theorem batchSpec_same (c : Ctx) (stop : Bool) {e e' : Engine} (h : SameButValues e e') (items : List Item) :
    SameButValues (batchSpec c stop e items).1 (batchSpec c stop e' items).1 ∧
    Forall2 ItemSame (batchSpec c stop e items).2 (batchSpec c stop e' items).2 := by
  induction items generalizing e e' with
  | nil => exact ⟨h, .nil⟩
  | cons it rest ih =>
    rcases outSame_cases (processOperation_same c h it) with ⟨err, h1, h2⟩ | ⟨eff, d, eff', d', h1, h2, heff, hd⟩
    · simp only [batchSpec, h1, h2]
      cases stop with
      | true => exact ⟨h, .cons ⟨rfl, rfl, Or.inl ⟨err, rfl, rfl⟩⟩ .nil⟩
      | false =>
        have := ih h
        exact ⟨this.1, .cons ⟨rfl, rfl, Or.inl ⟨err, rfl, rfl⟩⟩ this.2⟩
    · simp only [batchSpec, h1, h2]
      have := ih (applyEffect_same h heff)
      exact ⟨this.1, .cons ⟨rfl, rfl, Or.inr ⟨d, d', rfl, rfl, hd⟩⟩ this.2⟩

/-! ### requests -/

/-- two request outcomes: the same rejection, or item results pairwise `ItemSame` -/
inductive ReqSame : ReqResult → ReqResult → Prop
  | rejected (rsn : Nat) (m : String) : ReqSame (.rejected rsn m) (.rejected rsn m)
  | results (rs rs' : List ItemResult) : Forall2 ItemSame rs rs' → ReqSame (.results rs) (.results rs')

/-- **A whole request on two states that differ only in values.** -/
theorem processRequest_same (c : Ctx) {e e' : Engine} (h : SameButValues e e') (id : Identity) (r : Request) :
    SameButValues (processRequest c e id r).1 (processRequest c e' id r).1 ∧
    ReqSame (processRequest c e id r).2 (processRequest c e' id r).2 := by
  have hv : (e.mapV blank).version = (e'.mapV blank).version := congrArg Engine.version h
  have hv : e.version = e'.version := hv
  unfold processRequest
  simp only
  split_both
  · exact ⟨h.withFields _ _ _, .rejected _ _⟩
  · split_both
    · exact ⟨h.withFields _ _ _, .rejected _ _⟩
    · split_both
      · exact ⟨h.withFields _ _ _, .rejected _ _⟩
      · split_both
        · exact ⟨h.withFields _ _ _, .rejected _ _⟩
        · split_both
          · exact ⟨h.withFields _ _ _, .rejected _ _⟩
          · simp only [processBatch_eq, List.reverse_nil, List.nil_append]
            have := batchSpec_same c r.stop (h.withFields none r.version id) r.items
            exact ⟨this.1, .results _ _ this.2⟩

/-! ### histories -/

/-- the answers given along a history -/
def answers : Engine → List Step → List ReqResult
  | _, [] => []
  | e, .request c id r :: rest => (processRequest c e id r).2 :: answers (processRequest c e id r).1 rest
  | e, .restart :: rest => answers e.restart rest

theorem run_cons (e : Engine) (s : Step) (rest : List Step) : run e (s :: rest) = run (stepEngine e s) rest := rfl

/-- **A whole history (requests and restarts) on two states that differ only in values**: every
answer along the way is `ReqSame` and the final states differ only in values. -/
theorem run_same {e e' : Engine} (h : SameButValues e e') (steps : List Step) :
    SameButValues (run e steps) (run e' steps) ∧ Forall2 ReqSame (answers e steps) (answers e' steps) := by
  induction steps generalizing e e' with
  | nil => exact ⟨h, .nil⟩
  | cons s rest ih =>
    cases s with
    | request c id r =>
      have h1 := processRequest_same c h id r
      have := ih h1.1
      exact ⟨this.1, .cons h1.2 this.2⟩
    | restart =>
      have h1 : SameButValues e.restart e'.restart := h.withFields none 12 ⟨none, none⟩
      exact ih h1

/-! ### the `mapV` forms -/

theorem batchSpec_mapV (g : String → String) (hg : ∀ s, g s = "" ↔ s = "") (c : Ctx) (stop : Bool) (e : Engine)
    (items : List Item) :
    SameButValues (batchSpec c stop (e.mapV g) items).1 (batchSpec c stop e items).1 ∧
    Forall2 ItemSame (batchSpec c stop (e.mapV g) items).2 (batchSpec c stop e items).2 :=
  batchSpec_same c stop (sameButValues_mapV g hg e) items

theorem processRequest_mapV (g : String → String) (hg : ∀ s, g s = "" ↔ s = "") (c : Ctx) (e : Engine)
    (id : Identity) (r : Request) :
    SameButValues (processRequest c (e.mapV g) id r).1 (processRequest c e id r).1 ∧
    ReqSame (processRequest c (e.mapV g) id r).2 (processRequest c e id r).2 :=
  processRequest_same c (sameButValues_mapV g hg e) id r

theorem run_mapV (g : String → String) (hg : ∀ s, g s = "" ↔ s = "") (e : Engine) (steps : List Step) :
    SameButValues (run (e.mapV g) steps) (run e steps) ∧
    Forall2 ReqSame (answers (e.mapV g) steps) (answers e steps) :=
  run_same (sameButValues_mapV g hg e) steps

end Kmip
